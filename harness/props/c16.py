"""C16 - print/println/format strings and string interpolation render values exactly.

Theorems: coq/C16/Properties_C16.v, Properties_C16_contexts.v (decimal/hex/octal/binary round trips for every integer, canonical
form, pad length, sign-first zero padding of printf, %% literal, the interpolation splitter partitions
the literal for every byte string, {{ }} literal, single-space joining, output in order up to an error
exit; rendering inside rendering; scopes, loops, deferred statements, copies of a literal's AST; two laws refuted on the
faithful model = known findings; three former findings repaired in /repo and proved).
Tie: generated Cb programs (declarations + print/println statements + optionally a failing statement)
are run on /repo's binary; the extracted model (bin/c16_model) is given the same statements; stdout
bytes are compared.  Independently every statement carries the output the property's own reading
demands (Python's C-compatible % formatting), compared with the implementation as well.
All text is handled as latin-1 str (one char = one byte) so that arbitrary bytes survive JSON.
"""
import json
import os
import shutil
import time
import subprocess
import tempfile

import common
from common import rng_for

PROP = "C16"
LEVEL = "proof"
META = {
    "category": "proof",
    "technique": "Coq proofs about a function-by-function Gallina model of output_manager.cpp / the interpolation "
                 "splitter / format_interpolated_value + extracted-model differential run of generated programs against main (stdout bytes)",
    "text": "Machine-checked theorems for all integers / all byte strings about a Gallina model of print_multiple, "
            "render_formatted_string (printf subset %d %i %lld %u %x %X %o %c %s %% with flags 0 - and width), "
            "process_escape_sequences, the lexer's interpolation detection, parseInterpolatedString and "
            "format_interpolated_value: decimal/hex/octal/binary renderings parse back to the value (mod 2^64 for the "
            "unsigned views), decimal output is canonical, padded length = max(width, digits), printf and {n:0N} zero "
            "padding keep the sign first, %% gives %, the splitter's segments re-assemble to the literal for every byte string, "
            "{{ }} give braces, text outside braces is byte-identical, arguments are joined by single spaces, output "
            "appears in statement order up to an error exit; a plain literal prints its escape-processed text alone or "
            "among several arguments; only an odd run of backslashes hides a directive. Two laws are refuted on the "
            "faithful model (known findings: %c of a 0 byte prints the decimal number, escapes are processed after "
            "substitution); three former findings are repaired in /repo (4cd822e, 033c981, 475de81) and now proved. "
            "Rendering inside rendering and in every code position: the print path re-entered from functions called inside "
            "{..} / print / printf arguments (Nested.v), and inside scopes - blocks, if/else, loop iterations, switch cases, match arms, "
            "deferred statements (Contexts.v: a scope writes its statements' output in order, then its deferred statements' output in "
            "reverse; a loop writes the concatenation of its iterations, the n-th like the first; a statement renders inside a scope as "
            "outside; a deep copy of a literal's AST renders like the literal). "
            "On every run the extracted model and /repo's binary are run on "
            "the same generated programs (values at and around every power of two and integer type limit through every "
            "converter, widths 0-20, arities 1-6, ASCII/UTF-8/raw high bytes, programs that fail after printing; every rendering form "
            "placed in plain / generic (explicit and inferred type arguments) / async / default-parameter / imported-module functions, "
            "lambdas, struct and generic-struct methods, loops, branches, match arms, defer, macros, global initialisers) and "
            "stdout bytes are compared; the output demanded by the property's own reading is compared as well.",
    "note": "Trusted: Coq kernel (vm_compute for the refutation witnesses and a 16-digit table), no axioms "
            "(Print Assumptions: closed); extraction via ExtrOcamlBasic+ExtrOcamlString; the model is hand-written and "
            "tied to the code by differential testing only. Outside the model: %f, %p, printf "
            "precision and the flags + space #, values of type char/bool/struct/array/pointer, widths above ~10^3 "
            "({x:[0][W].Nf} of doubles is modelled: FloatFmt.v); "
            "expressions inside {...} and control-flow conditions are evaluated by the harness, not by the model; function kinds "
            "(generic, async, lambda, module, default parameters, methods) exist in the generated source only.",
}

I64MIN, I64MAX = -2 ** 63, 2 ** 63 - 1
M64 = 2 ** 64
TYPES = [("tiny", -128, 127), ("short", -32768, 32767), ("int", -2 ** 31, 2 ** 31 - 1), ("long", I64MIN, I64MAX),
         ("unsigned tiny", 0, 255), ("unsigned short", 0, 65535), ("unsigned int", 0, 2 ** 32 - 1),
         ("unsigned long", 0, I64MAX)]


def boundary_values():
    vs = set()
    for k in range(0, 64):
        for s in (1, -1):
            for d in (-2, -1, 0, 1, 2):
                vs.add(s * 2 ** k + d)
    for _, lo, hi in TYPES:
        for d in (-1, 0, 1):
            vs.add(lo + d); vs.add(hi + d)
    for k in range(1, 20):
        for d in (-1, 0, 1):
            vs.add(10 ** k + d); vs.add(-(10 ** k) + d)      # digit-count boundaries
    return sorted(v for v in vs if I64MIN <= v <= I64MAX)


POOL = boundary_values()


def lit(v):
    """source text of an integer constant expression"""
    if v == I64MIN:
        return "(-9223372036854775807 - 1)"
    return str(v) if v >= 0 else "-%d" % (-v)


# ------------------------------------------------------------------ text generators
ASCII_SAFE = "".join(chr(c) for c in range(32, 127) if chr(c) not in '"\\{}%$')
UTF8_SAMPLES = ["é", "ü", "ß", "日本語", "한", "Ж", "→", "€", "😀", "𝄞", " ", "߿", "ࠀ", "￿", "\U00010000"]


def rand_text(rng, maxlen=8, allow=""):
    """bytes (as latin-1 str) free of the metacharacters under test unless listed in `allow`"""
    n = rng.randint(0, maxlen)
    out = []
    for _ in range(n):
        r = rng.random()
        if r < 0.70:
            out.append(rng.choice(ASCII_SAFE + allow * 3))
        elif r < 0.93:
            out.append(rng.choice(UTF8_SAMPLES).encode("utf-8").decode("latin-1"))
        elif r < 0.96:
            out.append(chr(rng.randint(0x80, 0xff)))            # raw high byte, not valid UTF-8 on its own
        else:
            out.append(rng.choice([" ", "  ", "\t"]))
    return "".join(out)


def hexs(s):
    return s.encode("latin-1").hex()


# ------------------------------------------------------------------ the property's own reading (independent of the model)
def c_int_directive(conv, flags, width, v):
    """what C printf prints for %<flags><width><conv> with a 64-bit argument"""
    minus = "-" in flags
    zero = "0" in flags and not minus
    f = "%" + ("-" if minus else "") + ("0" if zero else "") + (str(width) if width else "")
    if conv in ("d", "i", "lld", "ld"):
        return (f + "d") % v
    u = v % M64
    if conv == "u":
        return (f + "d") % u
    return (f + conv) % u


def c_str_directive(flags, width, body):
    return body.ljust(width) if "-" in flags else body.rjust(width)


def spec_escape(t):
    """documented escapes of a string literal; None when there is no reading (NUL, unknown escape)"""
    out, i = [], 0
    while i < len(t):
        if t[i] == "\\":
            if i + 1 >= len(t):
                return None
            m = {"n": "\n", "t": "\t", "r": "\r", "\\": "\\", "%": "%"}.get(t[i + 1])
            if m is None:
                return None
            out.append(m); i += 2
        else:
            out.append(t[i]); i += 1
    return "".join(out)


def float_parts(x):
    """the double x as (neg, m, e) with |x| = m * 2^e exactly, m < 2^53"""
    import math
    neg = math.copysign(1.0, x) < 0
    if x == 0:
        return neg, 0, 0
    fr, ex = math.frexp(abs(x))
    return neg, int(fr * 2 ** 53), ex - 53


def spec_interp_float(x, spec):
    """documented rendering of a double: {x} = 6 decimals, {x:[W].Nf} = N decimals right-aligned in W columns (C's %W.Nf);
    the 0 flag is read as C's %0W.Nf for non-negative values only (the implementation puts the fill before the sign)"""
    import math
    import re
    if spec in (None, ""):
        return "%f" % x
    m = re.fullmatch(r"(0?)([0-9]*)\.([0-9]+)(f?)", spec)
    if not m:
        return None
    zero, w, p = m.group(1) == "0", int(m.group(2) or 0), int(m.group(3))
    if zero and (math.copysign(1.0, x) < 0):
        return None
    if zero and w == 0:
        return None
    return ("%" + ("0" if zero else "") + (str(w) if w else "") + "." + str(p) + "f") % x


def spec_interp_value(v, spec):
    """documented rendering of {expr:spec}; None = no documented reading"""
    if isinstance(v, float):
        return spec_interp_float(v, spec)
    if isinstance(v, str):
        return v if spec in (None, "") else None
    if spec in (None, "", "d"):
        return str(v)
    u = v % M64
    if spec == "x":
        return "%x" % u
    if spec == "X":
        return "%X" % u
    if spec == "b":
        return bin(u)[2:]
    zero = spec.startswith("0")
    body = spec[1:] if zero else spec
    tc = ""
    if body and body[-1] in "dxXb":
        tc, body = body[-1], body[:-1]
    if not body.isdigit():
        return None
    w = int(body)
    if tc in ("", "d"):
        return ("%0" + str(w) + "d") % v if zero and w > 0 else str(v).rjust(w)
    if tc in ("x", "X"):
        s = ("%" + tc) % u
        return s.zfill(w) if zero else s.rjust(w)
    if tc == "b":
        return bin(u)[2:].zfill(w) if zero else None          # {n:Nb} without 0: not documented
    return None


# ------------------------------------------------------------------ program generation
class Gen:
    def __init__(self, rng, k, big=False):
        self.rng = rng
        self.k = k
        self.decls = []          # source lines
        self.env = []            # [expr text, "I"/"S", value]
        self.ints = []           # (name, value)
        self.strs = []           # (name, text)
        self.small = []          # (name, value) small ints for arithmetic inside {...}
        self.stmts = []
        self.avoided = {}
        self.setup(big)

    def pick_value(self, j):
        r = self.rng.random()
        if r < 0.7:
            return POOL[(self.k * 7 + j * 131 + self.rng.randint(0, 2)) % len(POOL)]
        if r < 0.85:
            return self.rng.randint(I64MIN, I64MAX)
        return self.rng.randint(-300, 300)

    def setup(self, big):
        rng = self.rng
        for j in range(8):
            v = self.pick_value(j)
            fits = [t for t, lo, hi in TYPES if lo <= v <= hi]
            t = rng.choice(fits)
            name = "v%d" % j
            self.decls.append("%s %s = %s;" % (t, name, lit(v)))
            self.ints.append((name, v))
            self.env.append([name, "I", v])
        for j in range(3):
            v = rng.randint(-999, 999)
            name = "k%d" % j
            self.decls.append("int %s = %s;" % (name, lit(v)))
            self.small.append((name, v))
            self.env.append([name, "I", v])
        for j in range(3):
            txt = rand_text(rng, 6)
            name = "s%d" % j
            self.decls.append('string %s = "%s";' % (name, txt))
            self.strs.append((name, txt))
            self.env.append([name, "S", txt])

    # ---- arguments
    def int_arg(self):
        rng = self.rng
        r = rng.random()
        if r < 0.6:
            n, v = rng.choice(self.ints)
            return {"k": "I", "v": v, "src": n}
        if r < 0.8:
            v = self.pick_value(rng.randint(0, 50))
            return {"k": "I", "v": v, "src": lit(v)}
        e, v = self.small_expr()
        return {"k": "I", "v": v, "src": e}

    def small_expr(self):
        rng = self.rng
        (a, va), (b, vb) = rng.choice(self.small), rng.choice(self.small)
        c = rng.randint(0, 99)
        return rng.choice([
            ("%s + %s" % (a, b), va + vb), ("%s - %s" % (a, b), va - vb), ("%s * %s" % (a, b), va * vb),
            ("(%s + %d) * %s" % (a, c, b), (va + c) * vb), ("%s+%d" % (a, c), va + c), ("-%s" % a, -va),
            ("%s * %d - %s" % (a, c, b), va * c - vb), (" %s " % a, va), ("%d" % c, c)])

    def str_arg(self):
        n, t = self.rng.choice(self.strs)
        return {"k": "S", "v": t, "src": n}

    def interp_literal(self, maxseg=5, want_spec=True):
        """an interpolated literal: (token text, demanded text or None, known-finding id or None)"""
        rng = self.rng
        parts, want, ok, n_expr = [], [], True, 0
        for _ in range(rng.randint(1, maxseg)):
            r = rng.random()
            if r < 0.30:
                t = rand_text(rng, 5, allow="%")
                parts.append(t); want.append(t)
            elif r < 0.38:
                parts.append("{{"); want.append("{")
            elif r < 0.46:
                parts.append("}}"); want.append("}")
            else:
                n_expr += 1
                rr = rng.random()
                if rr < 0.55:
                    e, v = rng.choice(self.ints)
                elif rr < 0.8:
                    e, v = self.small_expr()
                    if [e, "I", v] not in self.env:
                        self.env.append([e, "I", v])
                else:
                    e, v = rng.choice(self.strs)
                spec = None
                if not isinstance(v, str) and rng.random() < 0.75:
                    w = rng.randint(0, 22) if rng.random() > 0.02 else rng.choice([255, 256, 257, 300, 1024])
                    spec = rng.choice(["x", "X", "b", "d", "%d" % w, "%dd" % w, "0%d" % w, "0%dd" % w, "%dx" % w,
                                       "0%dx" % w, "0%dX" % w, "0%db" % w, "%db" % w, "%dX" % w, ""])
                dollar = "$" if rng.random() < 0.12 else ""
                parts.append(dollar + "{" + e + ("" if spec is None else ":" + spec) + "}")
                w_ = spec_interp_value(v, spec)
                if w_ is None:
                    ok = False
                want.append(w_ or "")
        if n_expr == 0 and not any(p in ("{{",) for p in parts):
            e, v = rng.choice(self.ints)
            parts.append("{" + e + "}"); want.append(str(v))
        return "".join(parts), ("".join(want) if ok else None)

    # ---- statements
    def stmt_plain(self):
        """println/print of 1..6 arguments without a format literal"""
        rng = self.rng
        n = rng.choice([1, 1, 2, 2, 3, 4, 5, 6])
        args, want, ok = [], [], True
        for _ in range(n):
            r = rng.random()
            if r < 0.45:
                a = self.int_arg(); args.append(a); want.append(str(a["v"]))
            elif r < 0.6:
                a = self.str_arg(); args.append(a); want.append(a["v"])
            elif r < 0.8:
                t = rand_text(rng, 8, allow="}" if rng.random() < 0.1 else "")
                if rng.random() < 0.3:      # escapes are processed in every plain literal (since fix 033c981)
                    t += rng.choice(["\\n", "\\t", "\\\\", "\\%", "\\r", "\\\\\\n"]) + rand_text(rng, 2)
                if n == 1 and rng.random() < 0.2:
                    t += rng.choice(["%", "100% x", "%d", "%%", "\\\\%d"])     # single literal: % is literal
                args.append({"k": "Q", "text": t})
                w_ = spec_escape(t)
                if w_ is None or "}" in t:
                    ok = False
                want.append(w_ or "")
            else:
                t, w_ = self.interp_literal()
                args.append({"k": "Q", "text": t})
                if w_ is None:
                    ok = False
                want.append(w_ or "")
        nl = 1 if rng.random() < 0.85 else 0
        # a string literal with a directive would turn the statement into a format statement
        if n > 1 and any(a["k"] == "Q" and not has_brace(a["text"]) and detects_format(a["text"]) for a in args):
            ok = False
        return {"nl": nl, "args": args, "want": (" ".join(want) + ("\n" if nl else "")) if ok else None, "kind": "plain"}

    def directive(self):
        """one printf directive with its argument: (text, arg or None, demanded text or None)"""
        rng = self.rng
        conv = rng.choice(["d", "d", "d", "lld", "lld", "i", "ld", "u", "x", "X", "o", "c", "s", "s", "%"])
        if conv == "%":
            return "%%", None, "%"
        flags = rng.choice(["", "", "", "0", "0", "-", "-0", "0-", "00", "--"])
        width = rng.choice([0, 0] + list(range(0, 23)))
        if rng.random() < 0.02:      # now and then a rendering beyond the 256-byte first buffer of the snprintf helper
            width = rng.choice([255, 256, 257, 300, 1024])
        wtxt = str(width) if (width or rng.random() < 0.2) else ""
        if wtxt == "0" and flags == "":
            wtxt = ""
        text = "%" + flags + wtxt + conv
        if conv == "c":
            if rng.random() < 0.5:
                v = rng.choice([rng.randint(33, 126), rng.randint(1, 255), rng.randint(-300, 70000)])
                while v % 256 == 0 or v % 256 == 92:
                    fid = "C16-percent-c-nul" if v % 256 == 0 else "C16-escapes-after-substitution"
                    self.avoided[fid] = self.avoided.get(fid, 0) + 1
                    v += 1
                arg = {"k": "I", "v": v, "src": lit(v)}
                body = chr(v % 256)
            else:
                arg = self.str_arg()
                while arg["v"] == "":
                    t = rand_text(rng, 4) or "q"
                    arg = {"k": "Q", "text": t, "v": t}
                body = arg["v"][0]
            return text, arg, c_str_directive(flags, width, body)
        if conv == "s":
            r = rng.random()
            if r < 0.4:
                arg = self.str_arg(); body = arg["v"]
            elif r < 0.7:
                t = rand_text(rng, 6)
                arg = {"k": "Q", "text": t}; body = t
            elif r < 0.85:
                t, w_ = self.interp_literal(3)
                arg = {"k": "Q", "text": t}; body = w_
            else:
                arg = self.int_arg(); body = str(arg["v"])
            return text, arg, (None if body is None else c_str_directive(flags, width, body))
        arg = self.int_arg()
        return text, arg, c_int_directive(conv, flags, width, arg["v"])

    def stmt_format(self):
        rng = self.rng
        pre, pre_want = [], []
        for _ in range(rng.choice([0, 0, 0, 1, 2])):
            if rng.random() < 0.6:
                a = self.int_arg(); pre.append(a); pre_want.append(str(a["v"]))
            else:
                t = (rand_text(rng, 5) or "w") + (rng.choice(["\\t", "\\\\", "\\%", "\\n"]) if rng.random() < 0.25 else "")
                pre.append({"k": "Q", "text": t}); pre_want.append(spec_escape(t))
        nd = rng.randint(1, max(1, 5 - len(pre)))
        fmt, fargs, want, ok = [], [], [], True
        for _ in range(nd):
            t = rand_text(rng, 4)
            if rng.random() < 0.15:
                # escapes, among them runs of escaped backslashes directly before the directive (since fix 475de81
                # an even run leaves the directive active)
                t += rng.choice(["\\n", "\\t", "\\%", "\\\\", "\\\\\\\\", "\\\\\\%", "\\%\\\\"])
            fmt.append(t); want.append(spec_escape(t) or "")
            if spec_escape(t) is None:
                ok = False
            d, a, w_ = self.directive()
            fmt.append(d)
            if a is not None:
                fargs.append(a)
            if w_ is None:
                ok = False
            want.append(w_ or "")
        tail = rand_text(rng, 3)
        fmt.append(tail); want.append(tail)
        ftxt = "".join(fmt)
        # arity games: too few / extra arguments (outside the documented reading)
        r = rng.random()
        if r < 0.06 and fargs:
            fargs = fargs[:-1]; ok = False
        elif r < 0.14:
            fargs.append(self.int_arg()); ok = False
        nl = 1 if rng.random() < 0.85 else 0
        args = pre + [{"k": "Q", "text": ftxt}] + fargs
        if len(args) == 1:
            ok = False      # a single literal is printed as it is (documented by tests/cases/printf/basic_format.cb)
        if not detects_format(ftxt) or any(a["k"] == "Q" and detects_format(a["text"]) for a in pre):
            ok = False      # %x/%u/%i/%o/flagged directives alone are not recognised as a format string
        w = None
        if ok:
            w = " ".join(pre_want + ["".join(want)]) + ("\n" if nl else "")
        return {"nl": nl, "args": args, "want": w, "kind": "format"}

    def stmt_interp(self):
        rng = self.rng
        t, w_ = self.interp_literal(6)
        nl = 1 if rng.random() < 0.9 else 0
        return {"nl": nl, "args": [{"k": "Q", "text": t}], "kind": "interp",
                "want": None if w_ is None else w_ + ("\n" if nl else "")}

    def stmt_quirk(self):
        """statements inside the domains of the known findings and other undocumented corners: no demanded
        output, only the model (which mirrors the code there, see the _refuted theorems) is compared"""
        rng = self.rng
        r = rng.randint(0, 9)
        n, v = rng.choice(self.ints)
        if r == 0:      # zero padding of any value, negative ones included (repaired by 4cd822e: has a demanded output)
            sp = rng.choice(["0%d", "0%dd"]) % rng.randint(0, 24)
            return {"nl": 1, "args": [{"k": "Q", "text": "<{%s:%s}>" % (n, sp)}], "kind": "quirk",
                    "want": "<" + spec_interp_value(v, sp) + ">\n"}
        elif r == 1:    # %c of any value, with flags
            cv = rng.choice([0, 256, -256, 65536, rng.randint(-1000, 1000)])
            args = [{"k": "Q", "text": "[%" + rng.choice(["", "-", "0"]) + rng.choice(["", "3", "7"]) + "c|%d]"},
                    {"k": "I", "v": cv, "src": lit(cv)}, {"k": "I", "v": 1, "src": "1"}]
        elif r == 2:    # escapes in a literal that is one of several arguments
            t = rand_text(rng, 3) + rng.choice(["\\n", "\\t", "\\\\", "\\%", "\\r", "\\q"]) + rand_text(rng, 3)
            args = [{"k": "Q", "text": t}, self.int_arg()]
            if rng.random() < 0.5:
                args.reverse()
        elif r == 3:    # escapes in an interpolated literal
            t = rand_text(rng, 3) + rng.choice(["\\n", "\\t", "\\\\", "\\%"]) + "{" + n + "}" + rand_text(rng, 2)
            args = [{"k": "Q", "text": t}]
        elif r == 4:    # escaped backslash / escaped percent next to a directive
            t = rand_text(rng, 2) + rng.choice(["\\\\%d", "\\%%d", "\\\\%%", "%\\%d", "\\%d%d", "\\\\\\%d"]) + "|" + rand_text(rng, 2)
            args = [{"k": "Q", "text": t}, self.int_arg()] + ([self.int_arg()] if rng.random() < 0.5 else [])
        elif r == 5:    # NUL escape, unknown escapes, trailing text after them
            t = rand_text(rng, 3) + rng.choice(["\\0", "\\q", "\\'", "\\a"]) + rand_text(rng, 3)
            args = [{"k": "Q", "text": t}] + ([{"k": "Q", "text": "%d"}, self.int_arg()] if rng.random() < 0.3 else [])
        elif r == 6:    # '$' in all positions
            t = rng.choice(["$", "a$b", "$$", "${{", "$${%s}" % n, "${%s}$" % n, "{%s}$x" % n, "$ {%s}" % n, "{{$}}", "$}}"])
            args = [{"k": "Q", "text": t}]
        elif r == 7:    # directives that are not recognised on their own / unknown conversions / missing and extra arguments
            t = rng.choice(["%x", "%u", "%i", "%o", "%X", "%-5d", "%+d", "%q %d", "%5", "%d %", "%d %5", "%l", "%ll", "%d%lld%ld",
                            "%5%|%d", "%hd %d", "%z%d", "100%_sure %d", "%", "%%", "%d%%", "%5s|%-5s|%05s"])
            args = [{"k": "Q", "text": t}] + [self.int_arg() for _ in range(rng.randint(0, 3))]
        elif r == 8:    # braces that do not interpolate, width/spec corners
            t = rng.choice(["}}", "a}}b", "}", "{{", "{{}}", "{%s:}" % n, "{%s:0}" % n, "{%s:00}" % n, "{%s:007}" % n, "{%s:5q}" % n,
                            "{%s:-5}" % n, "{%s:+5}" % n, "{%s: 5}" % n, "{%s:5 }" % n, "{%s:.3}" % n, "{%s:8.3f}" % n, "{%s:x5}" % n,
                            "{%s:5:x}" % n, "{%s:o}" % n, "{%s:5b}" % n, "{ %s }" % n, "{%s :3}" % n])
            for key in (" %s " % n, "%s " % n):
                if [key, "I", v] not in self.env:
                    self.env.append([key, "I", v])
            args = [{"k": "Q", "text": t}]
        else:           # string values through the integer converters and vice versa
            sn, sv = rng.choice(self.strs)
            t = rng.choice(["[%d|%s]", "[%5d|%-6s]", "[%x|%c]", "[%s|%s|%d]"])
            args = [{"k": "Q", "text": t}, {"k": "S", "v": sv, "src": sn}, rng.choice([self.int_arg(), {"k": "S", "v": sv, "src": sn}])]
            if t.count("%") == 3:
                args.append(self.int_arg())
        return {"nl": 1, "args": args, "want": None, "kind": "quirk"}

    def stmt_grid(self, idx):
        """systematic sweep: every (converter, flags, width 0..20) shape with a pool value"""
        rng = self.rng
        shapes = GRID
        shape = shapes[idx % len(shapes)]
        v = POOL[(idx // len(shapes) * 37 + idx * 11 + rng.randint(0, 5)) % len(POOL)]
        name = None
        for n_, v_ in self.ints:
            if rng.random() < 0.3:
                name, v = n_, v_
                break
        return self.stmt_grid_exact(shape, v, name)

    def stmt_grid_exact(self, shape, v, name=None):
        kind, a, b, w = shape
        src = name or lit(v)
        if kind == "printf":
            conv, flags = a, b
            text = "%" + flags + (str(w) if w else "") + conv
            ftxt = "[" + text + "|%d]"
            want = "[" + c_int_directive(conv, flags, w, v) + "|7]\n"
            return {"nl": 1, "args": [{"k": "Q", "text": ftxt}, {"k": "I", "v": v, "src": src}, {"k": "I", "v": 7, "src": "7"}],
                    "want": want, "kind": "grid-printf"}
        spec = a.replace("N", str(w))
        e = src
        if [e, "I", v] not in self.env:
            self.env.append([e, "I", v])
        w_ = spec_interp_value(v, spec)
        return {"nl": 1, "args": [{"k": "Q", "text": "<{" + e + ":" + spec + "}>"}],
                "want": None if w_ is None else "<" + w_ + ">\n", "kind": "grid-interp"}


GRID = [("printf", conv, flags, w) for conv in ["d", "lld", "i", "u", "x", "X", "o"]
        for flags in ["", "0", "-", "-0", "00"] for w in range(0, 21)] + \
       [("interp", sp, None, w) for sp in ["N", "Nd", "0N", "0Nd", "Nx", "0Nx", "NX", "0NX", "Nb", "0Nb"] for w in range(0, 21)]


def has_brace(t):
    return "{" in t


def detects_format(t):
    """independent re-statement of which literals Cb treats as a printf format (documented directives
    %d %s %c %lld %% after an optional all-digit width; an odd run of backslashes before the % hides it)"""
    i = 0
    while i < len(t):
        nb = 0
        while nb < i and t[i - 1 - nb] == "\\":
            nb += 1
        if t[i] == "%" and nb % 2 == 0:
            j = i + 1
            while j < len(t) and t[j] in "0123456789":
                j += 1
            if j < len(t) and (t[j] in "dscpf%" or t[j:j + 3] == "lld"):
                return True
        i += 1
    return False


FAILS = ["int zz_ = 0; int qq_ = 5 / zz_;", "int[3] arr_; arr_[5] = 1;", "assert(1 == 2);", "tiny tt_ = 300;",
         "int qq_ = undefined_fn_(3);", "int* pp_ = nullptr; int qq_ = *pp_;",
         'string ss_ = "abc"; println(ss_[10]);', "int zz_ = 0; int qq_ = 5 % zz_;"]


def gen_program(seed, k, tier, n_stmts):
    rng = rng_for(seed, "c16-prog", k)
    g = Gen(rng, k)
    stmts = []
    for j in range(n_stmts):
        r = rng.random()
        if r < 0.07:
            stmts.append(g.stmt_quirk())
        elif r < 0.32:
            stmts.append(g.stmt_grid(k * n_stmts + j))
        elif r < 0.52:
            stmts.append(g.stmt_plain())
        elif r < 0.78:
            stmts.append(g.stmt_format())
        else:
            stmts.append(g.stmt_interp())
    ending = "normal"
    r = rng.random()
    if r < 0.35:
        pos = rng.randint(0, len(stmts))
        stmts.insert(pos, {"fail": rng.choice(FAILS)})
        ending = "error"
    elif r < 0.42:
        pos = rng.randint(0, len(stmts))
        stmts.insert(pos, {"ret": 1})
        ending = "return"
    return {"k": k, "decls": g.decls, "env": g.env, "stmts": stmts, "ending": ending,
            "main": rng.choice(["void", "int"]), "avoided": g.avoided}


def grid_programs(per_prog):
    """the complete grid: every directive / spec shape x every boundary value, in order"""
    pairs = [(sh, v) for sh in GRID for v in POOL]
    out = []
    for k in range(0, len(pairs), per_prog):
        g = Gen(rng_for(0, "c16-grid", k), k)
        g.decls, g.env = [], []
        stmts = [g.stmt_grid_exact(sh, v) for sh, v in pairs[k:k + per_prog]]
        out.append({"k": k, "decls": [], "env": g.env, "stmts": stmts, "ending": "normal", "main": "void",
                    "avoided": g.avoided})
    return out, len(pairs)


# ------------------------------------------------------------------ size boundaries
# Thresholds in the code: render_formatted_string's snprintf helper has a 256-byte first buffer and a retry with
# written+1 bytes (output_manager.cpp:format_with_snprintf); stdout is a 4096-byte stdio buffer when piped
# (native_stdio_output.cpp: putchar/fputs, flushed in main.cpp); write_number has a 32-byte buffer (an int64 needs 21);
# format_interpolated_value uses a stringstream and an `int width` (no fixed buffer); write_formatted's 4096-byte
# buffer is not on any print path.  Everything is exercised at L-1, L, L+1 (and L+2 for 256).
BOUNDS_QUICK = [254, 255, 256, 257, 258, 511, 512, 513, 1023, 1024, 1025, 4095, 4096, 4097, 8191, 8192, 8193]
BOUNDS_THOROUGH = BOUNDS_QUICK + [16383, 16384, 16385, 65535, 65536, 65537]


def payload(kind, L):
    """exactly L bytes (latin-1 str): ASCII, or UTF-8 whose last multi-byte character ends at byte L"""
    if kind == "ascii":
        return "".join(chr(97 + i % 26) for i in range(L))
    ch = {"utf8-2": "é", "utf8-3": "日", "utf8-4": "𝄞"}[kind].encode("utf-8").decode("latin-1")
    n = L // len(ch)
    return "x" * (L - n * len(ch)) + ch * n


def boundary_programs(seed, tier):
    bounds = BOUNDS_QUICK if tier == "quick" else BOUNDS_THOROUGH
    rng = rng_for(seed, "c16-bounds", tier)
    stmts, decls, env = [], [], []
    svars = {}

    def strvar(kind, L):
        key = (kind, L)
        if key not in svars:
            name = "b%d" % len(svars)
            svars[key] = name
            decls.append('string %s = "%s";' % (name, payload(kind, L)))
            env.append([name, "S", payload(kind, L)])
        return {"k": "S", "v": payload(kind, L), "src": svars[key]}

    def val(neg):
        v = rng.choice([7, 255, 65536, 2 ** 31, 2 ** 40 + 3, I64MAX, rng.randint(1, I64MAX)])
        return -v if neg else v

    seven = {"k": "I", "v": 7, "src": "7"}
    for W in bounds:
        # A. integer directives whose rendering is W bytes
        for conv in ["d", "lld", "u", "x", "X", "o"]:
            for flags in ["", "0", "-"]:
                for neg in (False, True):
                    v = val(neg)
                    stmts.append({"nl": 1, "kind": "bound-printf",
                                  "args": [{"k": "Q", "text": "[%" + flags + str(W) + conv + "|%d]"}, {"k": "I", "v": v, "src": lit(v)}, seven],
                                  "want": "[" + c_int_directive(conv, flags, W, v) + "|7]\n"})
        # B. %s with a payload of W bytes (no width, width W+2 either side), literal and variable
        for i, kind in enumerate(["ascii", "utf8-2", "utf8-3", "utf8-4"]):
            for j, (flags, w) in enumerate([("", 0), ("-", W + 2), ("", W + 2), ("", 3)]):
                pl = payload(kind, W)
                a = {"k": "Q", "text": pl} if (i + j) % 2 else strvar(kind, W)
                stmts.append({"nl": 1, "kind": "bound-s",
                              "args": [{"k": "Q", "text": "<%" + flags + (str(w) if w else "") + "s|%d>"}, a, seven],
                              "want": "<" + c_str_directive(flags, w, pl) + "|7>\n"})
        # a short payload padded to W by the width
        for flags in ["", "-"]:
            stmts.append({"nl": 1, "kind": "bound-s",
                          "args": [{"k": "Q", "text": "<%" + flags + str(W) + "s|%" + flags + str(W) + "c|%d>"}, {"k": "Q", "text": "é".encode("utf-8").decode("latin-1") + "q"}, {"k": "I", "v": 65, "src": "65"}, seven],
                          "want": "<" + c_str_directive(flags, W, "é".encode("utf-8").decode("latin-1") + "q") + "|" + c_str_directive(flags, W, "A") + "|7>\n"})
        # C. interpolation widths
        for sp in ["%d", "0%d", "%dd", "0%dd", "%dx", "0%dX", "0%db"]:
            for neg in (False, True):
                v = val(neg)
                spec = sp % W
                e = lit(v)
                if [e, "I", v] not in env:
                    env.append([e, "I", v])
                stmts.append({"nl": 1, "kind": "bound-interp", "args": [{"k": "Q", "text": "<{" + e + ":" + spec + "}>"}],
                              "want": "<" + spec_interp_value(v, spec) + ">\n"})
        # D. plain print paths with W-byte strings
        kind = ["ascii", "utf8-2", "utf8-3", "utf8-4"][W % 4]
        pl = payload(kind, W)
        stmts.append({"nl": 1, "kind": "bound-plain", "args": [{"k": "Q", "text": pl}], "want": pl + "\n"})
        stmts.append({"nl": 0, "kind": "bound-plain", "args": [strvar(kind, W), {"k": "Q", "text": pl}, seven], "want": pl + " " + pl + " 7"})
        stmts.append({"nl": 1, "kind": "bound-plain", "args": [{"k": "Q", "text": pl[:W // 2] + "{7}" + pl[W // 2:]}],
                      "want": pl[:W // 2] + "7" + pl[W // 2:] + "\n"})
        if ["7", "I", 7] not in env:
            env.append(["7", "I", 7])
        # E. a W-byte format literal, extra arguments of W bytes, pre-arguments of W bytes
        stmts.append({"nl": 1, "kind": "bound-format", "args": [{"k": "Q", "text": pl + "%d"}, seven], "want": pl + "7\n"})
        stmts.append({"nl": 1, "kind": "bound-format", "args": [{"k": "Q", "text": "%d"}, seven, strvar(kind, W), seven], "want": None})
        stmts.append({"nl": 1, "kind": "bound-format", "args": [strvar(kind, W), {"k": "Q", "text": "%5d|%s"}, seven, {"k": "Q", "text": pl}],
                      "want": pl + "     7|" + pl + "\n"})
    progs = []
    per = 40
    for k in range(0, len(stmts), per):
        chunk = stmts[k:k + per]
        p = {"k": k, "decls": decls, "env": env, "stmts": list(chunk), "ending": "normal", "main": "void", "avoided": {}}
        if (k // per) % 3 == 2:      # every third program ends in an error after all the long lines
            p["stmts"].append({"fail": FAILS[(k // per) % len(FAILS)]})
            p["ending"] = "error"
        progs.append(p)
    return progs


# ------------------------------------------------------------------ nested rendering: programs with functions
# Rendering inside rendering (see coq/C16/Nested.v): generated programs define functions and struct methods whose
# bodies print (plain / printf-style / interpolated) and whose return values are interpolated strings, and call
# them from {..} segments, print/println arguments, printf arguments, %s arguments that are interpolated
# literals, initialisers and call statements, up to depth 3 and recursively on the same AST node.
# A function is a *template* (source text + how to evaluate its leaf expressions); every call site becomes a
# *call instance* for the model: parameter comps, the expressions of the body -> value / nested instance, the
# executed statements, the return expression (CCall of Nested.v).  The demanded output is computed by an
# independent evaluator over the same instances (oracle_*), from the generator's own record of the pieces
# ("parts" / "fparts") - it never splits a literal itself.
MAGIC = 4242          # hf(k) / sf_*(k) raise their error when k == MAGIC
CTX_ON = True         # code positions: function flavours, control-flow scopes, defer, expression spellings


class FDef:
    """a function template.  flavor: how the function is defined and called (the rendering code is the same, the way the
    body's AST comes into being and is reached differs):
      plain    RT f(..)                         generic   RT f<T>(T tg, ..) called f<int>(..) / f<string>(..) / f<long>(..) /
      async    async RT f(..), called await f(..)          f<T>(tg, ..) from another generic (explicit: the body is a clone
      default  trailing parameters with default values     made by clone_ast_node) or f(..) (inferred)
      module   export RT f(..) in an imported file         lambda    RT f = RT func(..) {..}; in main
    struct: None, "P" (impl Sh for P) or "B" (impl Gt<T> for Box<T>: instantiate_generic_impl per Box<int> / Box<string>)"""
    def __init__(self, name, rtype, params, level, struct=None, flavor="plain"):
        self.name, self.rtype, self.params, self.level, self.struct = name, rtype, params, level, struct
        self.body, self.ret = [], None
        self.special = None
        self.flavor = flavor
        self.defaults = {}       # parameter name -> default value expression (trailing parameters only)


def x_src(t):
    k = t[0]
    if k in ("leaf", "arith"):
        return t[1]
    if k == "ilit":
        return lit(t[1])
    if k == "flit":
        return t[1]
    if k == "call":
        site = t[3] if len(t) > 3 else {}
        args = t[2][:len(t[2]) - site.get("omit", 0)]
        return "%s%s%s(%s)" % (site.get("pre", ""), t[1].name, site.get("targs", ""), ", ".join(x_src(a) for a in args))
    if k == "mcall":
        return "%s.%s(%s)" % (t[1], t[2].name, ", ".join(x_src(a) for a in t[3]))
    if k in ("slit", "dlit"):
        return '"%s"' % t[1]
    raise ValueError(k)


def call_label(t):
    """how a call instance came about (for the measured coverage)"""
    f = t[1] if t[0] == "call" else t[2]
    if f.struct:
        return "method-" + ("generic-struct" if f.struct == "B" else "struct")
    site = t[3] if len(t) > 3 else {}
    if f.flavor == "generic":
        return "generic-" + ("explicit" if site.get("targs") else "inferred")
    if f.flavor == "default":
        return "default-%d-omitted" % site.get("omit", 0)
    return f.flavor


def x_kind(t):
    k = t[0]
    if k == "leaf":
        return t[3]
    if k in ("arith", "ilit"):
        return "I"
    if k == "flit":
        return "F"
    if k in ("slit", "dlit"):
        return "S"
    f = t[1] if k == "call" else t[2]
    return "S" if f.rtype == "string" else "I"


def x_value(t, ctx):
    """python value of an effect-free expression / of the return value of an int call (None: computed by the model)"""
    k = t[0]
    if k == "leaf":
        return ctx[t[2]]
    if k == "arith":
        return t[2](ctx)
    if k == "ilit":
        return t[1]
    if k == "flit":
        return float(t[1])
    if k == "slit":
        return t[1]
    if k == "dlit":
        return t[2]
    f, args = (t[1], t[2]) if k == "call" else (t[2], t[3])
    if f.rtype == "string" or f.rtype == "void":
        return None
    cctx = callee_ctx(f, args, ctx, t[1] if k == "mcall" else None)
    for st in f.body:
        if st[0] == "ret_if" and st[2](cctx):
            return x_value(st[3][1], cctx)
    return x_value(f.ret[1], cctx)


def callee_ctx(f, args, ctx, recv=None):
    cctx = {}
    for (ty, name), a in zip(f.params, args):
        cctx[name] = x_value(a, ctx)
    if f.struct:
        members = ctx["@" + recv]
        cctx["@self"] = members
        for mname, mv in members.items():
            cctx["self." + mname] = mv
    return cctx


def x_comp(t, ctx):
    """the model's comp for an expression evaluated in a context"""
    k = t[0]
    if k in ("leaf", "arith", "ilit", "slit", "flit", "dlit"):
        return {"v": x_value(t, ctx)}
    f, args = (t[1], t[2]) if k == "call" else (t[2], t[3])
    cctx = callee_ctx(f, args, ctx, t[1] if k == "mcall" else None)
    params = [[name, x_comp(a, ctx)] for (ty, name), a in zip(f.params, args)]
    c = realize(f.body, f.ret, cctx, params, set(n for _, n in f.params))
    c["fl"] = call_label(t)
    return c


def realize_arg(a, ctx, locs, bound):
    if a[0] == "Q":
        text, parts, fparts = a[1], a[2], a[3]
        out = {"k": "Q", "text": text}
        if len(a) > 4 and a[4] is not None:
            out["src"] = a[4]        # the source spells the value differently ("a{x}" + "b{y}", ("a{x}")): same value
        if parts is not None:
            cp = []
            for p in parts:
                if p[0] == "e":
                    src = x_src(p[1])
                    if src not in bound:
                        locs.setdefault(src, x_comp(p[1], ctx))
                    cp.append(["e", src, p[2]])
                else:
                    cp.append(list(p))
            out["parts"] = cp
        if fparts is not None:
            out["fparts"] = [list(p) for p in fparts]
        return out
    t = a[1]
    src = x_src(t)
    if t[0] == "slit":
        return {"k": "Q", "text": t[1]}
    if src in bound or t[0] in ("call", "mcall"):
        if src not in bound:
            locs.setdefault(src, x_comp(t, ctx))
        return {"k": "R", "src": src}
    v = x_value(t, ctx)
    return {"k": "I" if isinstance(v, int) else "S", "v": v, "src": src}


def ctx_instances(st, ctx):
    """the scopes a control-flow statement opens when it runs in ctx: [(body, {name: value bound inside})]"""
    how, info, bodies = st[1], st[2], st[3]
    if how == "block":
        return [(bodies[0], {})]
    if how == "if":
        b = bodies[0] if info["cond"][1](ctx) else bodies[1]
        return [] if b is None else [(b, {})]
    if how in ("for", "while"):
        return [(bodies[0], {info["var"]: v}) for v in range(info["a"], info["b"])]
    if how == "switch":
        v = x_value(info["expr"], ctx)
        for c, b in zip(info["cases"], bodies):
            if v == c:
                return [(b, {})]
        return [] if bodies[-1] is None else [(bodies[-1], {})]
    if how == "match":
        v = x_value(info["expr"], ctx)
        return [(bodies[0] if info["variant"] == "Ok" else bodies[1], {info["bind"]: v})]
    raise ValueError(how)


def realize(body, ret, ctx, params, bound, keep_after=False):
    """one call instance: the statements it executes, the expressions they look up, the return expression.
    A control-flow statement becomes {"ctx": how, "scopes": [{"alias": [[text, key]..], "body": [..]}..]}: one scope per
    iteration / taken branch; the expressions evaluated inside a scope are registered under a key of their own (the
    same text may mean something else in the next iteration) and the scope maps text -> key (COpen of Contexts.v)"""
    ctx = dict(ctx)
    bound = set(bound)
    locs = {}
    counter = [0]
    state = {"done": False, "ret": None}

    def run(body, ctx, bound, locs, top):
        stmts = []
        for st in body:
            k = st[0]
            if k == "print":
                stmts.append({"nl": st[1], "args": [realize_arg(a, ctx, locs, bound) for a in st[2]], "kind": st[3]})
                if st[3] == "n-bare":
                    stmts[-1]["bare"] = 1
            elif k == "defer":
                d = st[1]
                stmts.append({"defer": {"nl": d[1], "args": [realize_arg(a, ctx, locs, bound) for a in d[2]], "kind": d[3]},
                              "kind": "n-defer"})
            elif k == "ctx":
                scopes = []
                for body2, binds in ctx_instances(st, ctx):
                    ctx2 = dict(ctx)
                    ctx2.update(binds)
                    locs2 = {}
                    stmts2 = run(body2, ctx2, set(bound) - set(binds), locs2, False)
                    alias = []
                    for src, comp in locs2.items():
                        key = "%s\x01%d" % (src, counter[0])
                        counter[0] += 1
                        locs[key] = comp
                        alias.append([src, key])
                    scopes.append({"alias": alias, "body": stmts2})
                stmts.append({"ctx": st[1], "src": tstmt_src(st, ""), "scopes": scopes, "kind": "n-ctx-" + st[1]})
            elif k == "fail_if":
                if st[2] is None or st[2](ctx):
                    stmts.append({"fail": st[3], "hard": st[4]})
                    if not keep_after:
                        state["done"] = True
                        break
            elif k == "eval":
                src = x_src(st[1])
                locs.setdefault(src, x_comp(st[1], ctx))
                stmts.append({"eval": src, "kind": "n-call-stmt"})
            elif k == "let":
                arg = realize_arg(st[3], ctx, locs, bound)
                stmts.append({"let": st[2], "type": st[1], "arg": arg, "kind": "n-init"})
                if len(st) > 4 and st[4]:
                    stmts[-1]["full_src"] = tstmt_src(st, "")
                    stmts[-1]["kind"] = "n-init-" + st[4]
                ctx[st[2]] = x_value(st[3][1], ctx) if st[3][0] == "E" else None
                bound.add(st[2])
            elif k == "ret_if":
                if st[2](ctx):
                    state["ret"] = realize_arg(st[3], ctx, locs, bound)
                    state["done"] = True
                    break
        return stmts

    stmts = run(body, ctx, bound, locs, True)
    r = state["ret"]
    if not state["done"] and ret is not None:
        r = realize_arg(ret, ctx, locs, bound)
    return {"params": params, "locals": [[k, v] for k, v in locs.items()], "body": stmts, "ret": r}


# ---- source text of templates
def targ_src(a):
    if a[0] == "Q":
        return a[4] if len(a) > 4 and a[4] is not None else '"%s"' % a[1]
    return x_src(a[1])


def body_src(body, ind):
    return [tstmt_src(st, ind) for st in body]


def tstmt_src(st, ind="    "):
    k = st[0]
    if k == "print" and st[3] == "n-bare":
        return ind + "print %s;" % targ_src(st[2][0])
    if k == "print":
        return ind + "%s(%s);" % ("println" if st[1] else "print", ", ".join(targ_src(a) for a in st[2]))
    if k == "defer":
        return ind + "defer " + tstmt_src(st[1], "")
    if k == "ctx":
        how, info, bodies = st[1], st[2], st[3]
        i2 = ind + "    "
        if how == "block":
            lines = [ind + "{"] + body_src(bodies[0], i2) + [ind + "}"]
        elif how == "if":
            lines = [ind + "if (%s) {" % info["cond"][0]] + body_src(bodies[0], i2)
            if bodies[1] is not None:
                lines += [ind + "} else {"] + body_src(bodies[1], i2)
            lines.append(ind + "}")
        elif how == "for":
            v = info["var"]
            lines = [ind + "for (int %s = %s; %s < %d; %s++) {" % (v, lit(info["a"]), v, info["b"], v)] + body_src(bodies[0], i2) + [ind + "}"]
        elif how == "while":
            v = info["var"]
            lines = [ind + "int %s = %s;" % (v, lit(info["a"])), ind + "while (%s < %d) {" % (v, info["b"])] + body_src(bodies[0], i2)
            lines += [i2 + "%s = %s + 1;" % (v, v), ind + "}"]
        elif how == "switch":
            lines = [ind + "switch (%s) {" % x_src(info["expr"])]
            for c, b in zip(info["cases"], bodies):
                lines += [i2 + "case (%s) {" % lit(c)] + body_src(b, i2 + "    ") + [i2 + "}"]
            if bodies[-1] is not None:
                lines += [i2 + "else {"] + body_src(bodies[-1], i2 + "    ") + [i2 + "}"]
            lines.append(ind + "}")
        elif how == "match":
            lines = [ind + "Mt %s = Mt::%s(%s);" % (info["enumvar"], info["variant"], x_src(info["expr"])),
                     ind + "match (%s) {" % info["enumvar"]]
            for variant, b in zip(("Ok", "Bad"), bodies):
                lines += [i2 + "%s(%s) => {" % (variant, info["bind"])] + body_src(b, i2 + "    ") + [i2 + "}"]
            lines.append(ind + "}")
        else:
            raise ValueError(how)
        return "\n".join(lines)
    if k == "fail_if":
        return ind + (st[3] if st[1] is None else "if (%s) { %s }" % (st[1], st[3]))
    if k == "eval":
        return ind + x_src(st[1]) + ";"
    if k == "let":
        how = st[4] if len(st) > 4 else None
        v = targ_src(st[3])
        if how == "assign":      # declared first, assigned afterwards
            return ind + '%s %s = "";\n%s%s = %s;' % (st[1], st[2], ind, st[2], v)
        if how == "const":
            return ind + "const %s %s = %s;" % (st[1], st[2], v)
        if how == "pluseq":      # st[5]: the two halves of the value
            return ind + "%s %s = %s;\n%s%s += %s;" % (st[1], st[2], st[5][0], ind, st[2], st[5][1])
        if how == "member":
            return ind + "%s = %s;" % (st[2], v)
        if how == "global":      # declared and initialised at file level
            return ind + "// %s is a global" % st[2]
        return ind + "%s %s = %s;" % (st[1], st[2], v)
    if k == "ret_if":
        return ind + "if (%s) { return %s; }" % (st[1], targ_src(st[3]))
    raise ValueError(k)


def param_src(f):
    out = []
    for ty, name in f.params:
        if name in f.defaults:
            out.append("%s %s = %s" % (ty, name, x_src(f.defaults[name])))
        else:
            out.append("%s %s" % (ty, name))
    return ", ".join(out)


def fdef_src(f, ind=""):
    if f.flavor == "lambda":
        head = "%s %s = %s func(%s) {" % (f.rtype, f.name, f.rtype, param_src(f))
    else:
        head = "%s%s %s%s(%s) {" % ({"async": "async ", "module": "export "}.get(f.flavor, ""), f.rtype, f.name,
                                    "<T>" if f.flavor == "generic" else "", param_src(f))
    lines = [ind + head]
    lines += [tstmt_src(st, ind + "    ") for st in f.body]
    if f.ret is not None:
        lines.append(ind + "    return %s;" % targ_src(f.ret))
    lines.append(ind + ("};" if f.flavor == "lambda" else "}"))
    return lines


# ---- the demanded output (independent of the model)
class Undetermined(Exception):
    """some piece has no documented reading"""


FAILV = ("fail",)


class Oracle:
    def __init__(self):
        self.memo = {}

    def comp(self, c):
        """(what the evaluation writes, value or FAILV)"""
        if "v" in c:
            return "", c["v"]
        key = id(c)
        if key not in self.memo:
            self.memo[key] = self.call(c)
        return self.memo[key]

    def call(self, c):
        env, out = {}, []
        for name, ac in c["params"]:
            s, v = self.comp(ac)
            out.append(s)
            if v is FAILV:
                return "".join(out), FAILV
            env[name] = ("val", v)
        for text, lc in c["locals"]:
            env.setdefault(text, ("comp", lc))
        s, failed = self.scope_body(c["body"], env)
        out.append(s)
        if failed:
            return "".join(out), FAILV
        if c["ret"] is None:
            return "".join(out), 0
        s, v = self.value(c["ret"], env)
        out.append(s)
        return "".join(out), v

    def lookup(self, env, text):
        kind, x = env[text]
        return ("", x) if kind == "val" else self.comp(x)

    def interp(self, a, env):
        out, val = [], []
        for p in a["parts"]:
            if p[0] == "t":
                val.append(p[1])
            elif p[0] == "lb":
                val.append("{")
            elif p[0] == "rb":
                val.append("}")
            elif p[0] == "dollar":
                pass
            else:
                s, v = self.lookup(env, p[1])
                out.append(s)
                if v is FAILV:
                    return "".join(out), FAILV
                r = spec_interp_value(v, p[2])
                if r is None:
                    raise Undetermined()
                val.append(r)
        return "".join(out), "".join(val)

    def value(self, a, env):
        """an argument as an expression: (output, value)"""
        k = a["k"]
        if k == "Q":
            if "parts" in a:
                return self.interp(a, env)
            if "\\" in a["text"] or "{" in a["text"] or "}" in a["text"]:
                raise Undetermined()
            return "", a["text"]
        if k in ("I", "S"):
            return "", a["v"]
        return self.lookup(env, a["src"])

    def printed(self, a, env):
        """an argument printed by print/println: (everything written, failed)"""
        if a["k"] == "Q" and "parts" not in a:
            t = spec_escape(a["text"])
            if t is None or "{" in a["text"] or "}" in a["text"]:
                raise Undetermined()
            return t, False
        s, v = self.value(a, env)
        if v is FAILV:
            return s, True
        return s + (str(v) if isinstance(v, int) else v), False

    def print_stmt(self, st, env):
        args = st["args"]
        nl = "\n" if st["nl"] else ""
        if len(args) == 0:
            return nl, False
        if len(args) == 1:
            s, failed = self.printed(args[0], env)
            return (s, True) if failed else (s + nl, False)
        fi = next((i for i, a in enumerate(args) if a["k"] == "Q" and "fparts" in a), None)
        for i, a in enumerate(args):
            if a["k"] == "Q" and "parts" not in a and detects_format(a["text"]) and (fi is None or i < fi):
                raise Undetermined()
        out = []
        pre = args if fi is None else args[:fi]
        for j, a in enumerate(pre):
            if j > 0:
                out.append(" ")
            s, failed = self.printed(a, env)
            out.append(s)
            if failed:
                return "".join(out), True
        if fi is None:
            return "".join(out) + nl, False
        if fi > 0:
            out.append(" ")
        fmt = args[fi]
        if not detects_format(fmt["text"]):
            raise Undetermined()
        vals = []
        for a in args[fi + 1:]:
            s, v = self.value(a, env)
            out.append(s)
            if v is FAILV:
                return "".join(out), True
            vals.append(v)
        nd = sum(1 for p in fmt["fparts"] if p[0] == "d")
        if nd != len(vals):
            raise Undetermined()
        it = iter(vals)
        for p in fmt["fparts"]:
            if p[0] == "t":
                t = spec_escape(p[1])
                if t is None:
                    raise Undetermined()
                out.append(t)
            elif p[0] == "pp":
                out.append("%")
            else:
                _, conv, flags, width = p
                v = next(it)
                if conv == "s":
                    body = str(v) if isinstance(v, int) else v
                    if "\\" in body:
                        raise Undetermined()
                    out.append(c_str_directive(flags, width, body))
                elif conv == "c":
                    body = chr(v % 256) if isinstance(v, int) else v[:1]
                    if body in ("", "\0", "\\"):
                        raise Undetermined()
                    out.append(c_str_directive(flags, width, body))
                else:
                    if not isinstance(v, int):
                        raise Undetermined()
                    out.append(c_int_directive(conv, flags, width, v))
        return "".join(out) + nl, False

    def scope_body(self, body, env):
        """the statements of one scope in order, then its deferred statements, last registered first"""
        out, defers = [], []
        for st in body:
            if "defer" in st:
                defers.append(st["defer"])
                continue
            s, failed = self.stmt(st, env)
            out.append(s)
            if failed:
                return "".join(out), True
        for d in reversed(defers):
            s, failed = self.print_stmt(d, env)
            out.append(s)
            if failed:
                return "".join(out), True
        return "".join(out), False

    def stmt(self, st, env):
        """(what the statement writes, whether it ends the run with an error); extends env for a declaration"""
        if "fail" in st:
            return "", True
        if "ctx" in st:
            out = []
            for sc in st["scopes"]:
                env2 = dict(env)
                for text, key in sc["alias"]:
                    env2[text] = env[key]
                s, failed = self.scope_body(sc["body"], env2)
                out.append(s)
                if failed:
                    return "".join(out), True
            return "".join(out), False
        if "eval" in st:
            s, v = self.lookup(env, st["eval"])
            return s, v is FAILV
        if "let" in st:
            s, v = self.value(st["arg"], env)
            if v is FAILV:
                return s, True
            env[st["let"]] = ("val", v)
            return s, False
        return self.print_stmt(st, env)


def apply_oracle(p):
    """fill in want / wfail of main's statements from the independent evaluator"""
    o = Oracle()
    env = {}
    for e in p["env"]:
        env.setdefault(e[0], ("comp", e[2]) if e[1] == "C" else ("val", e[2]))
    dead = False
    for st in p["stmts"]:
        if "fail" in st or "ret" in st:
            break
        if dead:
            st["want"] = None
            continue
        try:
            s, failed = o.stmt(st, env)
            st["want"] = s
            if failed:
                st["wfail"] = True
                break
        except Undetermined:
            st["want"] = None
            p["rc_unknown"] = 1      # whether this statement ends the run is not known to the oracle
            if "let" in st:
                dead = True          # the variable's value is unknown: no oracle from here on
    return p


# ---- generation of templates
FLOAT_LITS = ["0.5", "1.5", "2.5", "3.5", "0.125", "0.375", "0.625", "2.125", "1000000.5", "0.25", "0.75", "4503599627370496.5",      # ties
              "2.675", "1.005", "1.115", "0.285", "8.345", "1.45", "2.345", "1.255", "0.045", "0.15", "0.35",                              # just off a tie
              "9.995", "0.999999", "99.9999999", "9.5", "0.95", "0.9999995", "999999.9999995", "0.99", "99.5", "0.05",                     # carries
              "1e15", "123456789012345.678", "9007199254740993.0", "1e21", "1.7976931348623157e308", "18446744073709551616.0", "1e100",     # large
              "1e-7", "0.000001234", "2.2250738585072014e-308", "0.00000000000000000001", "1e-300", "0.0000005",                         # small
              "3.14159265358979", "2.718281828459045", "0.1", "0.2", "0.3", "100.0", "0.0", "123.456", "1.0", "10.0", "7.0e2", "2.5E-3"]


SPECS = ["x", "X", "b", "d", "%d", "%dd", "0%d", "0%dd", "%dx", "0%dx", "0%dX", "0%db", ""]


class NestGen:
    def __init__(self, rng, k):
        self.rng, self.k = rng, k
        self.funcs = []          # FDef, callees before callers
        self.top = None          # source of the functions
        self.avoided = {}
        self.alias_base = rng.randint(-1000, 1000)
        self.nctx = 0
        self.last_halves = None

    # -- pieces
    def text(self, n=5, allow=""):
        return rand_text(self.rng, n, allow)

    def spec(self):
        rng = self.rng
        if rng.random() < 0.35:
            return None
        w = rng.randint(0, 22)
        s = rng.choice(SPECS)
        return s % w if "%d" in s else s

    def fspec(self):
        """[0][W].N[f] or nothing (= 6 decimals)"""
        rng = self.rng
        if rng.random() < 0.15:
            return None
        p = rng.choice([0, 0, 1, 1, 2, 2, 2, 3, 3, 4, 5, 6, 7, 8, 9, 10, 11, 12, 15, 16, 17, 20, 25, 30, 40])
        w = rng.choice([0, 0, 0] + list(range(0, 23)))
        zero = "0" if (w and rng.random() < 0.1) else ""
        return "%s%s.%d%s" % (zero, str(w) if w else "", p, rng.choice(["f", "f", "f", ""]))

    def flit(self):
        rng = self.rng
        r = rng.random()
        if r < 0.7:
            t = rng.choice(FLOAT_LITS)
        elif r < 0.85:
            t = "%.*f" % (rng.randint(1, 9), rng.uniform(0, 10 ** rng.randint(0, 6)))
        else:
            t = repr(rng.uniform(0, 1) * 10 ** rng.randint(-8, 18))
            if "e" in t and "." not in t.split("e")[0]:
                t = t.replace("e", ".0e")
        return ("-" if rng.random() < 0.3 else "") + t

    def pick_call(self, sc, kind, depth, in_lit=False):
        """a call expression of the wanted kind ('S' / 'I' / 'V' void) to a callable of the scope, or None.
        in_lit: the call stands inside the braces of an interpolated literal, where no quoted literal can appear"""
        rng = self.rng
        leaf_strs = [x for x in sc["strs"] if x[0] == "leaf" and len(x) < 5 and "." not in x[1]]
        cands = [f for f in sc["funcs"] if (("S" if f.rtype == "string" else "V" if f.rtype == "void" else "I") == kind)
                 and (f.struct is None or any(o[1] == f.struct for o in sc["objs"])) and f.special is None
                 and not (in_lit and not leaf_strs and any(ty == "string" and name not in f.defaults for ty, name in f.params))]
        if not cands or depth <= 0:
            return None
        f = rng.choice(cands)
        return self.call_of(f, sc, depth, in_lit=in_lit)

    def call_of(self, f, sc, depth, force_k=None, in_lit=False):
        rng = self.rng
        args = []
        site = {}
        leaf_strs = [x for x in sc["strs"] if x[0] == "leaf" and len(x) < 5 and "." not in x[1]]      # let-bound strings are not passed on
        ndef = len(f.defaults)
        omit = rng.randint(0, ndef) if ndef else 0
        if in_lit and "dt" in f.defaults:
            omit = ndef              # no quoted literal inside the braces: the string default (first default) stays unwritten
        for i, (ty, name) in enumerate(f.params):
            if omit and i >= len(f.params) - omit:
                args.append(f.defaults[name])          # not written at the call site: the callee evaluates the default
                continue
            if ty == "T":
                # the type argument: explicit (the call runs a clone of the body made for that type) or inferred
                opts = ["int", "int", "long", "inf-int"]
                if leaf_strs or not in_lit:
                    opts += ["string", "string"]
                if leaf_strs:        # T is inferred from a string variable, not from a string literal (rejected: type inference)
                    opts += ["inf-string"]
                if sc.get("anys"):
                    opts += ["T", "T", "inf-T"]
                o = rng.choice(opts)
                if o in ("int", "inf-int"):
                    args.append(("ilit", rng.randint(0, 999)))
                    site["targs"] = "<int>" if o == "int" else ""
                elif o == "long":
                    args.append(("ilit", POOL[rng.randint(0, len(POOL) - 1)]))
                    site["targs"] = "<long>"
                elif o == "inf-string":
                    args.append(rng.choice(leaf_strs))
                    site["targs"] = ""
                elif o == "string":
                    args.append(rng.choice(leaf_strs + ([] if in_lit else [("slit", self.text(4) or "w")])))
                    site["targs"] = "<string>"
                else:
                    args.append(rng.choice(sc["anys"]))
                    site["targs"] = "<T>" if o == "T" else ""
            elif ty == "long":
                c = self.pick_call(sc, "I", depth - 1, in_lit) if rng.random() < 0.12 else None
                if c is not None and c[0] == "call" and c[1].flavor == "lambda":
                    c = None         # a lambda is not found when it is called inside another call's argument list (not C16's business)
                if c is not None and f.flavor == "generic" and "tg" in x_src(c):
                    c = None         # evaluated after the callee's tg is bound (known finding of C08: later argument, earlier parameter)
                if c is None and rng.random() < 0.2:
                    # the same function is called again with a value that differs only above bit 32 / bit 31 (anything that
                    # remembers or passes a truncated value between evaluations of the same literal shows up)
                    c = ("ilit", self.alias_base + rng.choice([0, 2 ** 32, -2 ** 32, 2 ** 33, 2 ** 31, 2 ** 48, -2 ** 62]))
                args.append(c or rng.choice(sc["ints"] + sc["smalls"]))
            elif ty == "int" and name == "d":
                args.append(("ilit", rng.randint(0, 3)))       # recursion depth of r(d, n)
            elif name == "dw":       # written default parameters get literals (an expression over the caller's k / t would be
                args.append(("ilit", rng.randint(-999, 999)))      # evaluated against the callee's k / t: known finding of C08)
            elif name == "dt":
                args.append(("slit", self.text(4) or "w"))
            elif ty == "double":
                args.append(rng.choice(sc.get("flts", []) + [("flit", self.flit())]))
            elif ty == "int":
                if force_k is not None:
                    args.append(("ilit", force_k))
                else:
                    args.append(rng.choice(sc["smalls"]))
            else:
                args.append(rng.choice(leaf_strs + ([] if in_lit else [("slit", self.text(4) or "w")])))
        if omit:
            site["omit"] = omit
        if f.flavor == "async":
            site["pre"] = "await "
        if f.struct:
            recv = rng.choice([o[0] for o in sc["objs"] if o[1] == f.struct])
            return ("mcall", recv, f, args, site)
        return ("call", f, args, site)

    def expr_part(self, sc, depth, p_call):
        """one {..} segment: (exprT, spec)"""
        rng = self.rng
        if rng.random() < p_call:
            kind = rng.choice(["S", "S", "I"])
            c = self.pick_call(sc, kind, depth, in_lit=True)
            if c is not None:
                return c, (self.spec() if kind == "I" else None)
        r = rng.random()
        if sc.get("flts") and rng.random() < 0.18:
            return rng.choice(sc["flts"]), self.fspec()
        if sc.get("anys") and rng.random() < 0.2:
            return rng.choice(sc["anys"]), None          # a value of the type parameter's type
        if r < 0.45:
            return rng.choice(sc["ints"]), self.spec()
        strs = [x for x in sc["strs"] if x[0] == "leaf"]      # a quoted literal cannot stand inside the braces
        if r < 0.8 or not strs:
            return rng.choice(sc["smalls"]), self.spec()
        return rng.choice(strs), None

    def interp(self, sc, depth, p_call=0.5, maxseg=5, force_call=None):
        """an interpolated literal: ("Q", text, parts, None)"""
        rng = self.rng
        parts = []
        n = rng.randint(1, maxseg)
        pos = rng.randint(0, n - 1)
        for i in range(n):
            r = rng.random()
            if i == pos and force_call is not None:
                parts.append(("e", force_call, (self.spec() if x_kind(force_call) == "I" else None)))
            elif r < 0.30:
                parts.append(("t", self.text(5, allow="%")))
            elif r < 0.36:
                parts.append(("lb",))
            elif r < 0.42:
                parts.append(("rb",))
            else:
                e, sp = self.expr_part(sc, depth, p_call)
                if rng.random() < 0.1:
                    parts.append(("dollar",))
                parts.append(("e", e, sp))
        if rng.random() < 0.7:      # text directly before and after (the seeded change lost exactly that)
            parts = [("t", self.text(4) or "é".encode("utf-8").decode("latin-1"))] + parts + [("t", self.text(4) or "|")]
        if not any(p[0] in ("e", "lb") for p in parts):
            parts.append(("e", rng.choice(sc["smalls"]), None))
        # a lone '{' must be followed by something that is not '{': "{{" + "{x}" is fine, but a text ending in '$' before
        # "{{" would change the reading; keep '$' only in front of an expression
        text = []
        for p in parts:
            if p[0] == "t":
                text.append(p[1])
            elif p[0] == "lb":
                text.append("{{")
            elif p[0] == "rb":
                text.append("}}")
            elif p[0] == "dollar":
                text.append("$")
            else:
                text.append("{" + x_src(p[1]) + ("" if p[2] is None else ":" + p[2]) + "}")
        # the same value spelled as an expression around the literal(s): ("..") and ".." + ".." (each half must still be
        # an interpolated literal of its own, or free of "}}", which only an interpolated literal reads as "}")
        src = None
        r = rng.random()
        if CTX_ON and r < 0.06:
            src = '("%s")' % "".join(text)
        elif CTX_ON and r < 0.2 and len(parts) >= 2:
            cut = rng.randint(1, len(parts) - 1)
            if not (cut < len(parts) and parts[cut - 1][0] == "dollar"):
                halves = [(parts[:cut], text[:cut]), (parts[cut:], text[cut:])]
                if all(any(q[0] in ("e", "lb") for q in ps) or not any(q[0] == "rb" for q in ps) for ps, _ in halves):
                    src = '"%s" + "%s"' % ("".join(halves[0][1]), "".join(halves[1][1]))
                    self.last_halves = ['"%s"' % "".join(halves[0][1]), '"%s"' % "".join(halves[1][1])]
        return ("Q", "".join(text), parts, None, src)

    def plain_lit(self, escapes=True):
        rng = self.rng
        t = self.text(6)
        if escapes and rng.random() < 0.3:
            t += rng.choice(["\\n", "\\t", "\\\\", "\\%", "\\r"]) + self.text(2)
        return ("Q", t, None, None)

    def print_arg(self, sc, depth, p_call):
        """an argument of a plain print/println"""
        rng = self.rng
        r = rng.random()
        if r < p_call:
            c = self.pick_call(sc, rng.choice(["S", "I"]), depth)
            if c is not None:
                return ("E", c)
        r = rng.random()
        if sc.get("anys") and r < 0.1:
            return ("E", rng.choice(sc["anys"]))
        if r < 0.3:
            return ("E", rng.choice(sc["ints"] + sc["smalls"]))
        if r < 0.45:
            return ("E", rng.choice(sc["strs"]))
        if r < 0.65:
            return self.plain_lit()
        return self.interp(sc, depth, p_call, 3)

    def st_plain(self, sc, depth, p_call=0.45):
        rng = self.rng
        n = rng.choice([1, 2, 2, 3, 4, 5])
        return ("print", 1 if rng.random() < 0.85 else 0, [self.print_arg(sc, depth, p_call) for _ in range(n)], "n-plain")

    def st_interp(self, sc, depth, p_call=0.6):
        rng = self.rng
        return ("print", 1 if rng.random() < 0.9 else 0, [self.interp(sc, depth, p_call, 5)], "n-interp")

    def st_format(self, sc, depth, p_call=0.45):
        rng = self.rng
        pre = []
        for _ in range(rng.choice([0, 0, 1, 2])):
            r = rng.random()
            if r < 0.4:
                pre.append(("E", rng.choice(sc["ints"] + sc["smalls"])))
            elif r < 0.6:
                pre.append(("Q", (self.text(4) or "w"), None, None))
            elif r < 0.8:
                c = self.pick_call(sc, rng.choice(["S", "I"]), depth)
                pre.append(("E", c) if c is not None else ("E", rng.choice(sc["smalls"])))
            else:
                pre.append(self.interp(sc, depth, p_call, 3))
        fparts, args = [], []
        first = True
        for _ in range(rng.randint(1, 4)):
            fparts.append(("t", self.text(4)))
            conv = rng.choice(["d", "d", "lld", "s", "s", "s", "i", "u", "x", "X", "o", "pp"])
            if conv == "pp":
                fparts.append(("pp",))
                first = False
                continue
            if first:       # the first directive decides whether the literal is recognised as a format at all
                conv = rng.choice(["d", "lld", "s", "s"])
                flags = ""
            else:
                flags = rng.choice(["", "", "0", "-", "-0"])
            first = False
            width = rng.choice([0, 0] + list(range(0, 23)))
            fparts.append(("d", conv, flags, width))
            if conv == "s":
                r = rng.random()
                if r < 0.3:
                    c = self.pick_call(sc, "S", depth)
                    args.append(("E", c) if c is not None else ("E", rng.choice(sc["strs"])))
                elif r < 0.6:       # an interpolated literal as %s argument, itself calling functions
                    args.append(self.interp(sc, depth, p_call, 3))
                elif r < 0.75:
                    args.append(("E", rng.choice(sc["strs"])))
                elif r < 0.9:
                    args.append(("Q", self.text(5), None, None))
                else:
                    args.append(("E", rng.choice(sc["smalls"])))
            else:
                c = self.pick_call(sc, "I", depth) if rng.random() < p_call else None
                args.append(("E", c) if c is not None else ("E", rng.choice(sc["ints"] + sc["smalls"])))
        fparts.append(("t", self.text(3)))
        text = []
        for p in fparts:
            if p[0] == "t":
                text.append(p[1])
            elif p[0] == "pp":
                text.append("%%")
            else:
                text.append("%" + p[2] + (str(p[3]) if p[3] else "") + p[1])
        fmt = ("Q", "".join(text), None, fparts)
        return ("print", 1 if rng.random() < 0.85 else 0, pre + [fmt] + args, "n-format")

    def st_ctx(self, sc, depth, p_call, nest=2, allow_fn_defer=False):
        """a control-flow statement whose bodies print: block, if/else, for, while, switch, match (with a bound value),
        defer inside them.  The renderings inside are the same statements as anywhere else"""
        rng = self.rng
        self.nctx += 1
        uid = self.nctx
        how = rng.choice(["block", "if", "if", "for", "for", "while", "switch", "match", "match"])
        if how == "match" and sc.get("no_enum"):
            how = "switch"           # the enum is declared in the main file, not in the imported one

        def body(sc2, may_defer=True):
            out = []
            for _ in range(rng.choice([1, 1, 2, 3])):
                r = rng.random()
                if r < 0.22 and may_defer and not sc.get("no_defer") and not sc.get("no_self_defer"):
                    out.append(("defer", self.st_printing(sc2, depth, p_call)))
                elif r < 0.36 and nest > 1:
                    out.append(self.st_ctx(sc2, depth, p_call, nest - 1))
                else:
                    out.append(self.st_any(sc2, depth, p_call, ctx_ok=False))
            return out

        def with_small(name):
            sc2 = dict(sc)
            sc2["smalls"] = sc["smalls"] + [("leaf", name, name, "I")] * 3
            return sc2

        if how == "block":
            return ("ctx", "block", {}, [body(sc)])
        if how == "if":
            e = rng.choice(sc["smalls"])
            c = rng.randint(-50, 50)
            op = rng.choice(["<", ">", "<=", "=="])
            fn = {"<": (lambda a, b: a < b), ">": (lambda a, b: a > b), "<=": (lambda a, b: a <= b), "==": (lambda a, b: a == b)}[op]
            cond = ("%s %s %s" % (x_src(e), op, lit(c)), (lambda ctx, e=e, c=c, fn=fn: fn(x_value(e, ctx), c)))
            return ("ctx", "if", {"cond": cond}, [body(sc), body(sc) if rng.random() < 0.7 else None])
        if how in ("for", "while"):
            v = "%s%d_" % ("i" if how == "for" else "w", uid)
            a = rng.randint(-2, 3)
            n = rng.choice([0, 1, 2, 2, 3])
            # while: the counter is advanced at the end of the body, a deferred statement would see the new value
            return ("ctx", how, {"var": v, "a": a, "b": a + n}, [body(with_small(v), may_defer=(how == "for"))])
        if how == "switch":
            e = rng.choice(sc["smalls"])
            cases = rng.sample(range(-9, 10), 2)
            if e[0] == "ilit":
                cases[rng.randint(0, 1)] = e[1]
            return ("ctx", "switch", {"expr": e, "cases": cases}, [body(sc), body(sc), body(sc) if rng.random() < 0.7 else None])
        e = rng.choice(sc["smalls"])
        bind = "c%d_" % uid
        return ("ctx", "match", {"enumvar": "e%d_" % uid, "variant": rng.choice(["Ok", "Bad"]), "expr": e, "bind": bind},
                [body(with_small(bind)), body(with_small(bind))])

    def st_printing(self, sc, depth, p_call):
        r = self.rng.random()
        if r < 0.45:
            return self.st_interp(sc, depth, p_call)
        if r < 0.75:
            return self.st_format(sc, depth, p_call)
        return self.st_plain(sc, depth, p_call)

    def st_any(self, sc, depth, p_call=0.5, ctx_ok=True):
        r = self.rng.random()
        if CTX_ON and ctx_ok and not sc.get("no_defer") and self.rng.random() < 0.22:
            return self.st_ctx(sc, depth, p_call)
        if r < 0.03:
            return ("print", 1, [], "n-empty")                  # println();
        if r < 0.07:        # print expr;  (no parentheses: Interpreter::print_value directly)
            c = self.pick_call(sc, self.rng.choice(["S", "I"]), depth) if self.rng.random() < p_call else None
            return ("print", 0, [("E", c if c is not None else self.rng.choice(sc["ints"] + sc["smalls"]))], "n-bare")
        if r < 0.4:
            return self.st_interp(sc, depth, p_call)
        if r < 0.7:
            return self.st_format(sc, depth, p_call)
        return self.st_plain(sc, depth, p_call)

    # -- functions
    def scope_of(self, f, level):
        """what the body of f can see: its parameters, members of self, every function defined before it"""
        sc = {"ints": [], "smalls": [], "strs": [], "funcs": [g for g in self.funcs if g.level < level], "objs": []}
        if f.flavor in ("module", "async"):
            # the imported file stands alone; an async function calls nothing: inside a function called from an async
            # function's body assignments to local variables are lost (loops never end) - not C16's business
            sc["funcs"] = []
            sc["no_enum"] = f.flavor == "module"
            # a scope or a deferred statement inside an awaited function upsets the caller's scopes (pending deferred
            # statements disappear, loop variables become undefined): its body is straight-line
            sc["no_defer"] = f.flavor == "async"
        if f.struct:
            sc["no_self_defer"] = True       # "defer println(self.x)" is rejected by the parser (self outside a method)
        for ty, name in f.params:
            if ty == "T":
                sc.setdefault("anys", []).append(("leaf", name, name, "A"))
            elif ty == "long":
                sc["ints"].append(("leaf", name, name, "I"))
            elif ty == "double":
                sc.setdefault("flts", []).append(("leaf", name, name, "F"))
            elif ty == "int":
                sc["smalls"].append(("leaf", name, name, "I"))
                c = self.rng.randint(1, 9)
                sc["smalls"].append(("arith", "%s + %d" % (name, c), (lambda ctx, n=name, c=c: ctx[n] + c)))
            else:
                sc["strs"].append(("leaf", name, name, "S"))
        if f.struct:
            sc["ints"].append(("leaf", "self.a", "self.a", "I"))
            sc["smalls"].append(("leaf", "self.b", "self.b", "I"))
            sc["strs"].append(("leaf", "self.nm", "self.nm", "S"))
            sc["objs"] = [("self", f.struct)]
            if f.struct == "B":
                sc.setdefault("anys", []).append(("leaf", "self.v", "self.v", "A"))
        if not sc["ints"]:
            sc["ints"] = [("ilit", POOL[(self.k * 13 + level * 7 + len(self.funcs)) % len(POOL)])]
        if not sc["smalls"]:
            sc["smalls"] = [("ilit", self.rng.randint(-99, 99))]
        if not sc["strs"]:
            sc["strs"] = [("slit", self.text(4) or "z")]
        return sc

    def make_func(self, idx, level, struct=None, flavor=None):
        rng = self.rng
        rtype = rng.choice(["string", "string", "string", "long", "int", "void"])
        sig = rng.choice([[("long", "n")], [("long", "n"), ("int", "k")], [("long", "n"), ("string", "t")], [("int", "k")],
                          [("int", "k"), ("string", "t")], [("long", "n"), ("int", "k"), ("string", "t")],
                          [("double", "x")], [("long", "n"), ("double", "x")], [("double", "x"), ("int", "k")]] + ([[]] if struct else []))
        if struct:
            sig = [p for p in sig if p[1] != "t"] if rng.random() < 0.5 else sig
        if rtype == "int" and not any(ty == "int" for ty, _ in sig):
            sig = sig + [("int", "k")]
        if flavor is None:
            flavor = "plain"
            if CTX_ON and not struct:
                flavor = rng.choice(["plain", "plain", "generic", "generic", "generic", "async", "default", "default"]
                                    + (["module", "module"] if level == 0 else []))
        if flavor == "lambda":       # lambdas take integers only (string / double parameters arrive damaged: not C16's business)
            sig = rng.choice([[("long", "n")], [("long", "n"), ("int", "k")], [("int", "k")]])
            if rtype == "int" and not any(ty == "int" for ty, _ in sig):
                sig = sig + [("int", "k")]
        defaults = {}
        if flavor == "generic":
            sig = [("T", "tg")] + sig
        elif flavor == "default":
            which = rng.choice(["dt", "dw", "both"])
            if which in ("dt", "both"):
                sig = sig + [("string", "dt")]
                defaults["dt"] = ("dlit",) + rng.choice([("dv{{}}", "dv{}"), ("{{", "{"), ("d-é".encode("utf-8").decode("latin-1"),) * 2,
                                                        ("", ""), ("100%", "100%")])
            if which in ("dw", "both"):
                sig = sig + [("int", "dw")]
                defaults["dw"] = ("ilit", rng.choice([7, -7, 0, 255, 65535, rng.randint(-999, 999)]))     # int arithmetic of the body stays in range
        name = {"lambda": "lm%d", "module": "mq%d"}.get(flavor, "m%d" if struct == "P" else "g%d" if struct == "B" else "f%d") % idx
        f = FDef(name, rtype, sig, level, struct, flavor)
        f.defaults = defaults
        sc = self.scope_of(f, level)
        sc0 = dict(sc)           # the scope before the body declares anything
        depth = min(level, 3)    # calls reach strictly lower levels
        p_call = 0.0 if level == 0 else 0.55
        nb = rng.choice([0, 0, 1, 1, 2]) if rtype != "void" else rng.choice([1, 2])
        for _ in range(nb):
            r = rng.random()
            if r < 0.12 and level > 0:
                c = self.pick_call(sc, "V", depth)
                if c is not None:
                    f.body.append(("eval", c))
                    continue
            if r < 0.24:
                nm = "w%d" % len(f.body)
                if rng.random() < 0.6:
                    f.body.append(self.let_interp(nm, sc, depth, p_call, 3))
                    sc["strs"] = sc["strs"] + [("leaf", nm, nm, "S", "let")]
                    continue
            f.body.append(self.st_any(sc, depth, p_call))
        if rtype == "string":
            r = rng.random()
            force = self.pick_call(sc, rng.choice(["S", "S", "I"]), depth, in_lit=True) if level > 0 and r < 0.75 else None
            if r < 0.85:
                f.ret = self.interp(sc, depth, p_call, 4, force_call=force)
            elif r < 0.93:
                f.ret = ("E", ("slit", self.text(5) or "r"))
            else:
                f.ret = ("E", rng.choice(sc["strs"]))
        elif rtype == "long":
            f.ret = ("E", rng.choice([e for e in sc["ints"] + sc["smalls"]]))
        elif rtype == "int":
            f.ret = ("E", rng.choice(sc["smalls"]))
        if CTX_ON and rtype != "string" and flavor != "async" and not struct and rng.random() < 0.12:     # (an async function runs it at once)
            # a deferred print at function level: runs when the body is through (the return expression is effect-free here,
            # so its place relative to the deferred statement cannot be observed)
            f.body.insert(rng.randint(0, len(f.body)), ("defer", self.st_printing(sc0, depth, p_call)))
        return f

    def let_interp(self, nm, sc, depth, p_call, maxseg):
        """string nm = <interpolated literal>; in one of its spellings: initialiser, declaration + assignment, const, +="""
        rng = self.rng
        self.last_halves = None
        q = self.interp(sc, depth, p_call, maxseg)
        r = rng.random()
        if not CTX_ON or r < 0.55:
            return ("let", "string", nm, q)
        if self.last_halves and q[4] and " + " in q[4] and r < 0.75:
            return ("let", "string", nm, q, "pluseq", self.last_halves)
        if r < 0.88:
            return ("let", "string", nm, q, "assign")
        return ("let", "string", nm, q, "const")

    def make_rec(self, idx):
        """string r(int d, long n): the same AST node is evaluated again while it is being evaluated"""
        rng = self.rng
        f = FDef("r%d" % idx, "string", [("int", "d"), ("long", "n")], 1)
        sc = self.scope_of(f, 1)
        sc["smalls"] = [("leaf", "d", "d", "I")]
        base = self.interp(sc, 0, 0.0, 3)
        f.body.append(("ret_if", "d <= 0", (lambda ctx: ctx["d"] <= 0), base))
        if rng.random() < 0.6:
            f.body.append(self.st_any(sc, 1, 0.3))
        rec = ("call", f, [("arith", "d - 1", (lambda ctx: ctx["d"] - 1)), ("leaf", "n", "n", "I")])
        f.ret = self.interp(sc, 1, 0.3, 3, force_call=rec)
        return f

    def make_special(self):
        """functions that raise a run-time error when k == MAGIC: hf (assert: the process exits at once), via (one more
        level around hf, with pending text), sf_loud / sf_quiet (an exception that unwinds; see known finding
        C16-print-arg-error-reevaluated for why sf_loud is only called from statements and initialisers)"""
        rng = self.rng
        out = []
        hf = FDef("hf", "int", [("int", "k")], 0)
        sc = self.scope_of(hf, 0)
        hf.body = [("print", rng.choice([0, 1]), [self.interp(sc, 0, 0.0, 2)], "n-interp"),
                   ("fail_if", "k == %d" % MAGIC, (lambda ctx: ctx["k"] == MAGIC), "assert(1 == 2);", True)]
        hf.ret = ("E", ("leaf", "k", "k", "I"))
        hf.special = "hard"
        via = FDef("via", "string", [("int", "k")], 1)
        sc = self.scope_of(via, 1)
        via.body = [self.st_any(sc, 0, 0.0)] if rng.random() < 0.6 else []
        via.ret = self.interp(sc, 0, 0.0, 2, force_call=("call", hf, [("leaf", "k", "k", "I")]))
        via.special = "hard"
        soft = rng.choice(["int zz_ = 0; int qq_ = 5 / zz_;", "int[3] arr_; arr_[5] = 1;", "int zz_ = 0; int qq_ = 5 % zz_;"])
        sl = FDef("sf_loud", "int", [("int", "k")], 0)
        sc = self.scope_of(sl, 0)
        sl.body = [("print", 1, [self.interp(sc, 0, 0.0, 2)], "n-interp"),
                   ("fail_if", "k == %d" % MAGIC, (lambda ctx: ctx["k"] == MAGIC), soft, False)]
        sl.ret = ("E", ("leaf", "k", "k", "I"))
        sl.special = "soft-loud"
        sq = FDef("sf_quiet", "int", [("int", "k")], 0)
        sq.body = [("fail_if", "k == %d" % MAGIC, (lambda ctx: ctx["k"] == MAGIC), soft, False)]
        sq.ret = ("E", ("arith", "k + 1", (lambda ctx: ctx["k"] + 1)))
        sq.special = "soft-quiet"
        return [hf, via, sl, sq]

    def build(self):
        rng = self.rng
        # free functions of level 0..3 (plain / generic / async / default parameters / imported module), methods of
        # struct P and of the generic struct Box<T> (levels 0..2), a recursive function, the failing ones, lambdas
        self.special = self.make_special()
        self.funcs += self.special
        idx = 0
        for level in range(0, 4):
            for _ in range(rng.choice([2, 3]) if level < 2 else rng.choice([1, 2])):
                self.funcs.append(self.make_func(idx, level))
                idx += 1
            if level < 3 and rng.random() < 0.8:
                self.funcs.append(self.make_func(idx, level, struct="P"))
                idx += 1
            if CTX_ON and level < 3 and rng.random() < 0.6:
                self.funcs.append(self.make_func(idx, level, struct="B"))
                idx += 1
            if level == 1:
                self.funcs.append(self.make_rec(idx))
                idx += 1
        if CTX_ON:
            for _ in range(rng.choice([1, 2])):
                self.funcs.append(self.make_func(idx, 4, flavor="lambda"))
                idx += 1
        # source: free functions must precede their callers; methods live in one impl block per struct, which comes
        # after all free functions (a method may call any of them); module functions go to the imported file, lambdas
        # to main's declarations
        sig = lambda m: "%s %s(%s);" % (m.rtype, m.name, ", ".join("%s %s" % p for p in m.params))
        self.top = {"frees": [[f.name, fdef_src(f)] for f in self.funcs if not f.struct and f.flavor not in ("module", "lambda")],
                    "meths": [[m.name, sig(m), fdef_src(m, "    ")] for m in self.funcs if m.struct == "P"],
                    "gmeths": [[m.name, sig(m), fdef_src(m, "    ")] for m in self.funcs if m.struct == "B"],
                    "mods": [[f.name, fdef_src(f)] for f in self.funcs if f.flavor == "module"]}
        self.lambdas = [[f.name, "\n    ".join(fdef_src(f))] for f in self.funcs if f.flavor == "lambda"]
        return self


def top_lines(top):
    if not top:
        return []
    lines = list(top.get("defines", []))
    if top.get("mods"):
        lines.append("import mq;")
    lines += ["struct P { long a; int b; string nm; };", "struct Box<T> { T v; long a; int b; string nm; };",
              "enum Mt { Ok(int), Bad(int) };"]
    if top["meths"]:
        lines.append("interface Sh { %s };" % " ".join(m[1] for m in top["meths"]))
    if top.get("gmeths"):
        lines.append("interface Gt<T> { %s };" % " ".join(m[1] for m in top["gmeths"]))
    lines += top.get("globals", [])
    for f in top["frees"]:
        lines += f[1]
    if top["meths"]:
        lines.append("impl Sh for P {")
        for m in top["meths"]:
            lines += m[2]
        lines.append("};")
    if top.get("gmeths"):
        lines.append("impl Gt<T> for Box<T> {")
        for m in top["gmeths"]:
            lines += m[2]
        lines.append("};")
    return lines


def module_src(p):
    top = p.get("top")
    if not top or not top.get("mods"):
        return None
    return "\n".join(l for f in top["mods"] for l in f[1]) + "\n"


def prune_top(top, used):
    """keep only the functions reachable (by name) from the text `used`"""
    if not top:
        return top
    import re
    texts = {f[0]: "\n".join(f[1]) for f in top["frees"] + top.get("mods", [])}
    texts.update({m[0]: "\n".join(m[2]) for m in top["meths"] + top.get("gmeths", [])})
    keep, todo = set(), [used]
    while todo:
        t = todo.pop()
        for name in texts:
            if name not in keep and re.search(r"\b%s(<[A-Za-z]*>)?\(" % re.escape(name), t):
                keep.add(name)
                todo.append(texts[name])
    return {"frees": [f for f in top["frees"] if f[0] in keep], "meths": [m for m in top["meths"] if m[0] in keep],
            "gmeths": [m for m in top.get("gmeths", []) if m[0] in keep], "mods": [f for f in top.get("mods", []) if f[0] in keep],
            "defines": top.get("defines", []), "globals": top.get("globals", [])}


def nested_program(seed, k, tier, n_stmts):
    rng = rng_for(seed, "c16-nest", k)
    ng = NestGen(rng, k).build()
    g = Gen(rng, k)                  # main's variables: 8 boundary integers, 3 small ints, 3 strings
    decls = list(g.decls)
    ctx = {}
    for n, v in g.ints + g.small:
        ctx[n] = v
    for n, t in g.strs:
        ctx[n] = t
    objs = []
    for on in ("p", "q"):
        a = g.pick_value(rng.randint(0, 50))
        b = rng.randint(-999, 999)
        nm = rand_text(rng, 5)
        decls.append('P %s = {%s, %s, "%s"};' % (on, lit(a), lit(b), nm))
        ctx["@" + on] = {"a": a, "b": b, "nm": nm}
        ctx[on + ".a"], ctx[on + ".b"], ctx[on + ".nm"] = a, b, nm
        objs.append((on, "P"))
    if CTX_ON:
        # objects of the generic struct: every method call on them runs the impl instantiated for Box<int> / Box<string>
        for on, ty in (("bi", "int"), ("bs", "string")):
            v = rng.randint(-999, 999) if ty == "int" else (rand_text(rng, 4) or "v")
            a = g.pick_value(rng.randint(0, 50))
            b = rng.randint(-999, 999)
            nm = rand_text(rng, 5)
            decls.append('Box<%s> %s; %s.v = %s; %s.a = %s; %s.b = %s; %s.nm = "%s";'
                         % (ty, on, on, lit(v) if ty == "int" else '"%s"' % v, on, lit(a), on, lit(b), on, nm))
            ctx["@" + on] = {"v": v, "a": a, "b": b, "nm": nm}
            objs.append((on, "B"))
        decls.append('P pz = {1, 2, "z"};')
        for name, src in ng.lambdas:
            decls.append(src)
    arr = [g.pick_value(rng.randint(0, 50)) for _ in range(4)]
    decls.append("long[4] arr = [%s];" % ", ".join(lit(v) for v in arr))
    flts = []
    for j in range(5):
        t = ng.flit()
        if j == 4:          # a float (binary32) variable: the value is the literal rounded to single precision
            import struct
            t = rng.choice(["1.1", "0.1", "2.675", "16777217.0", "0.3", "3.14159265358979", "1e10", "0.5"])
            decls.append("float d%d = %s;" % (j, t))
            ctx["d%d" % j] = struct.unpack("f", struct.pack("f", float(t)))[0]
        else:
            decls.append("double d%d = %s;" % (j, t))
            ctx["d%d" % j] = float(t)
        flts.append(("leaf", "d%d" % j, "d%d" % j, "F"))
    sc = {"ints": [("leaf", n, n, "I") for n, _ in g.ints] + [("leaf", "p.a", "p.a", "I"), ("leaf", "q.a", "q.a", "I")]
                  + [("leaf", "arr[%d]" % i, "arr[%d]" % i, "I") for i in range(4)],
          "smalls": [("leaf", n, n, "I") for n, _ in g.small] + [("leaf", "p.b", "p.b", "I")]
                    + [("arith", "%s + %d" % (g.small[0][0], 7), (lambda c, n=g.small[0][0]: c[n] + 7)),
                       ("arith", "%s * 2 - %s" % (g.small[1][0], g.small[2][0]), (lambda c, a=g.small[1][0], b=g.small[2][0]: c[a] * 2 - c[b]))],
          "strs": [("leaf", n, n, "S") for n, _ in g.strs], "flts": flts,
          "funcs": list(ng.funcs), "objs": objs}
    for i in range(4):
        ctx["arr[%d]" % i] = arr[i]
    # s[i] of a string variable = the code point of its i-th UTF-8 character (utf8_utils), printed as a number
    for n, t in g.strs:
        try:
            u = t.encode("latin-1").decode("utf-8")
        except UnicodeDecodeError:
            continue
        for i in range(len(u)):
            if rng.random() < 0.5:
                key = "%s[%d]" % (n, i)
                ctx[key] = ord(u[i])
                sc["smalls"].append(("leaf", key, key, "I"))
    sc0 = {k_: list(v_) for k_, v_ in sc.items()}      # the scope without main's later declarations
    body = []
    nlet = 0
    for j in range(n_stmts):
        r = rng.random()
        if r < 0.10:
            c = ng.pick_call(sc, "V", 3) or ng.pick_call(sc, "S", 3)
            if c is not None:
                body.append(("eval", c))
                continue
        if r < 0.22:
            nm = "u%d" % nlet
            nlet += 1
            if CTX_ON and rng.random() < 0.1:
                # a struct member assigned an interpolated literal, read back by name from then on
                q_ = ng.interp(sc, 3, 0.6, 3)
                # never the empty string: assigning "" to a struct member leaves the old value (not C16's business)
                body.append(("let", "string", "pz.nm", ("Q", "m" + q_[1], [("t", "m")] + q_[2], None, None), "member"))
                sc["strs"] = sc["strs"] + [("leaf", "pz.nm", "pz.nm", "S", "let")]
            elif rng.random() < 0.65:
                body.append(ng.let_interp(nm, sc, 3, 0.6, 4))
                sc["strs"] = sc["strs"] + [("leaf", nm, nm, "S", "let")]
            else:
                c = ng.pick_call(sc, "I", 3)
                if c is not None:
                    f = c[1] if c[0] == "call" else c[2]
                    body.append(("let", "long" if f.rtype == "long" else "int", nm, ("E", c)))      # (an upper-case name before '<' is read as a generic type)
                    (sc["ints"] if f.rtype == "long" else sc["smalls"]).append(("leaf", nm, nm, "I"))
            continue
        body.append(ng.st_any(sc, 3, 0.6))
    # how the run ends
    ending = "normal"
    r = rng.random()
    avoided = {}
    if r < 0.35:
        ending = "error"
        pos = rng.randint(0, len(body))
        hf, via, sl, sq = ng.special
        how = rng.random()
        if how < 0.2:
            body.insert(pos, ("fail_if", None, None, rng.choice(FAILS), False))
        else:
            hard_call = ("call", rng.choice([hf, hf, via]), [("ilit", MAGIC)])
            loud = ("call", sl, [("ilit", MAGIC)])
            quiet = ("call", sq, [("ilit", MAGIC)])
            where = rng.choice(["interp", "interp", "arg", "fmtarg", "let", "eval", "sarg"])
            if where in ("eval", "let") and rng.random() < 0.5:
                fc = loud           # an exception raised outside a print argument: no re-evaluation
            elif where in ("arg", "fmtarg") and rng.random() < 0.3:
                fc = quiet          # an exception inside a print argument that has written nothing yet
            else:
                fc = hard_call
                if where not in ("eval", "let"):
                    avoided["C16-print-arg-error-reevaluated"] = 1
            if where == "interp":
                st = ("print", 1, [ng.interp(sc0, 3, 0.4, 4, force_call=fc)], "n-interp-fail")
            elif where == "arg":
                st = ("print", 1, [ng.print_arg(sc0, 3, 0.3) for _ in range(rng.randint(0, 2))] + [("E", fc)]
                      + [ng.print_arg(sc0, 3, 0.3) for _ in range(rng.randint(0, 2))], "n-plain-fail")
                if fc is quiet:     # nothing may be written by the same argument list before the exception: keep it first
                    st = ("print", 1, [("E", fc)] + [ng.print_arg(sc0, 3, 0.3) for _ in range(rng.randint(0, 2))], "n-plain-fail")
            elif where == "fmtarg":
                fmt = ("Q", "%d|%d|", None, [("d", "d", "", 0), ("t", "|"), ("d", "d", "", 0), ("t", "|")])
                if fc is quiet:     # nothing may be written by the same statement before the exception
                    st = ("print", 1, [fmt, ("E", fc), ("E", rng.choice(sc0["smalls"]))], "n-format-fail")
                else:
                    st = ("print", 1, [fmt, ("E", rng.choice(sc0["smalls"])), ("E", fc)], "n-format-fail")
            elif where == "sarg":
                st = ("print", 1, [("Q", "%s|%d", None, [("d", "s", "", 0), ("t", "|"), ("d", "d", "", 0)]),
                                   ng.interp(sc0, 3, 0.3, 3, force_call=hard_call), ("E", rng.choice(sc0["smalls"]))], "n-format-fail")
            elif where == "let":
                st = ("let", "int", "LF", ("E", fc))
            else:
                st = ("eval", fc)
            body.insert(pos, st)
    elif r < 0.42:
        ending = "return"
    main_ctx = dict(ctx)
    inst = realize(body, None, main_ctx, [], set(), keep_after=True)
    stmts = inst["body"]
    if ending == "return":
        stmts.insert(rng.randint(0, len(stmts)), {"ret": 1})
    env = [[t, "C", c] if "body" in c else [t, "F" if isinstance(c["v"], float) else "I" if isinstance(c["v"], int) else "S", c["v"]]
           for t, c in inst["locals"]]
    p = {"k": k, "decls": decls, "env": env, "stmts": stmts, "ending": ending, "main": rng.choice(["void", "int"]),
         "avoided": avoided, "top": ng.top, "nested": 1}
    return apply_oracle(p)


FLOAT_PRECS = list(range(0, 21)) + [25, 30, 40]


def float_programs(seed, tier):
    """{x:.Nf} / {x:W.Nf} / {x}: every value of FLOAT_LITS (ties, values just off a tie, carries, very large and very small
    magnitudes), both signs, every precision 0..20 and 25 30 40; quick: a rotating third of the grid, thorough: all of it"""
    pairs = [(t, sg, p) for t in FLOAT_LITS for sg in ("", "-") for p in FLOAT_PRECS]
    if tier == "quick":
        pairs = [x for i, x in enumerate(pairs) if (i + seed) % 3 == 0]
    rng = rng_for(seed, "c16-float", tier)
    progs = []
    per = 48
    for k in range(0, len(pairs), per):
        decls, env, stmts, names = [], [], [], {}
        for t, sg, p in pairs[k:k + per]:
            key = sg + t
            if key not in names:
                names[key] = "a%d" % len(names)
                decls.append("double %s = %s;" % (names[key], key))
                env.append([names[key], "F", float(key)])
            n = names[key]
            w = rng.choice([0, 0, rng.randint(1, 30)])
            spec = "%s.%d%s" % (str(w) if w else "", p, rng.choice(["f", "f", ""]))
            parts = [["t", "<"], ["e", n, spec], ["t", "|"], ["e", n, None if p != 6 else "0%d.%df" % (rng.randint(1, 24), rng.randint(0, 9))], ["t", ">"]]
            text = "<{%s:%s}|{%s%s}>" % (n, spec, n, "" if parts[3][2] is None else ":" + parts[3][2])
            stmts.append({"nl": 1, "kind": "float-grid", "args": [{"k": "Q", "text": text, "parts": parts}]})
        progs.append(apply_oracle({"k": k, "decls": decls, "env": env, "stmts": stmts, "ending": "normal", "main": "void",
                                   "avoided": {}, "nested": 0}))
    return progs, len(pairs)


def parts_literal(parts):
    """the interpolated literal made of the given parts: ("Q", text, parts, None, None)"""
    text = []
    for p in parts:
        if p[0] == "t":
            text.append(p[1])
        elif p[0] == "lb":
            text.append("{{")
        elif p[0] == "rb":
            text.append("}}")
        elif p[0] == "dollar":
            text.append("$")
        else:
            text.append("{" + x_src(p[1]) + ("" if p[2] is None else ":" + p[2]) + "}")
    return ("Q", "".join(text), parts, None, None)


def fparts_literal(fparts):
    text = []
    for p in fparts:
        if p[0] == "t":
            text.append(p[1])
        elif p[0] == "pp":
            text.append("%%")
        else:
            text.append("%" + p[2] + (str(p[3]) if p[3] else "") + p[1])
    return ("Q", "".join(text), None, fparts, None)


POSITIONS = ["plain", "generic<int>", "generic<string>", "generic<long>", "generic-inferred", "generic<T>-from-generic",
             "method", "generic-struct-method<int>", "generic-struct-method<string>", "lambda", "default-omitted", "default-written",
             "async", "module", "for", "while", "if", "else", "switch-case", "switch-else", "match-Ok", "match-Bad", "block", "defer",
             "for-in-generic<int>", "match-in-generic-struct-method<string>", "defer-in-lambda", "macro", "macro-in-generic<int>",
             "global-initialiser"]


def position_forms(n, k, t, W, extra=None):
    """every rendering form over the expressions n (integer), k (small integer), t (string): each documented interpolation spec,
    {{ }} $ and UTF-8 text around them; printf-style directives with flags and width; a plain argument list with an escaped
    literal; print without newline and an empty println; a string variable initialised from an interpolated literal"""
    e8 = "é".encode("utf-8").decode("latin-1")
    parts = [("t", "<")]
    for sp in ["x", "X", "b", "d", "%d" % W, "%dd" % W, "0%d" % W, "0%dd" % W, "%dx" % W, "0%dx" % W, "0%dX" % W, "0%db" % W, ""]:
        parts += [("e", n, sp), ("t", "|")]
    parts += [("e", k, "0%d" % W), ("lb",), ("e", t, None), ("rb",), ("dollar",), ("e", k, None), ("t", e8 + ">")]
    if extra is not None:
        parts += [("e", extra, None), ("t", "~")]
    fparts = [("t", "["), ("d", "d", "", 0), ("t", "|"), ("d", "lld", "", W), ("t", "|"), ("d", "d", "0", W), ("t", "|"), ("d", "d", "-", W),
              ("t", "|"), ("d", "x", "", 0), ("t", "|"), ("d", "X", "0", W), ("t", "|"), ("d", "o", "", 0), ("t", "|"), ("d", "u", "", 0),
              ("t", "|"), ("d", "s", "", 0), ("t", "|"), ("d", "s", "-", W), ("t", "|"), ("d", "c", "", 0), ("pp",), ("t", e8 + "]")]
    fargs = [("E", n)] * 8 + [("E", t), ("E", t), ("E", ("ilit", 65 + W))]
    return [("print", 1, [parts_literal(parts)], "pos-interp"),
            ("print", 1, [fparts_literal(fparts)] + fargs, "pos-format"),
            ("print", 1, [("E", n), ("E", k), ("E", t), ("Q", "a\\tb" + e8, None, None), parts_literal([("t", "w"), ("e", n, "0%dx" % W), ("rb",)]),
                          fparts_literal([("d", "s", "", W), ("t", "|"), ("d", "lld", "0", W), ("t", "!")]), ("E", t), ("E", n)], "pos-plain"),
            ("print", 0, [("E", n)], "pos-plain"),
            ("print", 1, [], "n-empty")]


def position_programs(seed, tier):
    """one program per code position: the same rendering statements (position_forms) stand in a function of every kind and
    inside every control-flow statement; main calls it with boundary values, directly and from inside an interpolated literal"""
    progs = []
    nval = 3 if tier == "quick" else 24
    n_, k_, t_ = ("leaf", "n", "n", "I"), ("leaf", "k", "k", "I"), ("leaf", "t", "t", "S")
    for pi, pos in enumerate(POSITIONS):
        rng = rng_for(seed, "c16-pos", pi)
        W = rng.randint(0, 22)
        sig = [("long", "n"), ("int", "k"), ("string", "t")]
        kk = rng.randint(-99, 99)
        funcs, lambdas, mods = [], [], []
        struct, flavor, site, extra, pre = None, "plain", {}, None, []
        forwarded = False
        tag = None
        base = pos.split("-in-")[-1] if "-in-" in pos else pos
        if base.startswith("generic<") or base in ("generic-inferred",):
            flavor = "generic"
            sig = [("T", "tg")] + sig
            extra = ("leaf", "tg", "tg", "A")
            ty = base[8:base.index(">")] if base.startswith("generic<") else "inferred"
            forwarded = ty == "T"
            if ty == "T":
                ty = "int"
            tag = {"int": ("ilit", rng.randint(0, 999)), "long": ("ilit", POOL[rng.randint(0, len(POOL) - 1)]),
                   "string": ("slit", rand_text(rng, 4) or "w"), "inferred": ("ilit", rng.randint(0, 999))}[ty]
            site = {"targs": "" if ty == "inferred" else "<%s>" % ty}
        elif base == "method":
            struct = "P"
        elif base.startswith("generic-struct-method"):
            struct = "B"
            extra = ("leaf", "self.v", "self.v", "A")
        elif base == "lambda":
            flavor = "lambda"
            sig = [("long", "n"), ("int", "k")]
            pre = [("let", "string", "t", ("E", ("slit", rand_text(rng, 4) or "w")))]
        elif base.startswith("default"):
            flavor = "default"
            sig = sig + [("string", "dt"), ("int", "dw")]
            extra = ("leaf", "dt", "dt", "S")
        elif base == "async":
            flavor, site = "async", {"pre": "await "}
        elif base == "module":
            flavor = "module"
        f = FDef({"lambda": "lmp", "module": "mqp"}.get(flavor, "mp" if struct == "P" else "gp" if struct == "B" else "fp"),
                 "string", sig, 0, struct, flavor)
        if flavor == "default":
            f.defaults = {"dt": ("dlit", "dv{{}}", "dv{}"), "dw": ("ilit", 7)}
        forms = position_forms(n_, k_, ("leaf", "t", "t", "S", "let") if flavor == "lambda" else t_, W, extra)
        if flavor == "default":
            forms.append(("print", 1, [parts_literal([("e", ("leaf", "dw", "dw", "I"), "0%dx" % W), ("lb",), ("e", ("leaf", "dt", "dt", "S"), None)])], "pos-interp"))
        lead = pos.split("-in-")[0] if "-in-" in pos else pos
        i_ = ("leaf", "i1_", "i1_", "I")
        c_ = ("leaf", "c1_", "c1_", "I")
        loopline = ("print", 1, [parts_literal([("t", "it"), ("e", i_, "0%d" % W), ("t", "|"), ("e", n_, "x")])], "pos-interp")
        if lead == "for":
            body = [("ctx", "for", {"var": "i1_", "a": -1, "b": 2}, [forms + [loopline]])]
        elif lead == "while":
            body = [("ctx", "while", {"var": "i1_", "a": 0, "b": 2}, [forms + [loopline]])]
        elif lead in ("if", "else"):
            cond = ("k == %s" % lit(kk), (lambda ctx: ctx["k"] == kk)) if lead == "if" else ("k != %s" % lit(kk), (lambda ctx: ctx["k"] != kk))
            other = [("print", 1, [("Q", "other", None, None)], "pos-plain")]
            body = [("ctx", "if", {"cond": cond}, [forms, other] if lead == "if" else [other, forms])]
        elif lead in ("switch-case", "switch-else"):
            other = [("print", 1, [("Q", "other", None, None)], "pos-plain")]
            if lead == "switch-case":
                body = [("ctx", "switch", {"expr": k_, "cases": [kk + 1, kk]}, [other, forms, other])]
            else:
                body = [("ctx", "switch", {"expr": k_, "cases": [kk + 1, kk + 2]}, [other, other, forms])]
        elif lead in ("match-Ok", "match-Bad", "match"):
            variant = "Bad" if lead == "match-Bad" else "Ok"
            arm = forms + [("print", 1, [parts_literal([("t", "c"), ("e", c_, "0%d" % W), ("t", "|"), ("e", c_, "x")])], "pos-interp")]
            other = [("print", 1, [("Q", "other", None, None)], "pos-plain")]
            body = [("ctx", "match", {"enumvar": "e1_", "variant": variant, "expr": k_, "bind": "c1_"},
                     [arm, other] if variant == "Ok" else [other, arm])]
        elif lead == "block":
            body = [("ctx", "block", {}, [forms])]
        elif lead == "defer":
            body = [("ctx", "block", {}, [[("defer", st) for st in forms] + [("print", 1, [("Q", "first", None, None)], "pos-plain")]])]
        else:
            body = forms
        defines, globs = [], []
        if lead == "macro":
            # every literal of the function reaches the lexer through the preprocessor: #define LMj "<literal>"
            def via_macro(st):
                args = []
                for a in st[2]:
                    if a[0] == "Q":
                        name = "LM%d" % len(defines)
                        defines.append('#define %s "%s"' % (name, a[1]))
                        a = a[:4] + (name,)
                    args.append(a)
                return (st[0], st[1], args, st[3])
            body = [via_macro(st) for st in forms]
        f.body = pre + body
        f.ret = parts_literal([("t", "r"), ("e", n_, "X"), ("t", "|"), ("e", k_, "0%d" % W), ("rb",)])
        # main
        g = Gen(rng, pi)
        decls = list(g.decls)
        ctx = {}
        for nm, v in g.ints + g.small:
            ctx[nm] = v
        for nm, tx in g.strs:
            ctx[nm] = tx
        objs = {"p": None, "bi": "int", "bs": "string"}
        a, b, nm = g.pick_value(3), rng.randint(-999, 999), rand_text(rng, 4)
        decls.append('P p = {%s, %s, "%s"};' % (lit(a), lit(b), nm))
        ctx["@p"] = {"a": a, "b": b, "nm": nm}
        for on, ty in (("bi", "int"), ("bs", "string")):
            v = rng.randint(-999, 999) if ty == "int" else (rand_text(rng, 4) or "v")
            decls.append('Box<%s> %s; %s.v = %s; %s.a = %s; %s.b = %s; %s.nm = "%s";'
                         % (ty, on, on, lit(v) if ty == "int" else '"%s"' % v, on, lit(a), on, lit(b), on, nm))
            ctx["@" + on] = {"v": v, "a": a, "b": b, "nm": nm}
        outer = None
        if flavor == "generic" and forwarded:      # reached through another generic function that forwards its type parameter
            outer = FDef("op", "string", list(sig), 1, None, "generic")
            outer.ret = parts_literal([("t", "o["), ("e", ("call", f, [("leaf", "tg", "tg", "A"), n_, k_, t_], {"targs": "<T>"}), None), ("t", "]")])
        body_main = []
        if pos == "global-initialiser":
            # string variables at file level initialised from interpolated literals over other globals: evaluated before
            # main runs; for the model they are main's first declarations (no source line of their own in main)
            gv = POOL[(seed * 41 + pi) % len(POOL)]
            gk = rng.randint(-999, 999)
            gt = rand_text(rng, 4)
            globs += ["long gn = %s;" % lit(gv), "int gk = %s;" % lit(gk), 'string gt = "%s";' % gt]
            ctx.update({"gn": gv, "gk": gk, "gt": gt})
            gn_, gk_, gt_ = ("leaf", "gn", "gn", "I"), ("leaf", "gk", "gk", "I"), ("leaf", "gt", "gt", "S")
            lits = [parts_literal(position_forms(gn_, gk_, gt_, W)[0][2][0][2]),
                    parts_literal([("lb",), ("e", gk_, "0%dx" % W), ("rb",), ("t", "|"), ("e", gt_, None)])]
            # (a const global is initialised before the non-const ones it mentions: both stay non-const)
            for gi, (q_, decl) in enumerate(zip(lits, ("string", "string"))):
                globs.append("%s gs%d = %s;" % (decl, gi, targ_src(q_)))
                body_main.append(("let", "string", "gs%d" % gi, q_, "global"))
            gl = [("leaf", "gs%d" % gi, "gs%d" % gi, "S", "let") for gi in range(2)]
            body_main.append(("print", 1, [("E", gl[0]), ("E", gl[1])], "pos-plain"))
            body_main.append(("print", 1, [parts_literal([("t", "<"), ("e", gl[0], None), ("t", "|"), ("e", gl[1], None), ("t", ">")])], "pos-interp"))
        for j in range(nval):
            v = POOL[(seed * 37 + pi * 101 + j * 53) % len(POOL)]
            sv = ("leaf", g.strs[j % 3][0], g.strs[j % 3][0], "S")
            args = [("ilit", v), ("ilit", kk)] + ([] if flavor == "lambda" else [sv])
            st = dict(site)
            if flavor == "generic":
                args = [tag] + args
            if flavor == "default":
                if pos == "default-omitted":
                    args += [f.defaults["dt"], f.defaults["dw"]]
                    st["omit"] = 2
                else:
                    sv2 = g.strs[(j + 1) % 3][0]
                    args += [("leaf", sv2, sv2, "S"), ("ilit", rng.randint(-999, 999))]
            if outer is not None:
                c = ("call", outer, args, {"targs": "<int>"})
            elif struct:
                recv = "p" if struct == "P" else ("bs" if "string" in pos else "bi")
                c = ("mcall", recv, f, args, st)
            else:
                c = ("call", f, args, st)
            body_main.append(("print", 1, [("E", c)], "pos-call"))
            if "string" not in pos or flavor != "generic":      # (no quoted literal inside the braces)
                body_main.append(("print", 1, [parts_literal([("t", "<"), ("e", c, None), ("t", ">")])], "pos-call-in-literal"))
        fl = [f] + ([outer] if outer else [])
        sigt = lambda m: "%s %s(%s);" % (m.rtype, m.name, ", ".join("%s %s" % q for q in m.params))
        top = {"frees": [[x.name, fdef_src(x)] for x in fl if not x.struct and x.flavor not in ("module", "lambda")],
               "meths": [[m.name, sigt(m), fdef_src(m, "    ")] for m in fl if m.struct == "P"],
               "gmeths": [[m.name, sigt(m), fdef_src(m, "    ")] for m in fl if m.struct == "B"],
               "mods": [[x.name, fdef_src(x)] for x in fl if x.flavor == "module"], "defines": defines, "globals": globs}
        for x in fl:
            if x.flavor == "lambda":
                decls.append("\n    ".join(fdef_src(x)))
        inst = realize(body_main, None, dict(ctx), [], set(), keep_after=True)
        env = [[t, "C", c] if "body" in c else [t, "F" if isinstance(c["v"], float) else "I" if isinstance(c["v"], int) else "S", c["v"]]
               for t, c in inst["locals"]]
        progs.append(apply_oracle({"k": pi, "decls": decls, "env": env, "stmts": inst["body"], "ending": "normal", "main": "void",
                                   "avoided": {}, "top": top, "nested": 1, "position": pos}))
    return progs


def nested_malformed(seed, n):
    """a literal that does not split, inside a function (called or not): parse error, nothing runs"""
    out = []
    for k in range(n):
        rng = rng_for(seed, "c16-nest-bad", k)
        p = nested_program(seed * 31 + 7, k, "quick", 6)
        t = rand_text(rng, 3) + rng.choice(["{k", "k}", "{k} }", "a } b {k}", "{k:5", "{{k}", "{k}}", "{ {k}", "${k", "x{k}y}z", "{k:{}"])
        p["top"]["frees"].append(["zz", ["string zz(int k) {", '    return "%s";' % t, "}"]])
        p["env"].append(["zz(0)", "C", {"params": [["k", {"v": 0}]], "locals": [], "body": [], "ret": {"k": "Q", "text": t}}])
        if rng.random() < 0.5:
            p["stmts"].append({"nl": 1, "args": [{"k": "R", "src": "zz(0)"}], "want": None, "kind": "malformed"})
        p["ending"] = "parse-error"
        out.append(p)
    return out


def nested_stats(p, st):
    """measured shape of a nested program: call instances (by the way the callee is defined / called), every rendering
    (interpolated literal / plain argument list / printf-style statement) with the number of renderings in progress around
    it and the kind of the innermost one, and the code position of every executed print statement"""
    st.setdefault("instances", 0)
    st.setdefault("renderings_by_depth", {})
    st.setdefault("inner_in_outer", {})
    st.setdefault("programs_by_max_depth", {})
    byfl = st.setdefault("instances_by_callee_kind", {})
    specfl = st.setdefault("formatted_segments_by_callee_kind", {})
    printfl = st.setdefault("print_statements_by_callee_kind", {})
    inctx = st.setdefault("print_statements_by_enclosing_statement", {})
    spell = st.setdefault("literal_spellings", {})
    top = [0]

    def bump(d, k, n=1):
        d[k] = d.get(k, 0) + n

    def arg_refs(a):
        if a["k"] == "R":
            return [a["src"]]
        if a["k"] == "Q" and "parts" in a:
            return [q[1] for q in a["parts"] if q[0] == "e"]
        return []

    def note(kind, depth, outer):
        d = st["renderings_by_depth"]
        d[depth] = d.get(depth, 0) + 1
        top[0] = max(top[0], depth)
        if outer:
            key = "%s in %s" % (kind, outer)
            st["inner_in_outer"][key] = st["inner_in_outer"].get(key, 0) + 1

    def walk(inst, rd, outer):
        st["instances"] += 1
        fl = inst.get("fl", "main")
        bump(byfl, fl)
        loc = dict((t, c) for t, c in inst["locals"])

        def visit(refs, rd2, kind, al):
            for r in refs:
                k_, hops = r, 0
                while k_ in al and hops < 8:        # chained aliases of nested scopes
                    k_, hops = al[k_], hops + 1
                c = loc.get(k_)
                if c is not None and "body" in c:
                    walk(c, rd2, kind)

        def render_arg(a, rd2, kind, al):
            if a["k"] == "Q":
                if "src" in a:
                    bump(spell, "concatenation" if " + " in a["src"] else "parenthesised")
                if "parts" in a:
                    bump(specfl, fl, sum(1 for q in a["parts"] if q[0] == "e" and q[2]))
            if a["k"] == "Q" and "parts" in a:
                note("interp", rd2 + 1, kind)
                visit(arg_refs(a), rd2 + 1, "interp", al)
            else:
                visit(arg_refs(a), rd2, kind, al)

        def stmts(body, where, al):
            for s in body:
                if "fail" in s or "ret" in s:
                    break
                if "eval" in s:
                    visit([s["eval"]], rd, outer, al)
                elif "let" in s:
                    if s.get("kind", "n-init") != "n-init":
                        bump(spell, s["kind"][7:])
                    render_arg(s["arg"], rd, outer, al)
                elif "ctx" in s:
                    bump(st.setdefault("control_statements_run", {}), "%s x%d" % (s["ctx"], min(len(s["scopes"]), 3)))
                    for sc in s["scopes"]:
                        al2 = dict(al)
                        al2.update(dict((t, k_) for t, k_ in sc["alias"]))
                        stmts(sc["body"], s["ctx"], al2)
                else:
                    w = where
                    if "defer" in s:
                        s = s["defer"]
                        w = "defer in " + where
                    bump(inctx, w)
                    bump(printfl, fl)
                    if len(s["args"]) == 1 and s["args"][0]["k"] == "Q":
                        render_arg(s["args"][0], rd, outer, al)
                    else:
                        kind = "printf" if any("fparts" in a for a in s["args"]) else "println"
                        note(kind, rd + 1, outer)
                        for a in s["args"]:
                            render_arg(a, rd + 1, kind, al)

        for _, c in inst["params"]:
            if "body" in c:
                walk(c, rd, outer)
        stmts(inst["body"], "function body", {})
        if inst.get("ret"):
            render_arg(inst["ret"], rd, outer, {})

    walk({"params": [], "locals": [[e[0], e[2]] for e in p["env"] if e[1] == "C"], "body": p["stmts"], "ret": None}, 0, None)
    st["instances"] -= 1
    byfl["main"] = byfl.get("main", 1) - 1
    m = st["programs_by_max_depth"]
    m[top[0]] = m.get(top[0], 0) + 1


# ------------------------------------------------------------------ rendering a description
def arg_src(a):
    if a["k"] == "Q":
        return a["src"] if "src" in a else '"%s"' % a["text"]
    return a["src"]


def stmt_src(s):
    if "fail" in s:
        return s["fail"]
    if "ret" in s:
        return "return;"
    if "eval" in s:
        return s["eval"] + ";"
    if "ctx" in s:
        return s["src"]
    if "defer" in s:
        return "defer " + stmt_src(s["defer"])
    if "let" in s:
        if "full_src" in s:
            return s["full_src"]
        return "%s %s = %s;" % (s["type"], s["let"], arg_src(s["arg"]))
    if s.get("bare"):
        return "print %s;" % arg_src(s["args"][0])          # the form without parentheses
    return "%s(%s);" % ("println" if s["nl"] else "print", ", ".join(arg_src(a) for a in s["args"]))


def selected(p, only):
    """indices of the statements of an isolated sub-program: the chosen ones plus the declarations before them
    (a later statement may use the variable)"""
    if only is None:
        return list(range(len(p["stmts"])))
    last = max(only) if only else -1
    return [i for i, s in enumerate(p["stmts"]) if i in only or ("let" in s and i < last)]


def program_src(p, only=None):
    lines = top_lines(p.get("top"))
    lines += ["%s main() {" % p.get("main", "void")]
    lines += ["    " + d for d in p["decls"]]
    sel = set(selected(p, only))
    for i, s in enumerate(p["stmts"]):
        if i not in sel:
            continue
        src = stmt_src(s)
        if src == "return;" and p.get("main") == "int":
            src = "return 0;"
        lines.append("    " + src)
    if p.get("main") == "int":
        lines.append("    return 0;")
    lines.append("}")
    return "\n".join(lines) + "\n"


def arg_tok(a):
    if a["k"] == "Q":
        return "Q" + hexs(a["text"])
    if a["k"] == "I":
        return "I%d" % a["v"]
    if a["k"] == "S":
        return "S" + hexs(a["v"])
    return "R" + hexs(a["src"])


def stmt_lines(s, out):
    if "fail" in s:
        out.append("F")
    elif "eval" in s:
        out.append("X " + hexs(s["eval"]))
    elif "let" in s:
        out.append("T %s %s" % (hexs(s["let"]), arg_tok(s["arg"])))
    elif "ctx" in s:
        out.append("O")             # the statement as a whole (the driver reports what a statement of main wrote per outermost scope)
        for sc in s["scopes"]:
            out.append("O " + " ".join(hexs(t) + ":" + hexs(k) for t, k in sc["alias"]))
            for s2 in sc["body"]:
                stmt_lines(s2, out)
            out.append("C")
        out.append("C")
    elif "defer" in s:
        d = s["defer"]
        out.append("D %d %s" % (d["nl"], " ".join(arg_tok(a) for a in d["args"])))
    else:
        out.append("P %d %s" % (s["nl"], " ".join(arg_tok(a) for a in s["args"])))


def val_line(v):
    if isinstance(v, float):
        neg, m, e = float_parts(v)
        return "VAL F %d %d %d" % (1 if neg else 0, m, e)
    return "VAL I %d" % v if isinstance(v, int) else "VAL S " + hexs(v)


def comp_lines(c, out):
    if "v" in c:
        out.append(val_line(c["v"]))
        return
    out.append("CALL")
    for name, ac in c["params"]:
        out.append("A " + hexs(name))
        comp_lines(ac, out)
    for text, lc in c["locals"]:
        out.append("L " + hexs(text))
        comp_lines(lc, out)
    for s in c["body"]:
        stmt_lines(s, out)
    if c["ret"] is not None:
        out.append("RET " + arg_tok(c["ret"]))
    out.append("ENDCALL")


def model_lines(p, only=None):
    out = ["CASE", "CALL"]
    for e, kind, v in p["env"]:
        if kind == "C":
            out.append("L " + hexs(e))
            comp_lines(v, out)
        elif kind == "F":
            out.append("L " + hexs(e))
            out.append(val_line(v))
        else:
            out.append("E %s %s %s" % (hexs(e), kind, v if kind == "I" else hexs(v)))
    sel = set(selected(p, only))
    for i, s in enumerate(p["stmts"]):
        if i not in sel:
            continue
        if "ret" in s:
            break
        stmt_lines(s, out)
    out.append("ENDCALL")
    out.append("END")
    return out


def executed(p, only=None):
    """the statements of main that run and write (in order), up to the one that ends the run"""
    sel = set(selected(p, only))
    out = []
    for i, s in enumerate(p["stmts"]):
        if i not in sel:
            continue
        if "fail" in s or "ret" in s:
            break
        out.append(s)
        if s.get("wfail"):
            break
    return out


def want_bytes(p, only=None):
    """output demanded by the property's own reading for the whole run, None if some statement has none"""
    out = []
    for s in executed(p, only):
        if s.get("want") is None:
            return None
        out.append(s["want"])
    return "".join(out).encode("latin-1")


def want_rc(p, only=None):
    if p.get("ending") == "parse-error" or p.get("rc_unknown"):
        return None         # whether a lone brace is an error is decided by the model comparison only
    sel = set(selected(p, only))
    for i, s in enumerate(p["stmts"]):
        if i not in sel:
            continue
        if "fail" in s or s.get("wfail"):
            return 1
        if "ret" in s:
            return 0
    return 0


# ------------------------------------------------------------------ running both sides
def big_stack():
    """the extracted functions are not tail-recursive (list append over the whole stdout of a program: megabytes in the
    size-boundaries stream of the thorough tier): run the model with the largest stack the system allows"""
    import resource
    soft, hard = resource.getrlimit(resource.RLIMIT_STACK)
    try:
        resource.setrlimit(resource.RLIMIT_STACK, (hard, hard))
    except (ValueError, OSError):
        pass


def run_model_chunk(blocks):
    data = ("\n".join("\n".join(b) for b in blocks) + "\n").encode("ascii")
    p = subprocess.run([common.model_bin(PROP), "run"], input=data, stdout=subprocess.PIPE, stderr=subprocess.PIPE, timeout=900,
                       preexec_fn=big_stack)
    if p.returncode != 0:
        raise RuntimeError("c16 model failed: " + p.stderr.decode("utf-8", "replace")[-500:])
    res = []
    for l in p.stdout.decode("ascii").split("\n"):
        if not l:
            continue
        w = l.split(" ")
        if w[0] == "OK":
            per = [None if h == "!" else bytes.fromhex(h) for h in w[3].split(",")[1:]]
            res.append(("ok", bytes.fromhex(w[1]), int(w[2]), per))
        else:
            res.append((w[1], None, 0, []))
    if len(res) != len(blocks):
        raise RuntimeError("c16 model: %d results for %d cases" % (len(res), len(blocks)))
    return res


def run_model(blocks):
    """blocks: list of list-of-lines; returns list of (status, bytes or None, failed, per-statement output)"""
    if len(blocks) < 64:
        return run_model_chunk(blocks)
    n = (len(blocks) + common.NCPU * 2 - 1) // (common.NCPU * 2)
    chunks = [blocks[i:i + n] for i in range(0, len(blocks), n)]
    out = []
    for r in common.pmap(run_model_chunk, chunks):
        out += r
    return out


class Runner:
    def __init__(self, impl_dir):
        self.impl_dir = impl_dir
        self.tmp = tempfile.mkdtemp(prefix="cbverif-c16-", dir=common.SCRATCH_ROOT)

    def close(self):
        shutil.rmtree(self.tmp, ignore_errors=True)

    def run(self, src, mod=None):
        """returns (rc, stdout bytes, first stderr line); mod: text of the imported file mq.cb (imports resolve against
        the working directory, so such a program runs in a directory of its own)"""
        cwd, d = self.impl_dir, None
        if mod is not None:
            d = tempfile.mkdtemp(prefix="m", dir=self.tmp)
            cwd = d
            with open(os.path.join(d, "mq.cb"), "wb") as fh:
                fh.write(mod.encode("latin-1"))
        fd, path = tempfile.mkstemp(prefix="p", suffix=".cb", dir=d or self.tmp)
        with os.fdopen(fd, "wb") as fh:
            fh.write(src.encode("latin-1"))
        try:
            p = subprocess.run([os.path.join(self.impl_dir, "main"), path], cwd=cwd, timeout=20,
                               stdout=subprocess.PIPE, stderr=subprocess.PIPE)
            rc, out, err = p.returncode, p.stdout, p.stderr
        except subprocess.TimeoutExpired as e:
            rc, out, err = 124, e.stdout or b"", e.stderr or b""
        finally:
            try:
                os.unlink(path)
            except OSError:
                pass
            if d:
                shutil.rmtree(d, ignore_errors=True)
        if rc < 0:
            rc = 128 - rc
        return rc, out, err.decode("utf-8", "replace").split("\n")[0][:200]

    def run_prog(self, p, only=None):
        return self.run(program_src(p, only), module_src(p))


def model_expect(m, p, only=None):
    """(stdout bytes, rc) the model predicts for the program, or None when outside the model"""
    st, out, failed = m[0], m[1], m[2]
    if st == "ok":
        return out, (1 if failed else 0)
    if st == "parse":
        return b"", 1
    return None


def check_program(p, m, impl):
    """returns None if everything agrees, else a dict describing the disagreement"""
    rc, out, err = impl
    exp = model_expect(m, p)
    if exp is None:
        return {"what": "model has no answer (%s)" % m[0]}
    if (out, rc) != exp:
        return {"what": "model", "model_out": exp[0], "model_rc": exp[1]}
    # the property's own reading, statement by statement (the model's per-statement output equals the
    # implementation's here, since the concatenation agreed)
    printing = executed(p)
    for s, mo in zip(printing, m[3]):
        if s.get("want") is not None and mo != s["want"].encode("latin-1"):
            return {"what": "spec", "stmt": stmt_src(s), "want": s["want"].encode("latin-1"), "got": mo}
    if want_rc(p) is not None and rc != want_rc(p):
        return {"what": "spec", "want_rc": want_rc(p)}
    return None


def needed_lets(p, i):
    """indices of the declarations before statement i whose variable it uses (transitively)"""
    import re
    need, text = [], stmt_src(p["stmts"][i])
    for j in range(i - 1, -1, -1):
        s = p["stmts"][j]
        if "let" in s and re.search(r"\b%s\b" % re.escape(s["let"]), text):
            need.append(j)
            text += " " + stmt_src(s)
    return sorted(need)


def locate(p, runner):
    """find single statements on which implementation, model and demanded output differ"""
    idx = [i for i, s in enumerate(p["stmts"]) if "fail" not in s and "ret" not in s]
    progs = [dict(p, stmts=[p["stmts"][j] for j in needed_lets(p, i)] + [p["stmts"][i]], ending="normal") for i in idx]
    ms = run_model([model_lines(q) for q in progs])
    outs = common.pmap(lambda q: runner.run_prog(q), progs)
    bad = []
    for i, q, m, o in zip(idx, progs, ms, outs):
        d = check_program(q, m, o)
        if d:
            bad.append((i, q, m, o, d))
    return bad


def decl_name(d):
    import re
    m = re.match(r"[^=;]*?(\w+)\s*[=;]", d)
    return m.group(1) if m else d


def shrink_stmt(q, runner):
    """drop declarations and functions that are not referenced while the disagreement persists"""
    used = " ".join(stmt_src(s) for s in q["stmts"])
    decls = [d for d in q["decls"] if decl_name(d) in used]
    env = [e for e in q["env"] if e[0].split("\x01")[0] in used]
    cand = dict(q, decls=decls, env=env)
    if q.get("top"):
        cand["top"] = prune_top(q["top"], used + " " + " ".join(d for d in decls if " func(" in d))
    m, = run_model([model_lines(cand)])
    o = runner.run_prog(cand)
    d = check_program(cand, m, o)
    if d and not d.get("what", "").startswith("model has no answer"):
        return cand
    return q


def shrink_program(p, runner):
    """whole-program disagreement: drop statements while implementation and model still differ; statements
    without a demanded output go first so that the property's own oracle can speak about the result"""
    def fails(q):
        m, = run_model([model_lines(q)])
        return check_program(q, m, runner.run_prog(q)) is not None
    cur = p
    special = lambda s: "fail" in s or "ret" in s
    cand = dict(p, stmts=[s for s in p["stmts"] if special(s) or s.get("want") is not None])
    if len(cand["stmts"]) < len(p["stmts"]) and fails(cand):
        cur = cand
    chunk = max(1, len(cur["stmts"]) // 2)
    budget = 80
    while chunk >= 1 and budget > 0:
        i, changed = 0, False
        while i < len(cur["stmts"]) and budget > 0:
            rest = cur["stmts"][:i] + cur["stmts"][i + chunk:]
            cand = dict(cur, stmts=rest)
            budget -= 1
            if rest and fails(cand):
                cur, changed = cand, True
            else:
                i += chunk
        if not changed:
            chunk //= 2
    return cur


def report_bad(rep, p, runner, origin):
    bad = locate(p, runner)
    if not bad:
        # only the whole program fails (ordering / flush / exit status)
        p = shrink_program(p, runner)
        m, = run_model([model_lines(p)])
        o = runner.run_prog(p)
        d = check_program(p, m, o) or {"what": "vanished on re-run"}
        wb = want_bytes(p)
        concrete = d.get("what") == "spec" or (wb is not None and (o[1] != wb or (want_rc(p) is not None and o[0] != want_rc(p))))
        rep.violation("prog", {"program": program_src(p), "desc": p, "impl_rc": o[0], "impl_stdout_hex": o[1].hex(),
                               "model": [m[0], (m[1] or b"").hex(), m[2]], "diff": {k: (v.hex() if isinstance(v, bytes) else v) for k, v in d.items()},
                               "origin": origin, "broken": "whole-program output (order / flush before exit / exit status)"},
                      "stdout or exit status of a %d-statement program (%s ending) differs from the model although every single statement agrees: %s"
                      % (len(p["stmts"]), p["ending"],
                         ("property demands stdout %r rc %s, implementation gives %r rc %d" % (wb[:100], want_rc(p), o[1][:100], o[0]))
                         if wb is not None else "no demanded output for some statement"), no_failing_input=not concrete)
        return
    for (i, q, m, o, d) in bad[:3]:
        q = shrink_stmt(q, runner)
        m, = run_model([model_lines(q)])
        o = runner.run_prog(q)
        d = check_program(q, m, o) or d
        w = want_bytes(q)
        concrete = w is not None and (o[1] != w or o[0] != want_rc(q))
        if w is None:
            verdict = "no documented reading for this statement; implementation and proved model differ"
        elif concrete:
            verdict = "property demands %r, implementation prints %r (rc %d)" % (w[:120], o[1][:120], o[0])
        else:
            verdict = "implementation agrees with the property's reading but not with the proved model (model prints %r)" % ((m[1] or b"")[:120],)
        rep.violation("stmt", {"program": program_src(q), "desc": q, "impl_rc": o[0], "impl_stdout_hex": o[1].hex(),
                               "impl_stderr": o[2], "model": [m[0], (m[1] or b"").hex(), m[2]],
                               "want_hex": None if w is None else w.hex(), "origin": origin, "verdict": verdict,
                               "broken": "correspondence Model.print_multiple = output_manager.cpp (carrier of every C16 theorem)"},
                      "%s: %s -> %s" % (q["stmts"][-1].get("kind"), stmt_src(q["stmts"][-1])[:140].encode("latin-1").decode("utf-8", "replace"), verdict),
                      no_failing_input=not concrete)


# ------------------------------------------------------------------ malformed literals
def malformed_cases(seed, n):
    out = []
    for k in range(n):
        rng = rng_for(seed, "c16-bad", k)
        g = Gen(rng, k)
        good = g.stmt_plain()
        t = rng.choice(["{v0", "v0}", "{v0} }", "a } b {v0}", "{v0:5", "{{v0}", "{v0}}", "{ {v0}", "${v0", "x{v0}y}z", "{v0:{}"])
        t = rand_text(rng, 3) + t
        bad = {"nl": 1, "args": [{"k": "Q", "text": t}], "want": None, "kind": "malformed"}
        out.append({"k": k, "decls": g.decls, "env": g.env, "stmts": [good, bad] if rng.random() < 0.5 else [bad, good],
                    "ending": "parse-error", "main": "void", "avoided": {}})
    return out


# ------------------------------------------------------------------ main
def tlog(t0, what):
    if os.environ.get("C16_TIMING"):
        common.log("[c16] %6.1fs %s" % (time.time() - t0, what))


def run(rep):
    seed, tier = rep.seed, rep.tier
    t0 = time.time()
    cq = common.coq_check_props(PROP)
    tlog(t0, "coq_check_props")
    common.proof_coverage(rep, cq)
    if not cq["ok"]:
        rep.violation("proof", {"theorem": cq["failed_theorem"], "log": cq["log"][-3000:]},
                      "proof obligation %s no longer checks" % cq["failed_theorem"], True)
    common.ensure_model(PROP)
    tlog(t0, "ensure_model")
    impl_dir = common.build_impl("plain")
    tlog(t0, "build_impl")
    runner = Runner(impl_dir)
    try:
        _run(rep, seed, tier, runner, t0)
    finally:
        runner.close()


def _run(rep, seed, tier, runner, t0=0):
    progs, origin = [], []
    corpus = os.path.join(common.VERIF, "corpus", "c16.json")
    if os.path.exists(corpus):
        for p in json.load(open(corpus)):
            progs.append(p); origin.append("corpus")
    seeds = [seed] if tier == "quick" else [seed, seed * 1000 + 1, seed * 1000 + 2, seed * 1000 + 3, seed * 1000 + 4]
    n_prog = 2200 if tier == "quick" else 3600
    n_stmts = 60 if tier == "quick" else 110
    for sd in seeds:
        for k in range(n_prog):
            progs.append(gen_program(sd, k, tier, n_stmts)); origin.append("generated")
    nbad = 60 if tier == "quick" else 400
    for p in malformed_cases(seed, nbad):
        progs.append(p); origin.append("malformed-literal")
    # big outputs crossing the stdio buffer several times, ending in an error
    for k in range(6 if tier == "quick" else 40):
        p = gen_program(seed * 7919 + 13, k, tier, 600)
        if p["ending"] == "normal":
            p["stmts"].insert(rng_for(seed, "c16-big", k).randint(300, 600), {"fail": FAILS[k % len(FAILS)]})
            p["ending"] = "error"
        progs.append(p); origin.append("big-then-error")

    for p in boundary_programs(seed, tier):
        progs.append(p); origin.append("size-boundaries")
    # rendering inside rendering: functions / methods that print and return interpolated strings, called from
    # {..} segments, print and printf arguments, %s interpolated literals, initialisers, call statements
    n_nest = 450 if tier == "quick" else 900
    for sd in seeds:
        for k in range(n_nest):
            progs.append(nested_program(sd, k, tier, 24 if tier == "quick" else 40)); origin.append("nested-rendering")
    for p in nested_malformed(seed, 20 if tier == "quick" else 100):
        progs.append(p); origin.append("malformed-literal")
    for sd in seeds:
        for p in position_programs(sd, tier):
            progs.append(p); origin.append("code-positions")
    fp, n_float = float_programs(seed, tier)
    for p in fp:
        progs.append(p); origin.append("float-grid")
    n_pairs = 0
    if tier == "thorough":
        gp, n_pairs = grid_programs(300)
        for p in gp:
            progs.append(p); origin.append("exhaustive-grid")

    tlog(t0, "generated %d programs" % len(progs))
    ms = run_model([model_lines(p) for p in progs])
    tlog(t0, "model")
    outs = common.pmap(lambda p: runner.run_prog(p), progs)
    tlog(t0, "implementation")

    hist, n_stmt, distinct, nontriv, kinds = {}, 0, set(), 0, {}
    nstat = {}
    want_checked = 0
    avoided = {}
    bad = []
    for p, o, m, impl in zip(progs, origin, ms, outs):
        hist[o] = hist.get(o, 0) + 1
        for kf, c in p.get("avoided", {}).items():
            avoided[kf] = avoided.get(kf, 0) + c
        for s in p["stmts"]:
            if "fail" in s or "ret" in s:
                continue
            n_stmt += 1
            kinds[s.get("kind")] = kinds.get(s.get("kind"), 0) + 1
            if s.get("want") is not None:
                want_checked += 1
            key = stmt_src(s)
            if key not in distinct:
                distinct.add(key)
                a = s.get("args")
                trivial = a is not None and len(a) == 1 and (a[0]["k"] in "IS" or (a[0]["k"] == "Q" and not any(c in a[0]["text"] for c in "{}%\\")))
                nontriv += 0 if trivial else 1
        if p.get("nested"):
            nested_stats(p, nstat)
        d = check_program(p, m, impl)
        if d:
            bad.append((p, o, d))
    endings = {}
    for p in progs:
        endings[p["ending"]] = endings.get(p["ending"], 0) + 1
    sample_p = progs[len(progs) // 3]
    sample_i = next((i for i, s in enumerate(sample_p["stmts"]) if s.get("kind") == "format"), 0)
    sm, = run_model([model_lines(sample_p, only={sample_i})])
    rep.coverage.update({
        "evaluations": n_stmt, "programs": len(progs), "distinct_nontrivial": nontriv,
        "rule": "stdout bytes + exit status of /repo's main vs the extracted Coq model (run_program) on the same generated program; "
                "additionally vs the output demanded by the property's own reading where one exists (%d statements). "
                "evaluations = print/println statements executed; distinct = distinct statement source texts; non-trivial = "
                "more than one argument, or a literal containing { } %% or a backslash (format path, interpolation, escapes, joining)" % want_checked,
        "exhaustive": tier == "thorough",
        "exhaustive_space": ("all %d pairs (printf shape or interpolation spec with width 0..20) x (boundary value) enumerated completely"
                             % n_pairs) if tier == "thorough" else "none in the quick tier (rotating sample of the grid)",
        "grid": "every (converter in d lld i u x X o) x (flags '', 0, -, -0, 00) x width 0..20 printf shape and every interpolation spec "
                "(N Nd 0N 0Nd Nx 0Nx NX 0NX Nb 0Nb) x width 0..20 is visited in rotation with boundary values (%d shapes, %d values: "
                "+-2^k+{-2..2}, type limits +-1, 10^k+-1)" % (len(GRID), len(POOL)),
        "size_boundaries": "rendered widths / string lengths %s around the 256-byte snprintf buffer + retry of render_formatted_string and the "
                           "4096-byte stdio buffer, through d lld u x X o (flags '' 0 -, both signs), %%s/%%c (ASCII and 2/3/4-byte UTF-8 payloads "
                           "ending at the boundary), {n:W} {n:0W} {n:Wx} {n:0WX} {n:0Wb}, plain/multi-argument println, long format literals"
                           % (BOUNDS_QUICK if tier == "quick" else BOUNDS_THOROUGH),
        "input_distribution": {"programs_by_origin": hist, "statements_by_kind": kinds, "program_endings": endings},
        "nested_rendering": {"what": "programs whose {..} segments, print/println arguments, printf arguments, %s interpolated literals, initialisers and call "
                                     "statements call functions / struct methods / a recursive function that print (plain, printf-style, interpolated) and "
                                     "return interpolated strings; depth = number of renderings in progress (1 = not nested)",
                             "call_instances": nstat.get("instances", 0),
                             "renderings_by_depth": {str(k_): v_ for k_, v_ in sorted(nstat.get("renderings_by_depth", {}).items())},
                             "inner_in_outer": nstat.get("inner_in_outer", {}),
                             "programs_by_max_depth": {str(k_): v_ for k_, v_ in sorted(nstat.get("programs_by_max_depth", {}).items())}},
        "code_positions": {"what": "where the executed print statements and interpolated literals of the nested-rendering and code-positions "
                                   "programs stand: kind of the enclosing function (plain, generic called with explicit / inferred type "
                                   "arguments = clone_ast_node'd body or not, async + await, default parameters omitted at the call, imported "
                                   "module, lambda, interface method of a struct / of the generic struct Box<T>), enclosing control-flow statement "
                                   "(block, if / else, for, while, switch, match arm with a bound value, defer), spelling of an interpolated literal "
                                   "as an expression (\"..\" + \"..\", parenthesised, declaration + assignment, const, +=, struct member)",
                           "call_instances_by_callee_kind": nstat.get("instances_by_callee_kind", {}),
                           "print_statements_by_callee_kind": nstat.get("print_statements_by_callee_kind", {}),
                           "formatted_segments_by_callee_kind": nstat.get("formatted_segments_by_callee_kind", {}),
                           "print_statements_by_enclosing_statement": nstat.get("print_statements_by_enclosing_statement", {}),
                           "control_statements_run": nstat.get("control_statements_run", {}),
                           "literal_spellings": nstat.get("literal_spellings", {}),
                           "position_grid": "every rendering form (13 interpolation specs, {{ }} $, printf directives d lld x X o u s c %% with "
                                            "flags and width, pre-arguments + format literal, escaped literal, print / empty println) in each of "
                                            "%d positions x %d boundary values, called directly and from inside an interpolated literal: %s"
                                            % (len(POSITIONS), 3 if tier == "quick" else 24, ", ".join(POSITIONS))},
        "float_grid": "{x:[W].Nf} and {x}: %d (value, sign, precision) triples of %d decimal literals (ties, values just off a tie, carries, "
                      "magnitudes 1e-308..1.8e308) x 2 signs x precisions 0..20 25 30 40 (%s), plus doubles / a float variable / double parameters "
                      "inside the nested-rendering programs" % (n_float, len(FLOAT_LITS), "complete grid" if tier == "thorough" else "a rotating third of the grid"),
        "avoided_known_findings": avoided,
        "samples": [{"statement": stmt_src(sample_p["stmts"][sample_i]).encode("latin-1").decode("utf-8", "replace"),
                     "model_stdout": (sm[1] or b"").decode("utf-8", "replace")},
                    {"program_ending": progs[-1]["ending"], "statements": len(progs[-1]["stmts"]),
                     "stdout_bytes": len(outs[-1][1]), "rc": outs[-1][0]}],
        "disagreements": len(bad),
    })
    # report: single statements first (shrunk), at most a few programs
    bad.sort(key=lambda b: (b[2].get("what") != "spec", 1 if b[0].get("nested") else 0, len(b[0]["stmts"])))
    for (p, o, d) in bad[:4]:
        report_bad(rep, p, runner, o)

    tlog(t0, "compared")
    known_findings_replay(rep, runner)
    if tier == "thorough":
        ok, txt = common.coqchk(PROP)
        rep.coverage["coqchk"] = {"ok": ok, "context_summary": txt[-700:]}
        if not ok:
            rep.violation("coqchk", {"log": txt[-3000:]}, "coqchk rejects the compiled closure of Properties_C16", True)
    rep.assumptions += [
        "the model is tied to output_manager.cpp / evaluator.cpp / the parser by differential testing, not proof",
        "expressions inside {...} and integer arguments are evaluated by the harness (variables, literals, + - * on small ints), not by the model",
        "%f / %p, printf precision and the flags + space # are outside the model and never generated ({x:.Nf} of doubles is modelled: FloatFmt.v)",
        "values of type char/bool/struct/array/pointer are not printed by the generated programs",
        "control flow is flattened by the harness (it knows the branch taken and the iteration count); the model receives scope tokens "
        "(COpen / CClose / CDefer of Contexts.v), not conditions",
        "function kinds (generic, async, lambda, module, default parameters, methods) differ in the generated source only: for the model a call is a call instance",
        "generated positions avoid defects of other features: async bodies are straight-line and call nothing, lambdas take integers and are not "
        "called inside another call's arguments, no deferred statement mentions self, T is not inferred from a string literal, "
        "no ?: / array literal / struct literal / string parameter takes an interpolated literal (known findings)",
    ]


def known_findings_replay(rep, runner):
    for f in common.known_findings(PROP):
        r = f["replay"]
        src = r["program"]
        rc, out, err = runner.run(src)
        demanded = r["expected_stdout"].encode("latin-1")
        if out != demanded:
            rep.known(f["id"], f["what_fails"])
        else:
            rep.notes.append("known finding %s no longer reproduces (fixed?)" % f["id"])
        # the model must still describe what the implementation does on the replay
        if "model_lines" in r:
            m, = run_model([r["model_lines"]])
            if m[0] != "ok" or m[1] != out:
                rep.violation("corr-known", {"program": src, "impl_stdout_hex": out.hex(), "model": [m[0], (m[1] or b"").hex()],
                                             "finding": f["id"]},
                              "model and implementation disagree on the replay of known finding " + f["id"],
                              no_failing_input=(out == demanded))


def replay(path):
    data = json.load(open(path))
    c = data["case"]
    common.ensure_model(PROP)
    runner = Runner(common.build_impl("plain"))
    try:
        if "desc" in c:
            p = c["desc"]
            m, = run_model([model_lines(p)])
            o = runner.run_prog(p)
            print(program_src(p).encode("latin-1").decode("utf-8", "replace"))
            print("impl : rc=%d stdout=%r" % (o[0], o[1]))
            print("model: %s stdout=%r failed=%s" % (m[0], m[1], m[2]))
            w = want_bytes(p)
            print("demanded by the property: %r" % (w,))
            return 1 if check_program(p, m, o) else 0
        print(json.dumps(c, indent=1))
        return 1
    finally:
        runner.close()
