"""C16 - print/println/format strings and string interpolation render values exactly.

Theorems: coq/C16/Properties_C16.v (decimal/hex/octal/binary round trips for every integer, canonical
form, pad length, sign-first zero padding of printf, %% literal, the interpolation splitter partitions
the literal for every byte string, {{ }} literal, single-space joining, output in order up to an error
exit; two laws refuted on the faithful model = known findings; three former findings repaired in /repo and proved).
Tie: generated Cb programs (declarations + print/println statements + optionally a failing statement)
are run on /repo's binary; the extracted model (bin/c16_model) is given the same statements; stdout
bytes are compared.  Independently every statement carries the output the property's own reading
demands (Python's C-compatible % formatting), compared with the implementation as well.
All text is handled as latin-1 str (one char = one byte) so that arbitrary bytes survive JSON.
"""
import json
import os
import shutil
import subprocess
import tempfile

import common
from common import rng_for

PROP = "C16"
LEVEL = "proof"
META = {
    "category": "proof",
    "technique": "Coq proofs about a function-by-function Gallina model of output_manager.cpp / the interpolation "
                 "splitter / format_interpolated_value + extracted-model differential run of generated programs against main (stdout bytes)",
    "text": "Machine-checked theorems for all integers / all byte strings about a Gallina model of print_multiple, "
            "render_formatted_string (printf subset %d %i %lld %u %x %X %o %c %s %% with flags 0 - and width), "
            "process_escape_sequences, the lexer's interpolation detection, parseInterpolatedString and "
            "format_interpolated_value: decimal/hex/octal/binary renderings parse back to the value (mod 2^64 for the "
            "unsigned views), decimal output is canonical, padded length = max(width, digits), printf and {n:0N} zero "
            "padding keep the sign first, %% gives %, the splitter's segments re-assemble to the literal for every byte string, "
            "{{ }} give braces, text outside braces is byte-identical, arguments are joined by single spaces, output "
            "appears in statement order up to an error exit; a plain literal prints its escape-processed text alone or "
            "among several arguments; only an odd run of backslashes hides a directive. Two laws are refuted on the "
            "faithful model (known findings: %c of a 0 byte prints the decimal number, escapes are processed after "
            "substitution); three former findings are repaired in /repo (4cd822e, 033c981, 475de81) and now proved. "
            "On every run the extracted model and /repo's binary are run on "
            "the same generated programs (values at and around every power of two and integer type limit through every "
            "converter, widths 0-20, arities 1-6, ASCII/UTF-8/raw high bytes, programs that fail after printing) and "
            "stdout bytes are compared; the output demanded by the property's own reading is compared as well.",
    "note": "Trusted: Coq kernel (vm_compute for the refutation witnesses and a 16-digit table), no axioms "
            "(Print Assumptions: closed); extraction via ExtrOcamlBasic+ExtrOcamlString; the model is hand-written and "
            "tied to the code by differential testing only. Outside the model: floating point (%f, :.Nf), %p, printf "
            "precision and the flags + space #, values of type char/bool/struct/array/pointer, widths above ~10^3; "
            "expressions inside {...} are evaluated by the harness (small core-grammar expressions), not by the model.",
}

I64MIN, I64MAX = -2 ** 63, 2 ** 63 - 1
M64 = 2 ** 64
TYPES = [("tiny", -128, 127), ("short", -32768, 32767), ("int", -2 ** 31, 2 ** 31 - 1), ("long", I64MIN, I64MAX),
         ("unsigned tiny", 0, 255), ("unsigned short", 0, 65535), ("unsigned int", 0, 2 ** 32 - 1),
         ("unsigned long", 0, I64MAX)]


def boundary_values():
    vs = set()
    for k in range(0, 64):
        for s in (1, -1):
            for d in (-2, -1, 0, 1, 2):
                vs.add(s * 2 ** k + d)
    for _, lo, hi in TYPES:
        for d in (-1, 0, 1):
            vs.add(lo + d); vs.add(hi + d)
    for k in range(1, 20):
        for d in (-1, 0, 1):
            vs.add(10 ** k + d); vs.add(-(10 ** k) + d)      # digit-count boundaries
    return sorted(v for v in vs if I64MIN <= v <= I64MAX)


POOL = boundary_values()


def lit(v):
    """source text of an integer constant expression"""
    if v == I64MIN:
        return "(-9223372036854775807 - 1)"
    return str(v) if v >= 0 else "-%d" % (-v)


# ------------------------------------------------------------------ text generators
ASCII_SAFE = "".join(chr(c) for c in range(32, 127) if chr(c) not in '"\\{}%$')
UTF8_SAMPLES = ["é", "ü", "ß", "日本語", "한", "Ж", "→", "€", "😀", "𝄞", " ", "߿", "ࠀ", "￿", "\U00010000"]


def rand_text(rng, maxlen=8, allow=""):
    """bytes (as latin-1 str) free of the metacharacters under test unless listed in `allow`"""
    n = rng.randint(0, maxlen)
    out = []
    for _ in range(n):
        r = rng.random()
        if r < 0.70:
            out.append(rng.choice(ASCII_SAFE + allow * 3))
        elif r < 0.93:
            out.append(rng.choice(UTF8_SAMPLES).encode("utf-8").decode("latin-1"))
        elif r < 0.96:
            out.append(chr(rng.randint(0x80, 0xff)))            # raw high byte, not valid UTF-8 on its own
        else:
            out.append(rng.choice([" ", "  ", "\t"]))
    return "".join(out)


def hexs(s):
    return s.encode("latin-1").hex()


# ------------------------------------------------------------------ the property's own reading (independent of the model)
def c_int_directive(conv, flags, width, v):
    """what C printf prints for %<flags><width><conv> with a 64-bit argument"""
    minus = "-" in flags
    zero = "0" in flags and not minus
    f = "%" + ("-" if minus else "") + ("0" if zero else "") + (str(width) if width else "")
    if conv in ("d", "i", "lld", "ld"):
        return (f + "d") % v
    u = v % M64
    if conv == "u":
        return (f + "d") % u
    return (f + conv) % u


def c_str_directive(flags, width, body):
    return body.ljust(width) if "-" in flags else body.rjust(width)


def spec_escape(t):
    """documented escapes of a string literal; None when there is no reading (NUL, unknown escape)"""
    out, i = [], 0
    while i < len(t):
        if t[i] == "\\":
            if i + 1 >= len(t):
                return None
            m = {"n": "\n", "t": "\t", "r": "\r", "\\": "\\", "%": "%"}.get(t[i + 1])
            if m is None:
                return None
            out.append(m); i += 2
        else:
            out.append(t[i]); i += 1
    return "".join(out)


def spec_interp_value(v, spec):
    """documented rendering of {expr:spec}; None = no documented reading"""
    if isinstance(v, str):
        return v if spec in (None, "") else None
    if spec in (None, "", "d"):
        return str(v)
    u = v % M64
    if spec == "x":
        return "%x" % u
    if spec == "X":
        return "%X" % u
    if spec == "b":
        return bin(u)[2:]
    zero = spec.startswith("0")
    body = spec[1:] if zero else spec
    tc = ""
    if body and body[-1] in "dxXb":
        tc, body = body[-1], body[:-1]
    if not body.isdigit():
        return None
    w = int(body)
    if tc in ("", "d"):
        return ("%0" + str(w) + "d") % v if zero and w > 0 else str(v).rjust(w)
    if tc in ("x", "X"):
        s = ("%" + tc) % u
        return s.zfill(w) if zero else s.rjust(w)
    if tc == "b":
        return bin(u)[2:].zfill(w) if zero else None          # {n:Nb} without 0: not documented
    return None


# ------------------------------------------------------------------ program generation
class Gen:
    def __init__(self, rng, k, big=False):
        self.rng = rng
        self.k = k
        self.decls = []          # source lines
        self.env = []            # [expr text, "I"/"S", value]
        self.ints = []           # (name, value)
        self.strs = []           # (name, text)
        self.small = []          # (name, value) small ints for arithmetic inside {...}
        self.stmts = []
        self.avoided = {}
        self.setup(big)

    def pick_value(self, j):
        r = self.rng.random()
        if r < 0.7:
            return POOL[(self.k * 7 + j * 131 + self.rng.randint(0, 2)) % len(POOL)]
        if r < 0.85:
            return self.rng.randint(I64MIN, I64MAX)
        return self.rng.randint(-300, 300)

    def setup(self, big):
        rng = self.rng
        for j in range(8):
            v = self.pick_value(j)
            fits = [t for t, lo, hi in TYPES if lo <= v <= hi]
            t = rng.choice(fits)
            name = "v%d" % j
            self.decls.append("%s %s = %s;" % (t, name, lit(v)))
            self.ints.append((name, v))
            self.env.append([name, "I", v])
        for j in range(3):
            v = rng.randint(-999, 999)
            name = "k%d" % j
            self.decls.append("int %s = %s;" % (name, lit(v)))
            self.small.append((name, v))
            self.env.append([name, "I", v])
        for j in range(3):
            txt = rand_text(rng, 6)
            name = "s%d" % j
            self.decls.append('string %s = "%s";' % (name, txt))
            self.strs.append((name, txt))
            self.env.append([name, "S", txt])

    # ---- arguments
    def int_arg(self):
        rng = self.rng
        r = rng.random()
        if r < 0.6:
            n, v = rng.choice(self.ints)
            return {"k": "I", "v": v, "src": n}
        if r < 0.8:
            v = self.pick_value(rng.randint(0, 50))
            return {"k": "I", "v": v, "src": lit(v)}
        e, v = self.small_expr()
        return {"k": "I", "v": v, "src": e}

    def small_expr(self):
        rng = self.rng
        (a, va), (b, vb) = rng.choice(self.small), rng.choice(self.small)
        c = rng.randint(0, 99)
        return rng.choice([
            ("%s + %s" % (a, b), va + vb), ("%s - %s" % (a, b), va - vb), ("%s * %s" % (a, b), va * vb),
            ("(%s + %d) * %s" % (a, c, b), (va + c) * vb), ("%s+%d" % (a, c), va + c), ("-%s" % a, -va),
            ("%s * %d - %s" % (a, c, b), va * c - vb), (" %s " % a, va), ("%d" % c, c)])

    def str_arg(self):
        n, t = self.rng.choice(self.strs)
        return {"k": "S", "v": t, "src": n}

    def interp_literal(self, maxseg=5, want_spec=True):
        """an interpolated literal: (token text, demanded text or None, known-finding id or None)"""
        rng = self.rng
        parts, want, ok, n_expr = [], [], True, 0
        for _ in range(rng.randint(1, maxseg)):
            r = rng.random()
            if r < 0.30:
                t = rand_text(rng, 5, allow="%")
                parts.append(t); want.append(t)
            elif r < 0.38:
                parts.append("{{"); want.append("{")
            elif r < 0.46:
                parts.append("}}"); want.append("}")
            else:
                n_expr += 1
                rr = rng.random()
                if rr < 0.55:
                    e, v = rng.choice(self.ints)
                elif rr < 0.8:
                    e, v = self.small_expr()
                    if [e, "I", v] not in self.env:
                        self.env.append([e, "I", v])
                else:
                    e, v = rng.choice(self.strs)
                spec = None
                if not isinstance(v, str) and rng.random() < 0.75:
                    w = rng.randint(0, 22) if rng.random() > 0.02 else rng.choice([255, 256, 257, 300, 1024])
                    spec = rng.choice(["x", "X", "b", "d", "%d" % w, "%dd" % w, "0%d" % w, "0%dd" % w, "%dx" % w,
                                       "0%dx" % w, "0%dX" % w, "0%db" % w, "%db" % w, "%dX" % w, ""])
                dollar = "$" if rng.random() < 0.12 else ""
                parts.append(dollar + "{" + e + ("" if spec is None else ":" + spec) + "}")
                w_ = spec_interp_value(v, spec)
                if w_ is None:
                    ok = False
                want.append(w_ or "")
        if n_expr == 0 and not any(p in ("{{",) for p in parts):
            e, v = rng.choice(self.ints)
            parts.append("{" + e + "}"); want.append(str(v))
        return "".join(parts), ("".join(want) if ok else None)

    # ---- statements
    def stmt_plain(self):
        """println/print of 1..6 arguments without a format literal"""
        rng = self.rng
        n = rng.choice([1, 1, 2, 2, 3, 4, 5, 6])
        args, want, ok = [], [], True
        for _ in range(n):
            r = rng.random()
            if r < 0.45:
                a = self.int_arg(); args.append(a); want.append(str(a["v"]))
            elif r < 0.6:
                a = self.str_arg(); args.append(a); want.append(a["v"])
            elif r < 0.8:
                t = rand_text(rng, 8, allow="}" if rng.random() < 0.1 else "")
                if rng.random() < 0.3:      # escapes are processed in every plain literal (since fix 033c981)
                    t += rng.choice(["\\n", "\\t", "\\\\", "\\%", "\\r", "\\\\\\n"]) + rand_text(rng, 2)
                if n == 1 and rng.random() < 0.2:
                    t += rng.choice(["%", "100% x", "%d", "%%", "\\\\%d"])     # single literal: % is literal
                args.append({"k": "Q", "text": t})
                w_ = spec_escape(t)
                if w_ is None or "}" in t:
                    ok = False
                want.append(w_ or "")
            else:
                t, w_ = self.interp_literal()
                args.append({"k": "Q", "text": t})
                if w_ is None:
                    ok = False
                want.append(w_ or "")
        nl = 1 if rng.random() < 0.85 else 0
        # a string literal with a directive would turn the statement into a format statement
        if n > 1 and any(a["k"] == "Q" and not has_brace(a["text"]) and detects_format(a["text"]) for a in args):
            ok = False
        return {"nl": nl, "args": args, "want": (" ".join(want) + ("\n" if nl else "")) if ok else None, "kind": "plain"}

    def directive(self):
        """one printf directive with its argument: (text, arg or None, demanded text or None)"""
        rng = self.rng
        conv = rng.choice(["d", "d", "d", "lld", "lld", "i", "ld", "u", "x", "X", "o", "c", "s", "s", "%"])
        if conv == "%":
            return "%%", None, "%"
        flags = rng.choice(["", "", "", "0", "0", "-", "-0", "0-", "00", "--"])
        width = rng.choice([0, 0] + list(range(0, 23)))
        if rng.random() < 0.02:      # now and then a rendering beyond the 256-byte first buffer of the snprintf helper
            width = rng.choice([255, 256, 257, 300, 1024])
        wtxt = str(width) if (width or rng.random() < 0.2) else ""
        if wtxt == "0" and flags == "":
            wtxt = ""
        text = "%" + flags + wtxt + conv
        if conv == "c":
            if rng.random() < 0.5:
                v = rng.choice([rng.randint(33, 126), rng.randint(1, 255), rng.randint(-300, 70000)])
                while v % 256 == 0 or v % 256 == 92:
                    fid = "C16-percent-c-nul" if v % 256 == 0 else "C16-escapes-after-substitution"
                    self.avoided[fid] = self.avoided.get(fid, 0) + 1
                    v += 1
                arg = {"k": "I", "v": v, "src": lit(v)}
                body = chr(v % 256)
            else:
                arg = self.str_arg()
                while arg["v"] == "":
                    t = rand_text(rng, 4) or "q"
                    arg = {"k": "Q", "text": t, "v": t}
                body = arg["v"][0]
            return text, arg, c_str_directive(flags, width, body)
        if conv == "s":
            r = rng.random()
            if r < 0.4:
                arg = self.str_arg(); body = arg["v"]
            elif r < 0.7:
                t = rand_text(rng, 6)
                arg = {"k": "Q", "text": t}; body = t
            elif r < 0.85:
                t, w_ = self.interp_literal(3)
                arg = {"k": "Q", "text": t}; body = w_
            else:
                arg = self.int_arg(); body = str(arg["v"])
            return text, arg, (None if body is None else c_str_directive(flags, width, body))
        arg = self.int_arg()
        return text, arg, c_int_directive(conv, flags, width, arg["v"])

    def stmt_format(self):
        rng = self.rng
        pre, pre_want = [], []
        for _ in range(rng.choice([0, 0, 0, 1, 2])):
            if rng.random() < 0.6:
                a = self.int_arg(); pre.append(a); pre_want.append(str(a["v"]))
            else:
                t = (rand_text(rng, 5) or "w") + (rng.choice(["\\t", "\\\\", "\\%", "\\n"]) if rng.random() < 0.25 else "")
                pre.append({"k": "Q", "text": t}); pre_want.append(spec_escape(t))
        nd = rng.randint(1, max(1, 5 - len(pre)))
        fmt, fargs, want, ok = [], [], [], True
        for _ in range(nd):
            t = rand_text(rng, 4)
            if rng.random() < 0.15:
                # escapes, among them runs of escaped backslashes directly before the directive (since fix 475de81
                # an even run leaves the directive active)
                t += rng.choice(["\\n", "\\t", "\\%", "\\\\", "\\\\\\\\", "\\\\\\%", "\\%\\\\"])
            fmt.append(t); want.append(spec_escape(t) or "")
            if spec_escape(t) is None:
                ok = False
            d, a, w_ = self.directive()
            fmt.append(d)
            if a is not None:
                fargs.append(a)
            if w_ is None:
                ok = False
            want.append(w_ or "")
        tail = rand_text(rng, 3)
        fmt.append(tail); want.append(tail)
        ftxt = "".join(fmt)
        # arity games: too few / extra arguments (outside the documented reading)
        r = rng.random()
        if r < 0.06 and fargs:
            fargs = fargs[:-1]; ok = False
        elif r < 0.14:
            fargs.append(self.int_arg()); ok = False
        nl = 1 if rng.random() < 0.85 else 0
        args = pre + [{"k": "Q", "text": ftxt}] + fargs
        if len(args) == 1:
            ok = False      # a single literal is printed as it is (documented by tests/cases/printf/basic_format.cb)
        if not detects_format(ftxt) or any(a["k"] == "Q" and detects_format(a["text"]) for a in pre):
            ok = False      # %x/%u/%i/%o/flagged directives alone are not recognised as a format string
        w = None
        if ok:
            w = " ".join(pre_want + ["".join(want)]) + ("\n" if nl else "")
        return {"nl": nl, "args": args, "want": w, "kind": "format"}

    def stmt_interp(self):
        rng = self.rng
        t, w_ = self.interp_literal(6)
        nl = 1 if rng.random() < 0.9 else 0
        return {"nl": nl, "args": [{"k": "Q", "text": t}], "kind": "interp",
                "want": None if w_ is None else w_ + ("\n" if nl else "")}

    def stmt_quirk(self):
        """statements inside the domains of the known findings and other undocumented corners: no demanded
        output, only the model (which mirrors the code there, see the _refuted theorems) is compared"""
        rng = self.rng
        r = rng.randint(0, 9)
        n, v = rng.choice(self.ints)
        if r == 0:      # zero padding of any value, negative ones included (repaired by 4cd822e: has a demanded output)
            sp = rng.choice(["0%d", "0%dd"]) % rng.randint(0, 24)
            return {"nl": 1, "args": [{"k": "Q", "text": "<{%s:%s}>" % (n, sp)}], "kind": "quirk",
                    "want": "<" + spec_interp_value(v, sp) + ">\n"}
        elif r == 1:    # %c of any value, with flags
            cv = rng.choice([0, 256, -256, 65536, rng.randint(-1000, 1000)])
            args = [{"k": "Q", "text": "[%" + rng.choice(["", "-", "0"]) + rng.choice(["", "3", "7"]) + "c|%d]"},
                    {"k": "I", "v": cv, "src": lit(cv)}, {"k": "I", "v": 1, "src": "1"}]
        elif r == 2:    # escapes in a literal that is one of several arguments
            t = rand_text(rng, 3) + rng.choice(["\\n", "\\t", "\\\\", "\\%", "\\r", "\\q"]) + rand_text(rng, 3)
            args = [{"k": "Q", "text": t}, self.int_arg()]
            if rng.random() < 0.5:
                args.reverse()
        elif r == 3:    # escapes in an interpolated literal
            t = rand_text(rng, 3) + rng.choice(["\\n", "\\t", "\\\\", "\\%"]) + "{" + n + "}" + rand_text(rng, 2)
            args = [{"k": "Q", "text": t}]
        elif r == 4:    # escaped backslash / escaped percent next to a directive
            t = rand_text(rng, 2) + rng.choice(["\\\\%d", "\\%%d", "\\\\%%", "%\\%d", "\\%d%d", "\\\\\\%d"]) + "|" + rand_text(rng, 2)
            args = [{"k": "Q", "text": t}, self.int_arg()] + ([self.int_arg()] if rng.random() < 0.5 else [])
        elif r == 5:    # NUL escape, unknown escapes, trailing text after them
            t = rand_text(rng, 3) + rng.choice(["\\0", "\\q", "\\'", "\\a"]) + rand_text(rng, 3)
            args = [{"k": "Q", "text": t}] + ([{"k": "Q", "text": "%d"}, self.int_arg()] if rng.random() < 0.3 else [])
        elif r == 6:    # '$' in all positions
            t = rng.choice(["$", "a$b", "$$", "${{", "$${%s}" % n, "${%s}$" % n, "{%s}$x" % n, "$ {%s}" % n, "{{$}}", "$}}"])
            args = [{"k": "Q", "text": t}]
        elif r == 7:    # directives that are not recognised on their own / unknown conversions / missing and extra arguments
            t = rng.choice(["%x", "%u", "%i", "%o", "%X", "%-5d", "%+d", "%q %d", "%5", "%d %", "%d %5", "%l", "%ll", "%d%lld%ld",
                            "%5%|%d", "%hd %d", "%z%d", "100%_sure %d", "%", "%%", "%d%%", "%5s|%-5s|%05s"])
            args = [{"k": "Q", "text": t}] + [self.int_arg() for _ in range(rng.randint(0, 3))]
        elif r == 8:    # braces that do not interpolate, width/spec corners
            t = rng.choice(["}}", "a}}b", "}", "{{", "{{}}", "{%s:}" % n, "{%s:0}" % n, "{%s:00}" % n, "{%s:007}" % n, "{%s:5q}" % n,
                            "{%s:-5}" % n, "{%s:+5}" % n, "{%s: 5}" % n, "{%s:5 }" % n, "{%s:.3}" % n, "{%s:8.3f}" % n, "{%s:x5}" % n,
                            "{%s:5:x}" % n, "{%s:o}" % n, "{%s:5b}" % n, "{ %s }" % n, "{%s :3}" % n])
            for key in (" %s " % n, "%s " % n):
                if [key, "I", v] not in self.env:
                    self.env.append([key, "I", v])
            args = [{"k": "Q", "text": t}]
        else:           # string values through the integer converters and vice versa
            sn, sv = rng.choice(self.strs)
            t = rng.choice(["[%d|%s]", "[%5d|%-6s]", "[%x|%c]", "[%s|%s|%d]"])
            args = [{"k": "Q", "text": t}, {"k": "S", "v": sv, "src": sn}, rng.choice([self.int_arg(), {"k": "S", "v": sv, "src": sn}])]
            if t.count("%") == 3:
                args.append(self.int_arg())
        return {"nl": 1, "args": args, "want": None, "kind": "quirk"}

    def stmt_grid(self, idx):
        """systematic sweep: every (converter, flags, width 0..20) shape with a pool value"""
        rng = self.rng
        shapes = GRID
        shape = shapes[idx % len(shapes)]
        v = POOL[(idx // len(shapes) * 37 + idx * 11 + rng.randint(0, 5)) % len(POOL)]
        name = None
        for n_, v_ in self.ints:
            if rng.random() < 0.3:
                name, v = n_, v_
                break
        return self.stmt_grid_exact(shape, v, name)

    def stmt_grid_exact(self, shape, v, name=None):
        kind, a, b, w = shape
        src = name or lit(v)
        if kind == "printf":
            conv, flags = a, b
            text = "%" + flags + (str(w) if w else "") + conv
            ftxt = "[" + text + "|%d]"
            want = "[" + c_int_directive(conv, flags, w, v) + "|7]\n"
            return {"nl": 1, "args": [{"k": "Q", "text": ftxt}, {"k": "I", "v": v, "src": src}, {"k": "I", "v": 7, "src": "7"}],
                    "want": want, "kind": "grid-printf"}
        spec = a.replace("N", str(w))
        e = src
        if [e, "I", v] not in self.env:
            self.env.append([e, "I", v])
        w_ = spec_interp_value(v, spec)
        return {"nl": 1, "args": [{"k": "Q", "text": "<{" + e + ":" + spec + "}>"}],
                "want": None if w_ is None else "<" + w_ + ">\n", "kind": "grid-interp"}


GRID = [("printf", conv, flags, w) for conv in ["d", "lld", "i", "u", "x", "X", "o"]
        for flags in ["", "0", "-", "-0", "00"] for w in range(0, 21)] + \
       [("interp", sp, None, w) for sp in ["N", "Nd", "0N", "0Nd", "Nx", "0Nx", "NX", "0NX", "Nb", "0Nb"] for w in range(0, 21)]


def has_brace(t):
    return "{" in t


def detects_format(t):
    """independent re-statement of which literals Cb treats as a printf format (documented directives
    %d %s %c %lld %% after an optional all-digit width; an odd run of backslashes before the % hides it)"""
    i = 0
    while i < len(t):
        nb = 0
        while nb < i and t[i - 1 - nb] == "\\":
            nb += 1
        if t[i] == "%" and nb % 2 == 0:
            j = i + 1
            while j < len(t) and t[j] in "0123456789":
                j += 1
            if j < len(t) and (t[j] in "dscpf%" or t[j:j + 3] == "lld"):
                return True
        i += 1
    return False


FAILS = ["int zz_ = 0; int qq_ = 5 / zz_;", "int[3] arr_; arr_[5] = 1;", "assert(1 == 2);", "tiny tt_ = 300;",
         "int qq_ = undefined_fn_(3);", "int* pp_ = nullptr; int qq_ = *pp_;",
         'string ss_ = "abc"; println(ss_[10]);', "int zz_ = 0; int qq_ = 5 % zz_;"]


def gen_program(seed, k, tier, n_stmts):
    rng = rng_for(seed, "c16-prog", k)
    g = Gen(rng, k)
    stmts = []
    for j in range(n_stmts):
        r = rng.random()
        if r < 0.07:
            stmts.append(g.stmt_quirk())
        elif r < 0.32:
            stmts.append(g.stmt_grid(k * n_stmts + j))
        elif r < 0.52:
            stmts.append(g.stmt_plain())
        elif r < 0.78:
            stmts.append(g.stmt_format())
        else:
            stmts.append(g.stmt_interp())
    ending = "normal"
    r = rng.random()
    if r < 0.35:
        pos = rng.randint(0, len(stmts))
        stmts.insert(pos, {"fail": rng.choice(FAILS)})
        ending = "error"
    elif r < 0.42:
        pos = rng.randint(0, len(stmts))
        stmts.insert(pos, {"ret": 1})
        ending = "return"
    return {"k": k, "decls": g.decls, "env": g.env, "stmts": stmts, "ending": ending,
            "main": rng.choice(["void", "int"]), "avoided": g.avoided}


def grid_programs(per_prog):
    """the complete grid: every directive / spec shape x every boundary value, in order"""
    pairs = [(sh, v) for sh in GRID for v in POOL]
    out = []
    for k in range(0, len(pairs), per_prog):
        g = Gen(rng_for(0, "c16-grid", k), k)
        g.decls, g.env = [], []
        stmts = [g.stmt_grid_exact(sh, v) for sh, v in pairs[k:k + per_prog]]
        out.append({"k": k, "decls": [], "env": g.env, "stmts": stmts, "ending": "normal", "main": "void",
                    "avoided": g.avoided})
    return out, len(pairs)


# ------------------------------------------------------------------ size boundaries
# Thresholds in the code: render_formatted_string's snprintf helper has a 256-byte first buffer and a retry with
# written+1 bytes (output_manager.cpp:format_with_snprintf); stdout is a 4096-byte stdio buffer when piped
# (native_stdio_output.cpp: putchar/fputs, flushed in main.cpp); write_number has a 32-byte buffer (an int64 needs 21);
# format_interpolated_value uses a stringstream and an `int width` (no fixed buffer); write_formatted's 4096-byte
# buffer is not on any print path.  Everything is exercised at L-1, L, L+1 (and L+2 for 256).
BOUNDS_QUICK = [254, 255, 256, 257, 258, 511, 512, 513, 1023, 1024, 1025, 4095, 4096, 4097, 8191, 8192, 8193]
BOUNDS_THOROUGH = BOUNDS_QUICK + [16383, 16384, 16385, 65535, 65536, 65537]


def payload(kind, L):
    """exactly L bytes (latin-1 str): ASCII, or UTF-8 whose last multi-byte character ends at byte L"""
    if kind == "ascii":
        return "".join(chr(97 + i % 26) for i in range(L))
    ch = {"utf8-2": "é", "utf8-3": "日", "utf8-4": "𝄞"}[kind].encode("utf-8").decode("latin-1")
    n = L // len(ch)
    return "x" * (L - n * len(ch)) + ch * n


def boundary_programs(seed, tier):
    bounds = BOUNDS_QUICK if tier == "quick" else BOUNDS_THOROUGH
    rng = rng_for(seed, "c16-bounds", tier)
    stmts, decls, env = [], [], []
    svars = {}

    def strvar(kind, L):
        key = (kind, L)
        if key not in svars:
            name = "b%d" % len(svars)
            svars[key] = name
            decls.append('string %s = "%s";' % (name, payload(kind, L)))
            env.append([name, "S", payload(kind, L)])
        return {"k": "S", "v": payload(kind, L), "src": svars[key]}

    def val(neg):
        v = rng.choice([7, 255, 65536, 2 ** 31, 2 ** 40 + 3, I64MAX, rng.randint(1, I64MAX)])
        return -v if neg else v

    seven = {"k": "I", "v": 7, "src": "7"}
    for W in bounds:
        # A. integer directives whose rendering is W bytes
        for conv in ["d", "lld", "u", "x", "X", "o"]:
            for flags in ["", "0", "-"]:
                for neg in (False, True):
                    v = val(neg)
                    stmts.append({"nl": 1, "kind": "bound-printf",
                                  "args": [{"k": "Q", "text": "[%" + flags + str(W) + conv + "|%d]"}, {"k": "I", "v": v, "src": lit(v)}, seven],
                                  "want": "[" + c_int_directive(conv, flags, W, v) + "|7]\n"})
        # B. %s with a payload of W bytes (no width, width W+2 either side), literal and variable
        for i, kind in enumerate(["ascii", "utf8-2", "utf8-3", "utf8-4"]):
            for j, (flags, w) in enumerate([("", 0), ("-", W + 2), ("", W + 2), ("", 3)]):
                pl = payload(kind, W)
                a = {"k": "Q", "text": pl} if (i + j) % 2 else strvar(kind, W)
                stmts.append({"nl": 1, "kind": "bound-s",
                              "args": [{"k": "Q", "text": "<%" + flags + (str(w) if w else "") + "s|%d>"}, a, seven],
                              "want": "<" + c_str_directive(flags, w, pl) + "|7>\n"})
        # a short payload padded to W by the width
        for flags in ["", "-"]:
            stmts.append({"nl": 1, "kind": "bound-s",
                          "args": [{"k": "Q", "text": "<%" + flags + str(W) + "s|%" + flags + str(W) + "c|%d>"}, {"k": "Q", "text": "é".encode("utf-8").decode("latin-1") + "q"}, {"k": "I", "v": 65, "src": "65"}, seven],
                          "want": "<" + c_str_directive(flags, W, "é".encode("utf-8").decode("latin-1") + "q") + "|" + c_str_directive(flags, W, "A") + "|7>\n"})
        # C. interpolation widths
        for sp in ["%d", "0%d", "%dd", "0%dd", "%dx", "0%dX", "0%db"]:
            for neg in (False, True):
                v = val(neg)
                spec = sp % W
                e = lit(v)
                if [e, "I", v] not in env:
                    env.append([e, "I", v])
                stmts.append({"nl": 1, "kind": "bound-interp", "args": [{"k": "Q", "text": "<{" + e + ":" + spec + "}>"}],
                              "want": "<" + spec_interp_value(v, spec) + ">\n"})
        # D. plain print paths with W-byte strings
        kind = ["ascii", "utf8-2", "utf8-3", "utf8-4"][W % 4]
        pl = payload(kind, W)
        stmts.append({"nl": 1, "kind": "bound-plain", "args": [{"k": "Q", "text": pl}], "want": pl + "\n"})
        stmts.append({"nl": 0, "kind": "bound-plain", "args": [strvar(kind, W), {"k": "Q", "text": pl}, seven], "want": pl + " " + pl + " 7"})
        stmts.append({"nl": 1, "kind": "bound-plain", "args": [{"k": "Q", "text": pl[:W // 2] + "{7}" + pl[W // 2:]}],
                      "want": pl[:W // 2] + "7" + pl[W // 2:] + "\n"})
        if ["7", "I", 7] not in env:
            env.append(["7", "I", 7])
        # E. a W-byte format literal, extra arguments of W bytes, pre-arguments of W bytes
        stmts.append({"nl": 1, "kind": "bound-format", "args": [{"k": "Q", "text": pl + "%d"}, seven], "want": pl + "7\n"})
        stmts.append({"nl": 1, "kind": "bound-format", "args": [{"k": "Q", "text": "%d"}, seven, strvar(kind, W), seven], "want": None})
        stmts.append({"nl": 1, "kind": "bound-format", "args": [strvar(kind, W), {"k": "Q", "text": "%5d|%s"}, seven, {"k": "Q", "text": pl}],
                      "want": pl + "     7|" + pl + "\n"})
    progs = []
    per = 40
    for k in range(0, len(stmts), per):
        chunk = stmts[k:k + per]
        p = {"k": k, "decls": decls, "env": env, "stmts": list(chunk), "ending": "normal", "main": "void", "avoided": {}}
        if (k // per) % 3 == 2:      # every third program ends in an error after all the long lines
            p["stmts"].append({"fail": FAILS[(k // per) % len(FAILS)]})
            p["ending"] = "error"
        progs.append(p)
    return progs


# ------------------------------------------------------------------ rendering a description
def arg_src(a):
    return '"%s"' % a["text"] if a["k"] == "Q" else a["src"]


def stmt_src(s):
    if "fail" in s:
        return s["fail"]
    if "ret" in s:
        return "return;"
    return "%s(%s);" % ("println" if s["nl"] else "print", ", ".join(arg_src(a) for a in s["args"]))


def program_src(p, only=None):
    lines = ["%s main() {" % p.get("main", "void")]
    lines += ["    " + d for d in p["decls"]]
    for i, s in enumerate(p["stmts"]):
        if only is not None and i not in only:
            continue
        src = stmt_src(s)
        if src == "return;" and p.get("main") == "int":
            src = "return 0;"
        lines.append("    " + src)
    if p.get("main") == "int":
        lines.append("    return 0;")
    lines.append("}")
    return "\n".join(lines) + "\n"


def model_lines(p, only=None):
    out = ["CASE"]
    for e, kind, v in p["env"]:
        out.append("E %s %s %s" % (hexs(e), kind, v if kind == "I" else hexs(v)))
    for i, s in enumerate(p["stmts"]):
        if only is not None and i not in only:
            continue
        if "fail" in s:
            out.append("F")
        elif "ret" in s:
            break
        else:
            toks = []
            for a in s["args"]:
                toks.append("Q" + hexs(a["text"]) if a["k"] == "Q" else
                            ("I%d" % a["v"] if a["k"] == "I" else "S" + hexs(a["v"])))
            out.append("P %d %s" % (s["nl"], " ".join(toks)))
    out.append("END")
    return out


def want_bytes(p, only=None):
    """output demanded by the property's own reading for the whole run, None if some statement has none"""
    out = []
    for i, s in enumerate(p["stmts"]):
        if only is not None and i not in only:
            continue
        if "fail" in s or "ret" in s:
            break
        if s.get("want") is None:
            return None
        out.append(s["want"])
    return "".join(out).encode("latin-1")


def want_rc(p, only=None):
    if p.get("ending") == "parse-error":
        return None         # whether a lone brace is an error is decided by the model comparison only
    for i, s in enumerate(p["stmts"]):
        if only is not None and i not in only:
            continue
        if "fail" in s:
            return 1
        if "ret" in s:
            return 0
    return 0


# ------------------------------------------------------------------ running both sides
def run_model(blocks):
    """blocks: list of list-of-lines; returns list of (status, bytes or None, failed)"""
    data = ("\n".join("\n".join(b) for b in blocks) + "\n").encode("ascii")
    p = subprocess.run([common.model_bin(PROP), "run"], input=data, stdout=subprocess.PIPE, stderr=subprocess.PIPE, timeout=900)
    if p.returncode != 0:
        raise RuntimeError("c16 model failed: " + p.stderr.decode("utf-8", "replace")[-500:])
    res = []
    for l in p.stdout.decode("ascii").split("\n"):
        if not l:
            continue
        w = l.split(" ")
        if w[0] == "OK":
            per = [None if h == "!" else bytes.fromhex(h) for h in w[3].split(",")[1:]]
            res.append(("ok", bytes.fromhex(w[1]), int(w[2]), per))
        else:
            res.append((w[1], None, 0, []))
    if len(res) != len(blocks):
        raise RuntimeError("c16 model: %d results for %d cases" % (len(res), len(blocks)))
    return res


class Runner:
    def __init__(self, impl_dir):
        self.impl_dir = impl_dir
        self.tmp = tempfile.mkdtemp(prefix="cbverif-c16-", dir=common.SCRATCH_ROOT)

    def close(self):
        shutil.rmtree(self.tmp, ignore_errors=True)

    def run(self, src):
        """returns (rc, stdout bytes, first stderr line)"""
        fd, path = tempfile.mkstemp(prefix="p", suffix=".cb", dir=self.tmp)
        with os.fdopen(fd, "wb") as fh:
            fh.write(src.encode("latin-1"))
        try:
            p = subprocess.run([os.path.join(self.impl_dir, "main"), path], cwd=self.impl_dir, timeout=20,
                               stdout=subprocess.PIPE, stderr=subprocess.PIPE)
            rc, out, err = p.returncode, p.stdout, p.stderr
        except subprocess.TimeoutExpired as e:
            rc, out, err = 124, e.stdout or b"", e.stderr or b""
        finally:
            try:
                os.unlink(path)
            except OSError:
                pass
        if rc < 0:
            rc = 128 - rc
        return rc, out, err.decode("utf-8", "replace").split("\n")[0][:200]


def model_expect(m, p, only=None):
    """(stdout bytes, rc) the model predicts for the program, or None when outside the model"""
    st, out, failed = m[0], m[1], m[2]
    if st == "ok":
        return out, (1 if failed else 0)
    if st == "parse":
        return b"", 1
    return None


def check_program(p, m, impl):
    """returns None if everything agrees, else a dict describing the disagreement"""
    rc, out, err = impl
    exp = model_expect(m, p)
    if exp is None:
        return {"what": "model has no answer (%s)" % m[0]}
    if (out, rc) != exp:
        return {"what": "model", "model_out": exp[0], "model_rc": exp[1]}
    # the property's own reading, statement by statement (the model's per-statement output equals the
    # implementation's here, since the concatenation agreed)
    printing = []
    for s in p["stmts"]:
        if "fail" in s or "ret" in s:
            break
        printing.append(s)
    for s, mo in zip(printing, m[3]):
        if s.get("want") is not None and mo != s["want"].encode("latin-1"):
            return {"what": "spec", "stmt": stmt_src(s), "want": s["want"].encode("latin-1"), "got": mo}
    if want_rc(p) is not None and rc != want_rc(p):
        return {"what": "spec", "want_rc": want_rc(p)}
    return None


def locate(p, runner):
    """find single statements on which implementation, model and demanded output differ"""
    idx = [i for i, s in enumerate(p["stmts"]) if "fail" not in s and "ret" not in s]
    progs = [dict(p, stmts=[p["stmts"][i]], ending="normal") for i in idx]
    ms = run_model([model_lines(q) for q in progs])
    outs = common.pmap(lambda q: runner.run(program_src(q)), progs)
    bad = []
    for i, q, m, o in zip(idx, progs, ms, outs):
        d = check_program(q, m, o)
        if d:
            bad.append((i, q, m, o, d))
    return bad


def shrink_stmt(q, runner):
    """drop declarations that are not referenced and shorten literals while the disagreement persists"""
    s = q["stmts"][0]
    used = " ".join(arg_src(a) for a in s["args"])
    decls = [d for d in q["decls"] if d.split("=")[0].split()[-1] in used]
    env = [e for e in q["env"] if e[0] in used]
    cand = dict(q, decls=decls, env=env)
    m, = run_model([model_lines(cand)])
    o = runner.run(program_src(cand))
    if check_program(cand, m, o):
        return cand
    return q


def shrink_program(p, runner):
    """whole-program disagreement: drop statements while implementation and model still differ; statements
    without a demanded output go first so that the property's own oracle can speak about the result"""
    def fails(q):
        m, = run_model([model_lines(q)])
        return check_program(q, m, runner.run(program_src(q))) is not None
    cur = p
    special = lambda s: "fail" in s or "ret" in s
    cand = dict(p, stmts=[s for s in p["stmts"] if special(s) or s.get("want") is not None])
    if len(cand["stmts"]) < len(p["stmts"]) and fails(cand):
        cur = cand
    chunk = max(1, len(cur["stmts"]) // 2)
    budget = 80
    while chunk >= 1 and budget > 0:
        i, changed = 0, False
        while i < len(cur["stmts"]) and budget > 0:
            rest = cur["stmts"][:i] + cur["stmts"][i + chunk:]
            cand = dict(cur, stmts=rest)
            budget -= 1
            if rest and fails(cand):
                cur, changed = cand, True
            else:
                i += chunk
        if not changed:
            chunk //= 2
    return cur


def report_bad(rep, p, runner, origin):
    bad = locate(p, runner)
    if not bad:
        # only the whole program fails (ordering / flush / exit status)
        p = shrink_program(p, runner)
        m, = run_model([model_lines(p)])
        o = runner.run(program_src(p))
        d = check_program(p, m, o) or {"what": "vanished on re-run"}
        wb = want_bytes(p)
        concrete = d.get("what") == "spec" or (wb is not None and (o[1] != wb or (want_rc(p) is not None and o[0] != want_rc(p))))
        rep.violation("prog", {"program": program_src(p), "desc": p, "impl_rc": o[0], "impl_stdout_hex": o[1].hex(),
                               "model": [m[0], (m[1] or b"").hex(), m[2]], "diff": {k: (v.hex() if isinstance(v, bytes) else v) for k, v in d.items()},
                               "origin": origin, "broken": "whole-program output (order / flush before exit / exit status)"},
                      "stdout or exit status of a %d-statement program (%s ending) differs from the model although every single statement agrees: %s"
                      % (len(p["stmts"]), p["ending"],
                         ("property demands stdout %r rc %s, implementation gives %r rc %d" % (wb[:100], want_rc(p), o[1][:100], o[0]))
                         if wb is not None else "no demanded output for some statement"), no_failing_input=not concrete)
        return
    for (i, q, m, o, d) in bad[:3]:
        q = shrink_stmt(q, runner)
        m, = run_model([model_lines(q)])
        o = runner.run(program_src(q))
        d = check_program(q, m, o) or d
        w = want_bytes(q)
        concrete = w is not None and (o[1] != w or o[0] != want_rc(q))
        if w is None:
            verdict = "no documented reading for this statement; implementation and proved model differ"
        elif concrete:
            verdict = "property demands %r, implementation prints %r (rc %d)" % (w[:120], o[1][:120], o[0])
        else:
            verdict = "implementation agrees with the property's reading but not with the proved model (model prints %r)" % ((m[1] or b"")[:120],)
        rep.violation("stmt", {"program": program_src(q), "desc": q, "impl_rc": o[0], "impl_stdout_hex": o[1].hex(),
                               "impl_stderr": o[2], "model": [m[0], (m[1] or b"").hex(), m[2]],
                               "want_hex": None if w is None else w.hex(), "origin": origin, "verdict": verdict,
                               "broken": "correspondence Model.print_multiple = output_manager.cpp (carrier of every C16 theorem)"},
                      "%s: %s -> %s" % (q["stmts"][0].get("kind"), stmt_src(q["stmts"][0])[:140], verdict),
                      no_failing_input=not concrete)


# ------------------------------------------------------------------ malformed literals
def malformed_cases(seed, n):
    out = []
    for k in range(n):
        rng = rng_for(seed, "c16-bad", k)
        g = Gen(rng, k)
        good = g.stmt_plain()
        t = rng.choice(["{v0", "v0}", "{v0} }", "a } b {v0}", "{v0:5", "{{v0}", "{v0}}", "{ {v0}", "${v0", "x{v0}y}z", "{v0:{}"])
        t = rand_text(rng, 3) + t
        bad = {"nl": 1, "args": [{"k": "Q", "text": t}], "want": None, "kind": "malformed"}
        out.append({"k": k, "decls": g.decls, "env": g.env, "stmts": [good, bad] if rng.random() < 0.5 else [bad, good],
                    "ending": "parse-error", "main": "void", "avoided": {}})
    return out


# ------------------------------------------------------------------ main
def run(rep):
    seed, tier = rep.seed, rep.tier
    cq = common.coq_check_props(PROP)
    common.proof_coverage(rep, cq)
    if not cq["ok"]:
        rep.violation("proof", {"theorem": cq["failed_theorem"], "log": cq["log"][-3000:]},
                      "proof obligation %s no longer checks" % cq["failed_theorem"], True)
    common.ensure_model(PROP)
    impl_dir = common.build_impl("plain")
    runner = Runner(impl_dir)
    try:
        _run(rep, seed, tier, runner)
    finally:
        runner.close()


def _run(rep, seed, tier, runner):
    progs, origin = [], []
    corpus = os.path.join(common.VERIF, "corpus", "c16.json")
    if os.path.exists(corpus):
        for p in json.load(open(corpus)):
            progs.append(p); origin.append("corpus")
    seeds = [seed] if tier == "quick" else [seed, seed * 1000 + 1, seed * 1000 + 2, seed * 1000 + 3, seed * 1000 + 4]
    n_prog = 2200 if tier == "quick" else 3600
    n_stmts = 60 if tier == "quick" else 110
    for sd in seeds:
        for k in range(n_prog):
            progs.append(gen_program(sd, k, tier, n_stmts)); origin.append("generated")
    nbad = 60 if tier == "quick" else 400
    for p in malformed_cases(seed, nbad):
        progs.append(p); origin.append("malformed-literal")
    # big outputs crossing the stdio buffer several times, ending in an error
    for k in range(6 if tier == "quick" else 40):
        p = gen_program(seed * 7919 + 13, k, tier, 600)
        if p["ending"] == "normal":
            p["stmts"].insert(rng_for(seed, "c16-big", k).randint(300, 600), {"fail": FAILS[k % len(FAILS)]})
            p["ending"] = "error"
        progs.append(p); origin.append("big-then-error")

    for p in boundary_programs(seed, tier):
        progs.append(p); origin.append("size-boundaries")
    n_pairs = 0
    if tier == "thorough":
        gp, n_pairs = grid_programs(300)
        for p in gp:
            progs.append(p); origin.append("exhaustive-grid")

    ms = run_model([model_lines(p) for p in progs])
    outs = common.pmap(lambda p: runner.run(program_src(p)), progs)

    hist, n_stmt, distinct, nontriv, kinds = {}, 0, set(), 0, {}
    want_checked = 0
    avoided = {}
    bad = []
    for p, o, m, impl in zip(progs, origin, ms, outs):
        hist[o] = hist.get(o, 0) + 1
        for kf, c in p.get("avoided", {}).items():
            avoided[kf] = avoided.get(kf, 0) + c
        for s in p["stmts"]:
            if "fail" in s or "ret" in s:
                continue
            n_stmt += 1
            kinds[s.get("kind")] = kinds.get(s.get("kind"), 0) + 1
            if s.get("want") is not None:
                want_checked += 1
            key = stmt_src(s)
            if key not in distinct:
                distinct.add(key)
                a = s["args"]
                trivial = len(a) == 1 and (a[0]["k"] != "Q" or not any(c in a[0]["text"] for c in "{}%\\"))
                nontriv += 0 if trivial else 1
        d = check_program(p, m, impl)
        if d:
            bad.append((p, o, d))
    endings = {}
    for p in progs:
        endings[p["ending"]] = endings.get(p["ending"], 0) + 1
    sample_p = progs[len(progs) // 3]
    sample_i = next((i for i, s in enumerate(sample_p["stmts"]) if s.get("kind") == "format"), 0)
    sm, = run_model([model_lines(sample_p, only={sample_i})])
    rep.coverage.update({
        "evaluations": n_stmt, "programs": len(progs), "distinct_nontrivial": nontriv,
        "rule": "stdout bytes + exit status of /repo's main vs the extracted Coq model (run_program) on the same generated program; "
                "additionally vs the output demanded by the property's own reading where one exists (%d statements). "
                "evaluations = print/println statements executed; distinct = distinct statement source texts; non-trivial = "
                "more than one argument, or a literal containing { } %% or a backslash (format path, interpolation, escapes, joining)" % want_checked,
        "exhaustive": tier == "thorough",
        "exhaustive_space": ("all %d pairs (printf shape or interpolation spec with width 0..20) x (boundary value) enumerated completely"
                             % n_pairs) if tier == "thorough" else "none in the quick tier (rotating sample of the grid)",
        "grid": "every (converter in d lld i u x X o) x (flags '', 0, -, -0, 00) x width 0..20 printf shape and every interpolation spec "
                "(N Nd 0N 0Nd Nx 0Nx NX 0NX Nb 0Nb) x width 0..20 is visited in rotation with boundary values (%d shapes, %d values: "
                "+-2^k+{-2..2}, type limits +-1, 10^k+-1)" % (len(GRID), len(POOL)),
        "size_boundaries": "rendered widths / string lengths %s around the 256-byte snprintf buffer + retry of render_formatted_string and the "
                           "4096-byte stdio buffer, through d lld u x X o (flags '' 0 -, both signs), %%s/%%c (ASCII and 2/3/4-byte UTF-8 payloads "
                           "ending at the boundary), {n:W} {n:0W} {n:Wx} {n:0WX} {n:0Wb}, plain/multi-argument println, long format literals"
                           % (BOUNDS_QUICK if tier == "quick" else BOUNDS_THOROUGH),
        "input_distribution": {"programs_by_origin": hist, "statements_by_kind": kinds, "program_endings": endings},
        "avoided_known_findings": avoided,
        "samples": [{"statement": stmt_src(sample_p["stmts"][sample_i]).encode("latin-1").decode("utf-8", "replace"),
                     "model_stdout": (sm[1] or b"").decode("utf-8", "replace")},
                    {"program_ending": progs[-1]["ending"], "statements": len(progs[-1]["stmts"]),
                     "stdout_bytes": len(outs[-1][1]), "rc": outs[-1][0]}],
        "disagreements": len(bad),
    })
    # report: single statements first (shrunk), at most a few programs
    bad.sort(key=lambda b: (b[2].get("what") != "spec", len(b[0]["stmts"])))
    for (p, o, d) in bad[:4]:
        report_bad(rep, p, runner, o)

    known_findings_replay(rep, runner)
    if tier == "thorough":
        ok, txt = common.coqchk(PROP)
        rep.coverage["coqchk"] = {"ok": ok, "context_summary": txt[-700:]}
        if not ok:
            rep.violation("coqchk", {"log": txt[-3000:]}, "coqchk rejects the compiled closure of Properties_C16", True)
    rep.assumptions += [
        "the model is tied to output_manager.cpp / evaluator.cpp / the parser by differential testing, not proof",
        "expressions inside {...} and integer arguments are evaluated by the harness (variables, literals, + - * on small ints), not by the model",
        "floating point, %p, printf precision and the flags + space # are outside the model and never generated",
        "values of type char/bool/struct/array/pointer are not printed by the generated programs",
    ]


def known_findings_replay(rep, runner):
    for f in common.known_findings(PROP):
        r = f["replay"]
        src = r["program"]
        rc, out, err = runner.run(src)
        demanded = r["expected_stdout"].encode("latin-1")
        if out != demanded:
            rep.known(f["id"], f["what_fails"])
        else:
            rep.notes.append("known finding %s no longer reproduces (fixed?)" % f["id"])
        # the model must still describe what the implementation does on the replay
        if "model_lines" in r:
            m, = run_model([r["model_lines"]])
            if m[0] != "ok" or m[1] != out:
                rep.violation("corr-known", {"program": src, "impl_stdout_hex": out.hex(), "model": [m[0], (m[1] or b"").hex()],
                                             "finding": f["id"]},
                              "model and implementation disagree on the replay of known finding " + f["id"],
                              no_failing_input=(out == demanded))


def replay(path):
    data = json.load(open(path))
    c = data["case"]
    common.ensure_model(PROP)
    runner = Runner(common.build_impl("plain"))
    try:
        if "desc" in c:
            p = c["desc"]
            m, = run_model([model_lines(p)])
            o = runner.run(program_src(p))
            print(program_src(p).encode("latin-1").decode("utf-8", "replace"))
            print("impl : rc=%d stdout=%r" % (o[0], o[1]))
            print("model: %s stdout=%r failed=%s" % (m[0], m[1], m[2]))
            w = want_bytes(p)
            print("demanded by the property: %r" % (w,))
            return 1 if check_program(p, m, o) else 0
        print(json.dumps(c, indent=1))
        return 1
    finally:
        runner.close()
