"""C03 - operands are evaluated once, left to right, with short-circuit && || ?:.

Theorems: coq/C03/Properties_C03.v - about the shared reference interpreter coq/Lang (Ref) and about
Mech (coq/C03/EvalOrder.v: Ref with the implementation's five evaluation-order deviations behind switches).
Tie: the extracted Ref and Mech (bin/c03_model) and /repo's `main` run the same generated programs
(harness/gen_c03.py, harness/gen_core.py). Operands are calls to a tracing function (prints a label,
returns a value) or a failing function, so the transcript is the event order.

Per program:   main == Ref                      -> agrees with the property
               main != Ref and main == Mech     -> an open recorded deviation (known_findings/C03.json), named by the
                                                   open switches that alone change the transcript
               main != Ref and main != Mech     -> VIOLATION (shrunk, replayable); when Mech with a REPAIRED switch on
                                                   explains it, the message names the commit whose effect is gone
"""
import collections
import json
import os
import re

import common
import gen_core
import gen_c03
import langrun
from common import rng_for

PROP = "C03"
LEVEL = "proof"
META = {
    "category": "proof",
    "technique": "Coq theorems on the shared reference interpreter (equations on eval/eval_list/eval_args for every fuel and state, traced-operand "
                 "transcripts by induction on the operand list) + a switchable Mech evaluator proved equal to Ref when no switch is on + "
                 "extracted Ref/Mech differential run against main",
    "text": "For every function table, fuel and state of the reference interpreter (coq/Lang): a && b with a false (a || b with a true) ends in exactly "
            "the state a produced, whatever b is; c ? x : y is c followed by the selected branch alone; binary operators evaluate left, then right, "
            "then apply; a failing operand hides everything to its right; any number of traced call arguments / index expressions are evaluated "
            "exactly once each, left to right (induction on the list); the guards `d != 0 && n / d > 1` and `i < n && a[i] > 0` yield 0 without "
            "touching the guarded operand. Mech (Ref with five switchable deviations: both operands of && ||, indices right to left, typed reads "
            "evaluating the index list twice, a[i] = f() calling f twice, println re-evaluating a failing argument) is proved equal to Ref with all "
            "switches off; for the three deviations repaired in /repo (a51b767, 2967bbb, df79998; off in dev_pinned) the short-circuit, guard and "
            "store-order laws are proved of Mech itself; `_refuted` theorems exhibit the two open ones. Ref, Mech and main run the same generated "
            "programs: all operators x truth combinations x 14 evaluation contexts with tracing / failing operands, random operand trees, and "
            "gen_core programs; main must equal Ref, or equal Mech on an open recorded deviation; anything else (including behaving like the code "
            "before a repair) is a violation with the program as replay.",
    "note": "Trusted: Coq kernel, no axioms (Print Assumptions closed); extraction (ExtrOcamlBasic, ExtrOcamlString) + OCaml driver; Ref is the "
            "hand-written formal reading of the property shared with C01; Mech is a hand-written model of dispatcher.cpp / binary_unary.cpp / "
            "ternary.cpp / call_impl.cpp argument loop / assignment.cpp extract_array_indices / simple_assignment.cpp / output_manager.cpp print_value, "
            "validated only by the differential run; "
            "struct, string, pointer, float operands are outside CbCore.",
}

SWITCHES = ["noshort", "rtl", "twice", "elemcall", "retry"]


# ------------------------------------------------------------------------------------------------ model
def model_run(sexprs, fuel=4000, timeout=1800):
    """-> list of {src, ref:{expect,out}, mech:{expect,out}, only:{switch:{expect,out}}} in input order."""
    common.ensure_model(PROP)
    data = ("\n".join(sexprs) + "\n").encode()
    rc, o, e = common.sh([common.model_bin(PROP), str(fuel)], input=data, timeout=timeout)
    if rc != 0:
        raise RuntimeError("c03_model failed rc=%d: %s" % (rc, e[-800:]))
    res = []

    def ob(b):
        exp, out = b.split("\n", 1) if "\n" in b else (b, "")
        return {"expect": exp.strip(), "out": out}
    for blk in o.split("===BEGIN\n")[1:]:
        src, rest = blk.split("===REF ", 1)
        rest = rest.rsplit("\n===END", 1)[0]
        parts = re.split(r"\n===(MECH|ONLY \w+) ", rest)
        d = {"src": src, "ref": ob(parts[0]), "only": {}}
        for i in range(1, len(parts), 2):
            if parts[i] == "MECH":
                d["mech"] = ob(parts[i + 1])
            else:
                d["only"][parts[i].split()[1]] = ob(parts[i + 1])
        res.append(d)
    if len(res) != len(sexprs):
        raise RuntimeError("c03_model returned %d results for %d programs" % (len(res), len(sexprs)))
    return res


def subsets_run(sexpr, fuel=4000):
    """transcripts of Mech under each of the 32 switch combinations -> [(switch tuple, {expect,out})]"""
    rc, o, e = common.sh([common.model_bin(PROP), str(fuel), "subsets"], input=(sexpr + "\n").encode(), timeout=300)
    if rc != 0:
        raise RuntimeError("c03_model subsets failed rc=%d: %s" % (rc, e[-800:]))
    body = o.split("===BEGIN\n", 1)[1].rsplit("\n===END", 1)[0]
    parts = re.split(r"\n===DEV (\S+) ", "\n" + body)
    res = []
    for i in range(1, len(parts), 2):
        blk = parts[i + 1]
        exp, out = blk.split("\n", 1) if "\n" in blk else (blk, "")
        names = () if parts[i] == "none" else tuple(sorted(parts[i].split("+")))
        res.append((names, {"expect": exp.strip(), "out": out}))
    return res


# switches of Mech that describe code repaired in /repo: a transcript that only they explain is a regression
REPAIRED = {"noshort": "a51b767 (&& || short-circuit)", "rtl": "2967bbb (subscripts left to right)",
            "elemcall": "df79998 (a[i] = f() evaluates f once)"}
OPEN = ("twice", "retry")


def judge(m, i, sexpr=None):
    """-> (verdict, reason, switches): verdict in ok | skip | known | violation.
    main == Ref: ok.  main == Mech(dev_pinned) (the two open deviations on): known, named by the open switches that
    alone change the transcript.  Otherwise main is compared with Mech under every combination of the five switches:
    a combination of OPEN switches only (one of them repaired, the other not) is still `known`; a combination that
    needs a REPAIRED switch is a violation diagnosed as `behaves like the code before <commit>`; a transcript that
    no combination explains is a violation."""
    if m["ref"]["expect"] in ("undef", "nofuel") or m["mech"]["expect"] in ("undef", "nofuel"):
        return "skip", None, ()
    wr = langrun.compare(m["ref"], i)
    if not wr:
        return "ok", None, tuple(sorted(k for k in m["only"] if k in OPEN))
    wm = langrun.compare(m["mech"], i)
    if not wm:
        sw = tuple(sorted(k for k in m["only"] if k in OPEN)) or ("interaction",)
        return "known", wr, sw
    diag = ""
    if sexpr is not None:
        fits = [names for names, r in subsets_run(sexpr) if names and not langrun.compare(r, i)]
        good = [f for f in fits if all(x in OPEN for x in f)]
        if good:
            return "known", wr, min(good, key=len)
        if fits:
            f = min(fits, key=len)
            diag = "; main behaves like the code before " + ", ".join(REPAIRED[x] for x in f if x in REPAIRED)
            return "violation", "vs reference: %s%s" % (wr, diag), f
    return "violation", "vs reference: %s; vs model of the recorded deviations: %s" % (wr, wm), ()


def run_all(impl, sexprs, chunk=4000):
    ms, irs = [], []
    for k in range(0, len(sexprs), chunk):
        part = model_run(sexprs[k:k + chunk])
        ms += part
        irs += langrun.impl_run(impl, [m["src"] for m in part])
    return ms, irs


def load_findings():
    return common.known_findings(PROP)


# ------------------------------------------------------------------------------------------------ run
def run(rep):
    seed, tier = rep.seed, rep.tier
    cq = common.coq_check_props(PROP)
    common.proof_coverage(rep, cq)
    if not cq["ok"]:
        rep.violation("proof", {"theorem": cq["failed_theorem"], "log": cq["log"][-3000:]},
                      "proof obligation %s no longer checks" % cq["failed_theorem"], True)
    if tier == "thorough":
        ok, axioms = common.coqchk(PROP)
        rep.coverage["coqchk"] = {"ok": ok, "context_summary": axioms[:1500]}
        if not ok:
            rep.violation("coqchk", {"output": axioms[-3000:]}, "coqchk rejects the compiled development", True)
    impl = common.build_impl("plain")
    findings = load_findings()
    by_switch = {f["signature"]["switch"]: f for f in findings}

    quick = tier == "quick"
    n_tree_main = 1800 if quick else 30000
    n_tree_rep = 700 if quick else 12000
    n_core_main = 500 if quick else 8000
    n_core_rep = 300 if quick else 6000

    progs, origin, feats = [], [], []

    def add(sx, org, ft):
        progs.append(sx); origin.append(org); feats.append(ft)
    corpus = os.path.join(common.VERIF, "corpus", "c03.json")
    if os.path.exists(corpus):
        for sx in json.load(open(corpus)):
            add(sx, "corpus", ("corpus",))
    for sx, ft, shape in gen_c03.systematic(rng_for(seed, "c03-sys") if quick else None):
        add(sx, "systematic" if shape is None else "systematic-reproducer", ft)
    for k in range(n_tree_main):
        sx, ft = gen_c03.random_program(rng_for(seed, "c03-tree", k), avoid=True)
        add(sx, "tree", ft)
    for k in range(n_tree_rep):
        sx, ft = gen_c03.random_program(rng_for(seed, "c03-tree-rep", k), avoid=False, multi_index=(k % 2 == 0))
        add(sx, "tree-reproducer", ft)
    cfeats = collections.Counter()
    for k in range(n_core_main):
        g = gen_core.Gen(rng_for(seed, "c03-core", k), gen_core.Opts(avoid_short_circuit=False, avoid_elem_rhs=False, avoid_ternary_nonint=True))
        add(g.program(), "core", ("core",))
        cfeats.update(g.feats)
    for k in range(n_core_rep):
        g = gen_core.Gen(rng_for(seed, "c03-core-rep", k), gen_core.Opts(avoid_short_circuit=False, avoid_multi_index_order=False, avoid_elem_rhs=False,
                                                                           avoid_print_retry=False, avoid_ternary_nonint=True))
        add(g.program(), "core-reproducer", ("core",))

    ms, irs = run_all(impl, progs)

    # the Ref half of bin/c03_model is the same extracted function as bin/lang_model: cross-check a sample
    sample = list(range(0, len(progs), max(1, len(progs) // 150)))
    lm = langrun.model_run([progs[j] for j in sample])
    ref_same = sum(1 for j, r in zip(sample, lm) if r["expect"] == ms[j]["ref"]["expect"] and r["out"] == ms[j]["ref"]["out"])
    if ref_same != len(sample):
        rep.violation("model", {"sample": len(sample), "equal": ref_same},
                      "bin/c03_model and bin/lang_model disagree about Ref (stale build?)", True)

    verdicts = collections.Counter()
    by_origin = collections.Counter()
    hits = collections.Counter()           # switch set -> programs where main reproduces the deviation
    unrepro = collections.Counter()        # switch set -> programs where Mech deviates but main agrees with Ref
    main_dev = 0                           # main-stream programs on which Mech deviates (avoidance leaks)
    bad = []
    distinct, nontriv, seen = 0, 0, set()
    ctx_hist, op_hist = collections.Counter(), collections.Counter()
    for k, (m, i) in enumerate(zip(ms, irs)):
        v, why, sw = judge(m, i, progs[k])
        verdicts[v] += 1
        by_origin[(origin[k], v)] += 1
        if v == "known":
            hits[sw] += 1
        elif v == "ok" and sw:
            unrepro[sw] += 1
        elif v == "violation":
            bad.append((k, why))
        if v != "skip" and origin[k] in ("systematic", "tree", "core") and any(x in OPEN for x in m["only"]):
            main_dev += 1
        if v != "skip" and progs[k] not in seen:
            seen.add(progs[k])
            distinct += 1
            if re.search(r"^1\d\d$", m["ref"]["out"], re.M) or m["ref"]["expect"] != "finished":
                nontriv += 1
        ft = feats[k]
        if len(ft) >= 2 and ft[0] != "core":
            op_hist[ft[0]] += 1
            ctx_hist[ft[1]] += 1
    rep.coverage.update({
        "evaluations": len(progs), "distinct_nontrivial": nontriv,
        "rule": "generated CbCore programs printed by the extracted printer, run on main, on the extracted Ref and on the extracted Mech; "
                "distinct = distinct well-formed ASTs (Ref/Mech neither Undef nor out of fuel); non-trivial = at least one traced operand label "
                "in the reference transcript or a runtime error",
        "input_distribution": dict(collections.Counter(origin)),
        "verdicts": dict(verdicts),
        "verdicts_by_stream": {"%s/%s" % k: v for k, v in sorted(by_origin.items())},
        "operators": dict(op_hist), "contexts": dict(ctx_hist),
        "deviations_reproduced_by_switches": {"+".join(k): v for k, v in sorted(hits.items())},
        "deviations_not_reproduced": {"+".join(k): v for k, v in sorted(unrepro.items())},
        "main_stream_programs_where_mech_deviates": main_dev,
        "core_features": dict(cfeats.most_common(25)),
        "ref_cross_check": {"sample": len(sample), "equal": ref_same},
        "exhaustive": not quick,
        "exhaustive_scope": ("the systematic stream only: all 16 binary operators, && || ?: ! - ~, 3-argument calls, 1-3 dimensional index lists x operand values "
                       "{0,1,2,-1}^2 x 14 contexts x {traced, left fails, right fails}" if not quick else
                       "all operators x zero/non-zero operand combinations x 14 contexts x {traced, left fails, right fails}"),
        "samples": [{"program": ms[j]["src"], "reference": ms[j]["ref"], "mech": ms[j]["mech"], "main_stdout": irs[j]["out"], "main_rc": irs[j]["rc"]}
                    for j in (0, len(progs) // 3, len(progs) - 1) if j < len(ms)],
        "disagreements": len(bad),
    })

    # violations: shrink, report
    for k, why in bad[:4]:
        def still_bad(sx):
            m2, i2 = run_all(impl, [sx])
            v2, _, _ = judge(m2[0], i2[0], sx)
            return v2 == "violation" and "Undefined" not in i2[0]["err"] and m2[0]["ref"]["expect"] != "unbound"
        try:
            small = langrun.shrink(progs[k], still_bad, budget=60 if quick else 250)
        except Exception:
            small = progs[k]
        m2, i2 = run_all(impl, [small])
        m, i = m2[0], i2[0]
        v2, why2, _ = judge(m, i, small)
        if v2 != "violation":
            small = progs[k]; m, i = ms[k], irs[k]; why2 = why
        rep.violation("prog", {"sexpr": small, "program": m["src"], "expected_stdout": m["ref"]["out"], "expected_outcome": m["ref"]["expect"],
                               "recorded_deviation_stdout": m["mech"]["out"], "recorded_deviation_outcome": m["mech"]["expect"],
                               "impl_stdout": i["out"], "impl_rc": i["rc"], "impl_stderr": i["err"][-600:],
                               "origin": origin[k], "features": list(feats[k]), "why": why2},
                      "main evaluates operands in another order / number than the reference semantics and than every recorded deviation (%s; %s)"
                      % (origin[k], why2))

    # known findings: deviations reproduced by the streams + the stored replay of every entry
    for sw, n in hits.items():
        for s1 in sw:
            f = by_switch.get(s1)
            if f:
                rep.known(f["id"], f["what_fails"])
            elif s1 != "interaction":
                rep.violation("finding", {"switch": s1}, "deviation %s reproduced but not recorded in known_findings/C03.json" % s1, True)
    for f in findings:
        for r in [f["replay"]] + f.get("more_replays", []):
            rc, o, e = common.run_cb(impl, r["program"])
            ok = (o == r["expected_stdout"]) and ((rc != 0) == bool(r.get("expected_error")))
            if ok:
                rep.notes.append("known finding %s no longer reproduces on its stored replay (fixed?)" % f["id"])
            elif rc in (0, 1) and o == r["observed_stdout"]:
                rep.known(f["id"], f["what_fails"])
            else:
                rep.violation("finding", {"id": f["id"], "program": r["program"], "expected_stdout": r["expected_stdout"],
                                          "recorded_observed_stdout": r["observed_stdout"], "impl_stdout": o, "impl_rc": rc,
                                          "impl_stderr": e[-400:]},
                              "the stored replay of %s fails in a new way (neither the demanded nor the recorded transcript)" % f["id"])
    rep.assumptions += [
        "programs on which Ref or Mech reports Undef / out of fuel are not well-formed and are discarded (counted as skip)",
        "main streams stay outside the shapes of the two open deviations (typed reads with traced subscripts other than one in-range subscript; a failing "
        "operand inside a println argument); reproducer streams aim at them; every program is judged against Ref first and against Mech "
        "(dev_pinned: the open deviations on) only when it differs from Ref",
        "gen_core streams keep ?: branches to int variables / literals (avoid_ternary_nonint): a branch inferred as bool that carries another value "
        "(`unsigned u = c ? x : ~(5 == v)` stores 1, Ref 0) is a value-conversion matter of C01/C04, not an evaluation-order one; "
        "gen_c03's own trees use arbitrary branches over long operands",
        "the shapes of the three repaired deviations (short-circuit a51b767, subscript order 2967bbb, a[i] = f() df79998) are part of the main streams; "
        "a transcript that only a repaired switch of Mech explains is a violation (regression)",
    ]


def replay(path):
    data = json.load(open(path))
    c = data["case"]
    impl = common.build_impl("plain")
    if "sexpr" in c:
        ms, irs = run_all(impl, [c["sexpr"]])
        m, i = ms[0], irs[0]
        v, why, sw = judge(m, i, c["sexpr"])
        print(m["src"])
        print("reference:          ", m["ref"]["expect"], repr(m["ref"]["out"]))
        print("recorded deviations:", m["mech"]["expect"], repr(m["mech"]["out"]))
        print("main:               ", i["rc"], repr(i["out"]), i["err"][-300:])
        print("verdict:", v, why or "", sw)
        return 1 if v == "violation" else 0
    if "program" in c:
        rc, o, e = common.run_cb(impl, c["program"])
        print(c["program"])
        print("demanded:", repr(c.get("expected_stdout")))
        print("main:    ", rc, repr(o), e[-300:])
        return 0 if o == c.get("expected_stdout") else 1
    print(json.dumps(c, indent=1)[:3000])
    return 1
