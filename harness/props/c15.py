"""C15 - deterministic round-robin scheduling; sleep never wakes early.

Theorems: coq/C15/Properties_C15.v, about the small-step machine of coq/C15/Model.v (SimpleEventLoop
+ the places the interpreter re-enters it) for EVERY task program (the statement semantics is a
Section variable), and about one step of a structured statement (coq/C15/Body.v: for / while /
blocks / if / continue / break / yield / return as the executors run and resume them): every
iteration boundary ends the turn of a task / runs the background cycle of main.  Tie: generated task programs are printed as Cb source and as input of the
extracted machine (bin/c15_model); the implementation's CB_VERIF_SCHED_TRACE stream merged with the
program's own output (virtual clock CB_VERIF_CLOCK) must equal the model's event list line by line.
Independent of the model, the property's own reading is evaluated on the implementation's trace
(FIFO law, no skip, no early wake, awaited values) and on real time (now() around sleep).
"""
import json
import os
import re
import shutil
import subprocess
import tempfile
import time

import common
from common import rng_for

PROP = "C15"
LEVEL = "proof"
META = {
    "category": "proof",
    "technique": "Coq invariant proofs over a small-step machine of the re-entrant scheduler (any task program, any clock) + extracted-model trace equality against main's scheduler trace",
    "text": "Machine-checked theorems about a function-by-function Gallina model of SimpleEventLoop (register_task, run, run_one_cycle, "
            "execute_one_step's waiting/sleeping/timeout prelude, run_until_complete), run_background_tasks_one_cycle, the cycle after every "
            "statement of a statement list, await, sleep, timeout and now(): the schedule is a function of the program and of the clock "
            "readings; turns are served in exactly the order ids were pushed (FIFO law: turns ++ queue = queue0 ++ pushes), hence first runs in "
            "spawn order and exactly one turn of every queued task between two turns of a task; the queue never holds a duplicate, a finished or "
            "an executing task (the skip branch is dead); a task marked waiting is not stepped until its target is done and is stepped right "
            "after; an await loop over a target that is not suspended beneath it ends only when the target is done; a sleeping task is never "
            "stepped or completed on a clock reading below its deadline and every later reading of a monotone clock is >= deadline; a sleeper's "
            "turn changes nothing but the queue rotation. Two laws are refuted on the faithful model (await of a task suspended beneath the "
            "awaiting one returns before completion; a task whose target is done is not resumed while a task stepped from inside its await loop "
            "is itself awaiting) and reproduced on the binary as known findings. Loop-iteration boundaries: a function-by-function model of "
            "execute_for_statement / execute_while_statement / execute_compound_statement (resume positions, continue / break / yield / return "
            "handlers, nested loops, calls) with the theorems that in a task every end of an iteration that does not leave the loop - the body "
            "ran to its end or `continue` from any depth - is the last thing the turn does (YieldException(true), the task goes to the back of "
            "the queue), that outside a task it is followed at once by run_background_tasks_one_cycle, for all statements, environments and "
            "suspension histories - for the while loop's `continue` path too since fix a1ebdfd (former finding "
            "C15-while-continue-no-suspension, now a regression replay). The model is tied to the code on every run by trace equality on "
            "generated task programs (<= 4 functions, <= 4 suspension points each, nested awaits, loops whose iterations end in every way in "
            "tasks / main / called functions, plain calls, sleep/timeout on a virtual clock), exhaustive for small alphabets.",
    "note": "Trusted: Coq kernel (vm_compute for the refutation witnesses), no axioms (Print Assumptions: closed); extraction via ExtrOcamlBasic+"
            "ExtrOcamlString; hand-written model; statement semantics abstract (C14 covers bodies); the virtual-clock hook replaces the time "
            "source for trace equality; wall-clock monotonicity is assumed, on real time only now_after - now_before >= ms is tested.",
}

SLEEP_GRID = [0, 1, 5, 10, 15, 20, 30, 60]
CLOCK_STEPS = [1, 2, 5, 7, 10]


# ------------------------------------------------------------------------------ programs
# program = {"step": ms per clock read, "funs": [main body, f1 body, ...]}
# statement = list: ["P",tag] ["C",[tags]] ["F",f] ["S",f,slot] ["G",f,g] ["A",slot,exp] ["B",g,exp]
#   ["W",f] ["Z",ms] ["z",ms,slot] ["T",slot,ms,slot2] ["M"] ["E"] ["U"] ["Y"] ["R"] ["L",n,[simple..]]
#   ["V",var,exp,tag] (print of an awaited value: a model print with tag, value checked by the oracle)
#   ["X", b]  a structured statement (coq/C15/Body.v), b =
#     ["x", simple] ["dcl",v,c] ["set",v,c] ["inc",v] ["cont"] ["brk"] ["yld"] ["ret"]
#     ["if", cond, then, else|None] ["blk",[b..]] ["for",v,n,body] ["whl",cond,body] ["call",[b..]]
#     cond = ["true"] ["false"] ["eq",v,c] ["lt",v,c] ["mod",v,m,r] ["not",cond]   (v: counter number)

def ret_value(f):
    return 100 + f


def render_cb(prog):
    """Cb source of a program."""
    funs = prog["funs"]
    out, helpers, uid = [], [], [0]
    nglob = 0
    for body in funs:
        for st in walk(body):
            if st[0] in ("G", "B"):
                nglob = max(nglob, st[2 if st[0] == "G" else 1] + 1)
    for g in range(nglob):
        out.append("Future<int> g%d;" % g)

    def fresh():
        uid[0] += 1
        return uid[0]

    voids = void_funs(prog)
    slot_callee = [dict((st[2], st[1]) for st in body if st[0] == "S") for body in funs]

    def simple(st, fk, top, lastmark):
        k = st[0]
        if k == "S" and st[1] in voids:
            return "Future<void> v%d_%d = f%d();" % (fk, st[2], st[1])
        if k == "A" and slot_callee[fk].get(st[1]) in voids:
            return "await v%d_%d;" % (fk, st[1])
        if k == "W" and st[1] in voids:
            return "await f%d();" % st[1]
        if k == "P":
            return 'println("P", %d);' % st[1]
        if k == "C":
            n = fresh()
            helpers.append("void h%d() { %s }" % (n, " ".join('println("P", %d);' % t for t in st[1])))
            return "h%d();" % n
        if k == "F":
            return "f%d();" % st[1]
        if k == "S":
            return "Future<int> v%d_%d = f%d();" % (fk, st[2], st[1])
        if k == "G":
            return "g%d = f%d();" % (st[2], st[1])
        if k == "A":
            return ("int r%d_%d = await v%d_%d;" % (fk, st[1], fk, st[1])) if top else ("await v%d_%d;" % (fk, st[1]))
        if k == "B":
            return ("int rg%d_%d = await g%d;" % (fk, fresh(), st[1])) if top else ("await g%d;" % st[1])
        if k == "W":
            if len(st) > 3:
                return "%s = await f%d();" % (st[3], st[1])          # r = await child(); (r declared by a "D" statement)
            return ("int w%d_%d = await f%d();" % (fk, st[2], st[1])) if top else ("await f%d();" % st[1])
        if k == "D":
            return "int %s = 0;" % st[1]
        if k == "V":
            return 'println("V", %s, %d, %d);' % (st[1], st[2], st[3])
        if k == "Z":
            return "await sleep(%d);" % st[1]
        if k == "z":
            return "Future<int> v%d_%d = sleep(%d);" % (fk, st[2], st[1])
        if k == "T":
            return "Future<int> v%d_%d = timeout(v%d_%d, %d);" % (fk, st[3], fk, st[1], st[2])
        if k == "M":
            lastmark[0] = fresh()
            return "long t0_%d = now();" % lastmark[0]
        if k == "E":
            return 'println(now() - t0_%d);' % lastmark[0]     # the argument is evaluated (clock line) before anything is printed
        if k == "U":
            return "run_event_loop();"
        raise ValueError(st)

    def rb(b, fk, lastmark, in_call):
        """Cb text of a structured statement."""
        k = b[0]
        if k == "x":
            return simple(b[1], fk, False, lastmark)
        if k == "dcl":
            return "int %s = %d;" % (qvar(fk, b[1]), b[2])
        if k == "set":
            return "%s = %d;" % (qvar(fk, b[1]), b[2])
        if k == "inc":
            return "%s = %s + 1;" % (qvar(fk, b[1]), qvar(fk, b[1]))
        if k == "cont":
            return "continue;"
        if k == "brk":
            return "break;"
        if k == "yld":
            return "yield;"
        if k == "ret":
            return "return;" if (in_call or fk == 0 or fk in voids) else "return %d;" % ret_value(fk)
        if k == "if":
            t = "if (%s) %s" % (cond_cb(b[1], fk), rb(b[2], fk, lastmark, in_call))
            if b[3] is not None:
                t += " else %s" % rb(b[3], fk, lastmark, in_call)
            return t
        if k == "blk":
            return "{ %s }" % " ".join(rb(x, fk, lastmark, in_call) for x in b[1])
        if k == "for":
            q = qvar(fk, b[1])
            return "for (int %s = 0; %s < %d; %s = %s + 1) %s" % (q, q, b[2], q, q, rb(b[3], fk, lastmark, in_call))
        if k == "whl":
            return "while (%s) %s" % (cond_cb(b[1], fk), rb(b[2], fk, lastmark, in_call))
        if k == "call":
            n = fresh()
            helpers.append("void h%d() { %s }" % (n, " ".join(rb(x, fk, lastmark, True) for x in b[1])))
            return "h%d();" % n
        raise ValueError(b)

    bodies = []
    for fk, body in enumerate(funs):
        lines, lastmark = [], [0]
        for st in body:
            if st[0] == "X":
                lines.append(rb(st[1], fk, lastmark, False))
            elif st[0] == "Y":
                lines.append("yield;")
            elif st[0] == "R":
                lines.append("return %d;" % ret_value(fk) if (fk and fk not in voids) else "return;")
            elif st[0] == "L":
                i = "i%d" % fresh()
                inner = " ".join(simple(x, fk, False, lastmark) for x in st[2])
                lines.append("for (int %s = 0; %s < %d; %s = %s + 1) { %s }" % (i, i, st[1], i, i, inner))
            else:
                lines.append(simple(st, fk, True, lastmark))
        bodies.append(lines)
    src = list(out)
    src += helpers
    for fk in range(len(funs) - 1, 0, -1):
        src.append("async %s f%d() {\n    %s\n}" % ("void" if fk in voids else "int", fk, "\n    ".join(bodies[fk])))
    src.append("void main() {\n    %s\n}" % "\n    ".join(bodies[0]))
    return "\n".join(src) + "\n"


def void_funs(prog):
    """Async functions whose body does not end with `return k;`: rendered `async void`, they finish by
    running past their last statement."""
    return set(fk for fk, body in enumerate(prog["funs"]) if fk and (not body or body[-1][0] != "R"))


def qvar(fk, v):
    return "q%d_%d" % (fk, v)


def cond_cb(c, fk):
    k = c[0]
    if k == "true":
        return "1 == 1"
    if k == "false":
        return "1 == 0"
    if k == "eq":
        return "%s == %d" % (qvar(fk, c[1]), c[2])
    if k == "lt":
        return "%s < %d" % (qvar(fk, c[1]), c[2])
    if k == "mod":
        return "%s %% %d == %d" % (qvar(fk, c[1]), c[2], c[3])
    if k == "not":
        return "!(%s)" % cond_cb(c[1], fk)
    raise ValueError(c)


def cond_tok(c):
    if c[0] == "not":
        return "not " + cond_tok(c[1])
    return " ".join(str(x) for x in c)


def b_children(b):
    """Direct sub-statements of a structured statement."""
    k = b[0]
    if k == "if":
        return [b[2]] + ([b[3]] if b[3] is not None else [])
    if k in ("blk", "call"):
        return list(b[1])
    if k == "for":
        return [b[3]]
    if k == "whl":
        return [b[2]]
    return []


def b_walk(b):
    yield b
    for c in b_children(b):
        for x in b_walk(c):
            yield x


def tok_b(b):
    k = b[0]
    if k == "x":
        return tok(b[1])
    if k in ("dcl", "set"):
        return "set %d %d" % (b[1], b[2])
    if k == "inc":
        return "inc %d" % b[1]
    if k in ("cont", "brk", "yld", "ret"):
        return k
    if k == "if":
        return "if %s %s" % (cond_tok(b[1]), tok_b(b[2])) + ((" else " + tok_b(b[3])) if b[3] is not None else "")
    if k == "blk":
        return "{ " + " ".join([tok_b(x) for x in b[1]] + ["}"])
    if k == "for":
        return "for %d %d %s" % (b[1], b[2], tok_b(b[3]))
    if k == "whl":
        return "whl %s %s" % (cond_tok(b[1]), tok_b(b[2]))
    if k == "call":
        return "call{ " + " ".join([tok_b(x) for x in b[1]] + ["}"])
    raise ValueError(b)


def can_continue(b):
    """A continue statement can end the statement (Body.v can_continue)."""
    k = b[0]
    if k == "cont":
        return True
    if k == "if":
        return can_continue(b[2]) or (b[3] is not None and can_continue(b[3]))
    if k == "blk":
        return any(can_continue(x) for x in b[1])
    return False


def walk(body):
    for st in body:
        yield st
        if st[0] == "L":
            for x in st[2]:
                yield x
        if st[0] == "X":
            for x in b_walk(st[1]):
                if x[0] == "x":
                    yield x[1]


def tok(st):
    k = st[0]
    if k in ("P",):
        return "P%d" % st[1]
    if k == "V":
        return "P%d" % st[3]
    if k == "C":
        return "C" + ",".join(str(t) for t in st[1])
    if k == "F":
        return "F%d" % st[1]
    if k == "S":
        return "S%d:%d" % (st[1], st[2])
    if k == "G":
        return "G%d:%d" % (st[1], st[2])
    if k == "A":
        return "A%d" % st[1]
    if k == "B":
        return "B%d" % st[1]
    if k == "W":
        return "W%d" % st[1]
    if k == "Z":
        return "Z%d" % st[1]
    if k == "z":
        return "z%d:%d" % (st[1], st[2])
    if k == "T":
        return "T%d:%d:%d" % (st[1], st[2], st[3])
    if k in ("M", "E", "U", "Y", "R"):
        return k
    if k == "D":
        return "C"             # a declaration: a statement that asks nothing of the scheduler
    if k == "L":
        return "L%d( %s )" % (st[1], " ".join(tok(x) for x in st[2]))
    if k == "X":
        return "@ " + tok_b(st[1])
    raise ValueError(st)


def model_line(prog):
    return "%d ; %s" % (prog["step"], " ; ".join(" ".join(tok(st) for st in body) for body in prog["funs"]))


# ------------------------------------------------------------------------------ generators
class Gen:
    """Random task programs: <= 4 async functions, <= 4 suspension points per body, call graph acyclic
    (function k only starts functions > k), every kind of re-entry of the scheduler."""

    def __init__(self, rng, nfuns=None, globals_ok=False, timed=True, xloops=0.0):
        self.rng = rng
        self.n = nfuns if nfuns is not None else rng.randint(1, 4)
        self.globals_ok = globals_ok
        self.timed = timed
        self.tag = 0
        self.xloops = xloops          # probability of a structured loop per statement slot (0: the generator of round 1)
        self.nvar = {}                # function -> next counter number
        self.voids = set()
        if xloops:
            self.voids = set(k for k in range(1, self.n + 1) if rng.random() < 0.3)

    # ---- structured statements (Body.v): loops whose iterations end in every way
    def newvar(self, fk):
        self.nvar[fk] = self.nvar.get(fk, 0) + 1
        return self.nvar[fk] - 1

    def xcond(self, v, encl):
        rng = self.rng
        w = v if (not encl or rng.random() < 0.7) else rng.choice(encl)
        r = rng.random()
        if r < 0.45:
            m = rng.choice([2, 2, 3])
            c = ["mod", w, m, rng.randrange(m)]
        elif r < 0.75:
            c = ["eq", w, rng.randint(0, 3)]
        else:
            c = ["lt", w, rng.randint(1, 3)]
        return ["not", c] if rng.random() < 0.15 else c

    def xsimple(self, fk, in_call):
        """A statement without control flow inside a structured body."""
        rng = self.rng
        callees = list(range(fk + 1, self.n + 1))
        r = rng.random()
        if r < 0.5 or not callees:
            if r < 0.08 and self.timed:
                return ["x", ["Z", rng.choice(SLEEP_GRID[:4])]]
            if r < 0.2:
                return ["x", ["C", [self.t(fk) for _ in range(rng.randint(1, 2))]]]
            return _P(self.t(fk))
        if r < 0.8:
            return ["x", ["W", rng.choice(callees), 0]]
        return ["x", ["F", rng.choice(callees)]]

    def xitems(self, fk, v, depth, encl, in_task, in_call, hoist):
        """Body of a loop over counter v: the iteration marker, then statements that end the iteration
        in different ways."""
        rng = self.rng
        items = [_P(self.t(fk))]
        for _ in range(rng.randint(0, 3)):
            r = rng.random()
            if r < 0.20:
                items.append(self.xsimple(fk, in_call))
            elif r < 0.45:
                c = self.xcond(v, encl)
                shape = rng.randrange(5)
                if shape == 0:
                    items.append(["if", c, ["cont"], None])
                elif shape == 1:
                    items.append(["if", c, ["blk", [_P(self.t(fk)), ["cont"]]], None])
                elif shape == 2:
                    items.append(["if", c, ["blk", [_P(self.t(fk))]], ["blk", [["cont"]]]])
                elif shape == 3:
                    items.append(["blk", [["if", c, ["blk", [["blk", [["cont"]]]]], None], _P(self.t(fk))]])
                else:
                    items.append(["if", c, ["blk", [self.xsimple(fk, in_call), ["cont"]]], ["blk", [_P(self.t(fk))]]])
            elif r < 0.53:
                c = self.xcond(v, encl)
                items.append(["if", c, ["brk"] if rng.random() < 0.5 else ["blk", [_P(self.t(fk)), ["brk"]]], None])
            elif r < 0.57:
                items.append(["cont"])
            elif r < 0.61 and in_task and not in_call:
                if rng.random() < 0.6:
                    items.append(["yld"])
                else:       # a yield inside a branch of the body
                    items.append(["if", self.xcond(v, encl), ["blk", [_P(self.t(fk)), ["yld"], _P(self.t(fk))]], None])
            elif r < 0.64:
                items.append(["if", self.xcond(v, encl), ["blk", [["ret"]]], None])
            elif r < 0.80 and depth < 2:
                pre, loop = self.xloop(fk, depth + 1, encl + [v], in_task, in_call, hoist)
                items += pre + [loop]
            elif r < 0.90:
                c = self.xcond(v, encl)
                items.append(["if", c, ["blk", [_P(self.t(fk))]], ["blk", [_P(self.t(fk))]] if rng.random() < 0.6 else None])
            else:
                items.append(self.xsimple(fk, in_call))
        return items

    def xloop(self, fk, depth, encl, in_task, in_call, hoist):
        """(statements before the loop, the loop); counters of while loops are appended to `hoist` (they
        are declared at the top level of the function)."""
        rng = self.rng
        kind = "for" if rng.random() < 0.55 else "whl"
        v = self.newvar(fk)
        n = rng.randint(1, 4) if depth == 0 else rng.randint(1, 3)
        items = self.xitems(fk, v, depth, encl, in_task, in_call, hoist)
        if kind == "whl":
            hoist.append(v)
        return mk_loop(kind, v, n, items)

    def xstatements(self, fk):
        """Top-level statements for one structured loop in function fk (in a plain function called from
        main now and then)."""
        rng = self.rng
        hoist = []
        if fk == 0 and rng.random() < 0.3:
            pre, loop = self.xloop(fk, 0, [], False, True, hoist)
            body = [["dcl", w, 0] for w in hoist] + pre + [loop]
            if rng.random() < 0.5:
                body.append(_P(self.t(fk)))
            return [["X", ["call", body]]]
        pre, loop = self.xloop(fk, 0, [], fk != 0, False, hoist)
        return [["X", ["dcl", w, 0]] for w in hoist] + [["X", x] for x in pre] + [["X", loop]]

    def t(self, fk):
        self.tag += 1
        return fk * 1000 + self.tag

    def loop_simple(self, fk):
        r, rng = self.rng.random(), self.rng
        callees = list(range(fk + 1, self.n + 1))
        if r < 0.4 or not callees:
            if r < 0.25:
                return ["P", self.t(fk)]
            if r < 0.33 and self.timed:
                return ["Z", rng.choice(SLEEP_GRID[:5])]
            return ["C", [self.t(fk) for _ in range(rng.randint(1, 2))]]
        if r < 0.7:
            return ["W", rng.choice(callees), 0]
        return ["F", rng.choice(callees)]

    def body(self, fk):
        rng = self.rng
        is_main = fk == 0
        callees = list(range(fk + 1, self.n + 1))
        out, susp = [], 0
        slots = []            # (slot, kind, callee) not yet awaited
        nslot = 0
        nst = rng.randint(1, 7) if not is_main else rng.randint(2, 8)
        marked = False
        if is_main and self.globals_ok and [c for c in callees if c not in self.voids]:
            out.append(["G", rng.choice([c for c in callees if c not in self.voids]), 0])      # the only global future, assigned before any task exists
        while len(out) < nst:
            if self.xloops and susp < 4 and rng.random() < self.xloops:
                out += self.xstatements(fk); susp += 2
                continue
            r = rng.random()
            if r < 0.16:
                out.append(["P", self.t(fk)])
            elif r < 0.30 and not is_main and susp < 4:
                out.append(["Y"]); susp += 1
            elif r < 0.34 and susp < 4 and [c for c in callees if c not in self.voids] and not is_main:
                # for (...) { r = await child(); println(..); }  - the child ends with `return`
                var = "lw%d_%d" % (fk, self.t(fk))
                n = rng.randint(2, 3)
                bodyl = [["W", rng.choice([c for c in callees if c not in self.voids]), 0, var], ["P", self.t(fk)]]
                if rng.random() < 0.4:
                    bodyl.reverse()
                out.append(["D", var]); out.append(["L", n, bodyl]); susp += n
            elif r < 0.38 and susp < 4:
                n = rng.randint(0, 3)
                out.append(["L", n, [self.loop_simple(fk) for _ in range(rng.randint(1, 2))]]); susp += n
            elif r < 0.50 and callees:
                out.append(["S", rng.choice(callees), nslot]); slots.append((nslot, "S", out[-1][1])); nslot += 1
            elif r < 0.62 and slots and susp < 4:
                s, kind, cal = slots.pop(rng.randrange(len(slots)))
                out.append(["A", s, 0]); susp += 1
                if kind == "S" and cal not in self.voids and rng.random() < 0.8:
                    out.append(["V", "r%d_%d" % (fk, s), ret_value(cal), self.t(fk)])
            elif r < 0.70 and callees and susp < 4:
                wid = self.t(fk)
                cal = rng.choice(callees)
                out.append(["W", cal, wid]); susp += 1
                if cal not in self.voids and rng.random() < 0.8:
                    out.append(["V", "w%d_%d" % (fk, wid), ret_value(cal), self.t(fk)])
            elif r < 0.75 and callees:
                out.append(["F", rng.choice(callees)])
            elif r < 0.82 and self.timed and susp < 4:
                out.append(["Z", rng.choice(SLEEP_GRID)]); susp += 1
            elif r < 0.86 and self.timed:
                out.append(["z", rng.choice(SLEEP_GRID), nslot]); slots.append((nslot, "z", None)); nslot += 1
            elif r < 0.89 and self.timed and any(k == "S" and c not in self.voids for _, k, c in slots):
                i = [j for j, (_, k, c) in enumerate(slots) if k == "S" and c not in self.voids][0]
                s, _, _ = slots.pop(i)
                out.append(["T", s, rng.choice(SLEEP_GRID), nslot]); slots.append((nslot, "T", None)); nslot += 1
            elif r < 0.93:
                out.append(["C", [self.t(fk) for _ in range(rng.randint(1, 3))]])
            elif r < 0.96 and self.timed:
                if not marked:
                    out.append(["M"]); marked = True
                else:
                    out.append(["E"])
            elif r < 0.975 and self.globals_ok and not is_main and susp < 4:
                out.append(["B", 0, 0]); susp += 1
            elif r < 0.985 and is_main:
                out.append(["U"])
            elif r < 0.995 and not is_main and len(out) >= 2:
                out.append(["R"])
        if not is_main:
            if fk not in self.voids:
                out.append(["R"])
            elif out and out[-1][0] == "R":
                out.append(["P", self.t(fk)])      # a void function ends by running past its last statement
        elif slots and rng.random() < 0.7:
            for s, kind, cal in slots:
                out.append(["A", s, 0])
        return out

    def program(self):
        return {"step": self.rng.choice(CLOCK_STEPS), "funs": [self.body(k) for k in range(self.n + 1)]}


def loop_await_programs():
    """async task with `for (..) { r = await child(); println(..); }` while another looping task is
    runnable; the children finish via `return` from inside the outer task's turn."""
    for n1 in (2, 3):
        for order in (0, 1):
            for child in ([["R"]], [["P", 3001], ["R"]], [["Y"], ["R"]], [["P", 3001], ["Y"], ["P", 3002], ["R"]]):
                for n2 in (1, 3):
                    for mk in range(3):
                        b1 = [["W", 3, 0, "lw1"], ["P", 1001]]
                        if order:
                            b1.reverse()
                        f1 = [["D", "lw1"], ["L", n1, b1], ["P", 1002], ["R"]]
                        f2 = [["L", n2, [["P", 2001]]], ["P", 2002], ["R"]]
                        main = [[["S", 1, 0], ["S", 2, 1], ["A", 0, 0], ["A", 1, 0]],
                                [["S", 2, 1], ["S", 1, 0], ["P", 1], ["P", 2], ["A", 0, 0]],
                                [["S", 1, 0], ["S", 2, 1]] + [["P", k] for k in range(1, 9)]][mk]
                        yield {"step": 5, "funs": [main, f1, f2, json.loads(json.dumps(child))]}


# ------------------------------------------------------------------------------ loops: every way an iteration ends
def _P(t):
    return ["x", ["P", t]]


def mk_loop(kind, v, n, items):
    """(statements to run before the loop, the loop) for `n` iterations of `items` over counter v.
    for:   for (int v = 0; v < n; v = v + 1) { items }            v = 0..n-1 in the body
    whl:   v = 0; while (v < n) { v = v + 1; items }              v = 1..n in the body (the counter is
           stepped first so that `continue` cannot loop forever)"""
    if kind == "for":
        return [], ["for", v, n, ["blk", items]]
    return [["set", v, 0]], ["whl", ["lt", v, n], ["blk", [["inc", v]] + items]]


def loop_body_kinds(v, v2, T, kind2, child, in_task):
    """(name, body items, counters of nested while loops) - one entry per way an iteration can end.
    T.. are print tags; the first print of a body is the iteration marker the oracle counts."""
    pre2, inner_plain = mk_loop(kind2, v2, 2, [_P(T + 10), _P(T + 11)])
    _, inner_cont = mk_loop(kind2, v2, 2, [_P(T + 10), ["if", ["eq", v2, 1], ["cont"], None], _P(T + 11)])
    _, inner_brk = mk_loop(kind2, v2, 3, [_P(T + 10), ["if", ["eq", v2, 1], ["brk"], None], _P(T + 11)])
    w2 = [v2] if kind2 == "whl" else []
    yield "fall", [_P(T), _P(T + 1)], []
    yield "cont-some", [_P(T), ["if", ["mod", v, 2, 1], ["blk", [_P(T + 2), ["cont"]]], None], _P(T + 1)], []
    yield "cont-all", [_P(T), ["cont"]], []
    yield "cont-all-dead-code", [_P(T), ["cont"], _P(T + 1)], []
    yield "cont-bare-if", [_P(T), ["if", ["mod", v, 2, 0], ["cont"], None], _P(T + 1)], []
    yield "cont-nested-block", [_P(T), ["blk", [["if", ["eq", v, 1], ["blk", [["blk", [_P(T + 2), ["cont"]]]]], None], _P(T + 3)]], _P(T + 1)], []
    yield "cont-else", [_P(T), ["if", ["lt", v, 2], ["blk", [_P(T + 2)]], ["blk", [_P(T + 3), ["cont"]]]], _P(T + 1)], []
    yield "cont-first-iterations", [_P(T), ["if", ["lt", v, 2], ["cont"], None], _P(T + 1)], []
    yield "cont-last-iterations", [_P(T), ["if", ["not", ["lt", v, 2]], ["blk", [["cont"]]], None], _P(T + 1)], []
    yield "cont-after-await", [_P(T), ["x", ["W", child, 0]], ["if", ["mod", v, 2, 1], ["cont"], None], _P(T + 1)], []
    yield "cont-after-call", [_P(T), ["x", ["C", [T + 4, T + 5]]], ["if", ["mod", v, 2, 1], ["cont"], None], _P(T + 1)], []
    yield "break", [_P(T), ["if", ["eq", v, 2], ["blk", [_P(T + 2), ["brk"]]], None], _P(T + 1)], []
    yield "break-first", [_P(T), ["brk"]], []
    yield "break-or-cont", [_P(T), ["if", ["eq", v, 1], ["cont"], ["blk", [["if", ["eq", v, 3], ["brk"], None]]]], _P(T + 1)], []
    yield "return", [_P(T), ["if", ["eq", v, 2], ["blk", [_P(T + 2), ["ret"]]], None], _P(T + 1)], []
    yield "nested", [_P(T)] + pre2 + [inner_plain, _P(T + 1)], w2
    yield "nested-inner-cont", [_P(T)] + pre2 + [inner_cont, _P(T + 1)], w2
    yield "nested-inner-break", [_P(T)] + pre2 + [inner_brk, _P(T + 1)], w2
    yield "nested-then-cont", [_P(T)] + pre2 + [inner_plain, ["if", ["mod", v, 2, 1], ["cont"], None], _P(T + 1)], w2
    yield "nested-first", pre2 + [inner_plain, _P(T)], w2
    if in_task:
        yield "yield-in-branch", [_P(T), ["if", ["mod", v, 2, 1], ["blk", [_P(T + 2), ["yld"], _P(T + 3)]], None], _P(T + 1)], []
        yield "yield", [_P(T), ["yld"], _P(T + 1)], []
        yield "yield-then-cont", [_P(T), ["yld"], ["if", ["mod", v, 2, 1], ["cont"], None], _P(T + 1)], []


LOOP_CONTEXTS = ("task-awaited", "task-detached", "main", "call-from-main")


def loop_kind_programs():
    """For and while loops whose iterations end in every way, (a) in an async task while two or three
    other tasks are runnable, (b) in main and (c) in a plain function called from main while
    background tasks exist.  -> (program, label)"""
    for kind in ("for", "whl"):
        for ctx in LOOP_CONTEXTS:
            in_task = ctx.startswith("task")
            fk = 1 if in_task else 0
            for kind2 in ("for", "whl"):
                for name, items, w2 in loop_body_kinds(0, 1, fk * 1000 + 100, kind2, 4, in_task):
                    if kind2 == "whl" and not w2:
                        continue            # the body has no nested loop: one copy is enough
                    pre, loop = mk_loop(kind, 0, 4, items)
                    dcl = [["dcl", w, 0] for w in ([0] if kind == "whl" else []) + w2]
                    f2 = [["L", 3, [["P", 2001]]], ["P", 2002], ["R"]]
                    f3 = [["Y"], ["P", 3001], ["Y"], ["P", 3002], ["R"]]
                    f4 = [["P", 4001], ["R"]]
                    if in_task:
                        f1 = [["X", d] for d in dcl] + [["X", loop], ["P", 1001], ["R"]]
                        if ctx == "task-awaited":
                            main = [["S", 1, 0], ["S", 2, 1], ["S", 3, 2], ["A", 0, 0], ["A", 1, 0], ["A", 2, 0]]
                        else:
                            main = [["S", 2, 1], ["S", 1, 0]] + [["P", k] for k in range(1, 15)]
                    else:
                        f1 = [["R"]]
                        if ctx == "main":
                            core = [["X", d] for d in dcl] + [["X", loop]]
                        else:
                            core = [["X", ["call", dcl + [loop, _P(7)]]]]
                        main = [["S", 2, 0], ["S", 3, 1]] + core + [["P", 8], ["A", 0, 0], ["A", 1, 0]]
                    yield ({"step": 5, "funs": json.loads(json.dumps([main, f1, f2, f3, f4]))},
                           "%s/%s/%s%s" % (kind, ctx, name, "+" + kind2 if w2 or "nested" in name else ""))
    # a loop body that is a single statement, not a block: for (..) println(..);   for (..) if (c) continue;
    for body, name in ((_P(1100), "unbraced-print"), (["if", ["mod", 0, 2, 1], ["cont"], None], "unbraced-if-continue")):
        loop = ["for", 0, 3, body]
        f2 = [["L", 3, [["P", 2001]]], ["P", 2002], ["R"]]
        f3 = [["Y"], ["P", 3001], ["Y"], ["P", 3002], ["R"]]
        yield ({"step": 5, "funs": json.loads(json.dumps([[["S", 1, 0], ["S", 2, 1], ["S", 3, 2], ["A", 0, 0], ["A", 1, 0], ["A", 2, 0]],
                                                          [["X", loop], ["P", 1001], ["R"]], f2, f3]))}, "for/task-awaited/" + name)
        yield ({"step": 5, "funs": json.loads(json.dumps([[["S", 2, 0], ["S", 3, 1], ["X", loop], ["P", 8], ["A", 0, 0], ["A", 1, 0]],
                                                          [["R"]], f2, f3]))}, "for/main/" + name)


def loop_exhaustive_programs(nitems):
    """Every loop body of <= nitems statements over a small alphabet of iteration endings, as a for and as a
    while loop, in a task next to two runnable tasks and in main with two background tasks."""
    import itertools

    def alphabet(v, T, in_task):
        a = [lambda j: _P(T + j),
             lambda j: ["cont"],
             lambda j: ["if", ["mod", v, 2, 1], ["cont"], None],
             lambda j: ["if", ["eq", v, 1], ["brk"], None],
             lambda j: ["for", 5 + j, 2, ["blk", [_P(T + 20 + j)]]],
             lambda j: ["if", ["lt", v, 2], ["blk", [_P(T + 30 + j)]], ["blk", [["cont"]]]]]
        if in_task:
            a.append(lambda j: ["yld"])
        return a
    for in_task in (True, False):
        fk = 1 if in_task else 0
        T = fk * 1000 + 100
        al = alphabet(0, T, in_task)
        for n in range(0, nitems + 1):
            for combo in itertools.product(range(len(al)), repeat=n):
                items = [_P(T)] + [al[a](j + 1) for j, a in enumerate(combo)]
                for kind in ("for", "whl"):
                    pre, loop = mk_loop(kind, 0, 3, json.loads(json.dumps(items)))
                    dcl = [["X", ["dcl", 0, 0]]] if kind == "whl" else []
                    f2 = [["L", 2, [["P", 2001]]], ["P", 2002]]              # void: runs past its last statement
                    f3 = [["Y"], ["P", 3001], ["Y"]]                         # void: ends with a yield
                    if in_task:
                        f1 = dcl + [["X", loop], ["P", 1001], ["R"]]
                        main = [["S", 1, 0], ["S", 2, 1], ["S", 3, 2], ["A", 0, 0], ["A", 1, 0], ["A", 2, 0]]
                    else:
                        f1 = [["R"]]
                        main = [["S", 2, 0], ["S", 3, 1]] + dcl + [["X", loop], ["P", 8], ["A", 0, 0], ["A", 1, 0]]
                    yield {"step": 5, "funs": [main, f1, f2, f3]}


def livelock_programs():
    """A loop in a plain function called from a task: the auto-yield unwinds the call, the task calls the
    function afresh on every turn and never finishes (a defect of the interpreter outside C15's statement -
    every turn still ends at the iteration boundary; reported to C14's owner).  The model mirrors it
    (no halt within the step cap), the implementation must hang too; the common prefix is compared."""
    for kind in ("for", "whl"):
        pre, loop = mk_loop(kind, 0, 2, [_P(1100), ["if", ["eq", 0, 1], ["cont"], None], _P(1101)])
        dcl = [["dcl", 0, 0]] if kind == "whl" else []
        f1 = [["P", 1001], ["X", ["call", dcl + [loop, _P(1102)]]], ["P", 1002], ["R"]]
        f2 = [["L", 3, [["P", 2001]]], ["R"]]
        yield {"step": 5, "funs": [[["S", 1, 0], ["S", 2, 1], ["A", 1, 0], ["A", 0, 0]], f1, f2]}


def exhaustive_programs(natoms, ntasks):
    """Every program whose main starts `ntasks` tasks (one function each) and then awaits them in order,
    each body being a sequence of <= natoms atoms over a small alphabet of suspension points."""
    import itertools
    atoms = [["Y"], ["L", 1, [["P", 1]]], ["Z", 10], ["C", [2, 3]], ["W", 99]]
    seqs = []
    for n in range(0, natoms + 1):
        seqs += [list(s) for s in itertools.product(range(len(atoms)), repeat=n)]
    for combo in itertools.product(seqs, repeat=ntasks):
        funs = [[]]
        child = ntasks + 1
        for k, seq in enumerate(combo):
            fk = k + 1
            body = []
            for j, a in enumerate(seq):
                st = json.loads(json.dumps(atoms[a]))
                if st[0] == "W":
                    st = ["W", child, j]
                if st[0] == "L":
                    st[2] = [["P", fk * 1000 + j]]
                if st[0] == "C":
                    st[1] = [fk * 1000 + 100 + j, fk * 1000 + 200 + j]
                body.append(st)
                body.append(["P", fk * 1000 + 500 + j])
            body.append(["R"])
            funs.append(body)
        funs.append([["P", child * 1000], ["Y"], ["R"]])          # the child every "W" awaits
        funs[0] = [["S", k + 1, k] for k in range(ntasks)] + [["P", 1]] + [["A", k, 0] for k in range(ntasks)]
        yield {"step": 5, "funs": funs}


def loop_features(prog):
    """Which loops a program has: '<for|whl>/<task|main|call>/<ending>' for every loop and every way its
    iterations can end (fall = the body can run to its end is always possible and not listed)."""
    out = set()
    for fk, body in enumerate(prog["funs"]):
        for st in body:
            if st[0] == "L":
                out.add("for/%s/plain" % ("task" if fk else "main"))
            if st[0] != "X":
                continue

            def visit(b, ctx, depth):
                k = b[0]
                if k in ("for", "whl"):
                    bod = b[3] if k == "for" else b[2]
                    pre = "%s/%s/" % (k, ctx)
                    ends = set()
                    if can_continue(bod):
                        ends.add("continue")
                    for x in b_walk(bod):
                        if x[0] == "brk":
                            ends.add("break")
                        elif x[0] == "ret":
                            ends.add("return")
                        elif x[0] == "yld":
                            ends.add("yield")
                        elif x[0] in ("for", "whl"):
                            ends.add("nested-loop")
                    if bod[0] == "blk" and bod[1] and bod[1][-1][0] == "cont":
                        ends.add("continue-always")
                    for e in ends or ["plain"]:
                        out.add(pre + e)
                    if depth:
                        out.add(pre + "is-nested")
                    visit(bod, ctx, depth + 1)
                elif k == "call":
                    for c in b[1]:
                        visit(c, "call-from-" + ctx, depth)
                else:
                    for c in b_children(b):
                        visit(c, ctx, depth)
            visit(st[1], "task" if fk else "main", 0)
    return out


# ------------------------------------------------------------------------------ running both sides
def run_impl(impl_dir, prog, timeout=10, clock=True, max_chars=None):
    """Merged stdout+stderr lines of the implementation on the program (CBV_SCHED flushes stdout
    before every trace line, so one pipe for both keeps the true order)."""
    d = tempfile.mkdtemp(prefix="c15run-", dir=common.SCRATCH_ROOT)
    try:
        p = os.path.join(d, "t.cb")
        with open(p, "w") as fh:
            fh.write(prog if isinstance(prog, str) else render_cb(prog))
        env = dict(os.environ)
        env["CB_VERIF_SCHED_TRACE"] = "1"
        if clock:
            env["CB_VERIF_CLOCK"] = str(prog["step"])
        else:
            env.pop("CB_VERIF_CLOCK", None)
        try:
            r = subprocess.run([os.path.join(impl_dir, "main"), p], cwd=impl_dir, env=env, timeout=timeout,
                               stdout=subprocess.PIPE, stderr=subprocess.STDOUT)
            rc, out = r.returncode, r.stdout.decode("utf-8", "replace")
        except subprocess.TimeoutExpired as e:
            rc, out = 124, (e.stdout or b"")[:max_chars].decode("utf-8", "replace")
        return rc, (out.split("\n")[:-1] if out.endswith("\n") else (out.split("\n") if out else []))
    finally:
        shutil.rmtree(d, ignore_errors=True)


_V = re.compile(r"^V (-?\d+) (-?\d+) (\d+)$")
_NUM = re.compile(r"^-?\d+$")


def normalise(lines):
    """Implementation lines -> (comparable lines, awaited values [(got, expected)])."""
    out, vals = [], []
    for l in lines:
        m = _V.match(l)
        if m:
            vals.append((int(m.group(1)), int(m.group(2))))
            out.append("P " + m.group(3))
        elif _NUM.match(l):
            out.append("P " + l)          # the elapsed-time print of an E statement
        else:
            out.append(l)
    return out, vals


def canon(lines):
    """Identity.  (Before hook commit 5421d80 cbv_clock wrote its line without flushing stdout, so clock
    lines could overtake buffered program lines and both streams were re-ordered inside such segments;
    the hook now flushes, the merged stream is the true order and is compared as it is.)"""
    return list(lines)


def run_model(progs, mode="trace"):
    data = ("\n".join(model_line(p) for p in progs) + "\n").encode()
    rc, o, e = common.sh([common.model_bin(PROP), mode], input=data, timeout=1200)
    if rc != 0:
        raise RuntimeError("model failed: " + e[-500:])
    res, cur = [], []
    for l in o.split("\n"):
        if l == "END":
            res.append(cur); cur = []
        elif l:
            cur.append(l)
    if len(res) != len(progs):
        raise RuntimeError("model result count %d != %d" % (len(res), len(progs)))
    return res


def split_model(mlines):
    flags = set(l.split()[0] for l in mlines if l.startswith("#"))
    return [l for l in mlines if not l.startswith("#")], flags


# ------------------------------------------------------------------------------ the property's own oracle
def loop_markers(prog):
    """tag -> facts about the loop whose iterations start by printing that tag (the first print of the
    loop body).  fk/stmt: function and top-level statement; main: a loop that runs outside any task
    (main's body or a plain function called from it); exits: the top-level statement contains break /
    return (a turn that prints the marker may then end without a loop yield).  (Until fix a1ebdfd the
    two-iterations rules were not applied to a while loop whose iteration can end by `continue`, former
    finding C15-while-continue-no-suspension; they apply to every loop now.)"""
    mk = {}
    for fk, body in enumerate(prog["funs"]):
        for i, st in enumerate(body):
            if st[0] == "L" and fk:
                for x in st[2]:
                    if x[0] == "P":
                        mk[x[1]] = {"fk": fk, "stmt": i, "main": False, "exits": False}; break
                    if x[0] == "C" and x[1]:
                        mk[x[1][0]] = {"fk": fk, "stmt": i, "main": False, "exits": False}; break
            if st[0] == "X":
                exits = any(x[0] in ("brk", "ret") for x in b_walk(st[1]))

                def visit(b, in_call):
                    k = b[0]
                    if k in ("for", "whl"):
                        bod = b[3] if k == "for" else b[2]
                        items = bod[1] if bod[0] == "blk" else [bod]
                        for x in items:
                            if x[0] in ("inc", "set"):
                                continue
                            if x[0] == "x" and x[1][0] == "P":
                                if fk == 0 or not in_call:
                                    mk[x[1][1]] = {"fk": fk, "stmt": i, "main": fk == 0, "exits": exits}
                            break
                        visit(bod, in_call)
                    elif k == "call":
                        for c in b[1]:
                            visit(c, True)
                    else:
                        for c in b_children(b):
                            visit(c, in_call)
                visit(st[1], False)
    return mk


def oracle(lines, vals, flags, prog=None):
    """The property's own reading, evaluated on the IMPLEMENTATION's trace (never on the model's):
      * turns are served in the order ids were pushed (FIFO), the skip branch is never taken, a finished
        task gets no turn, a task is blocked only on an unfinished task;
      * "every other runnable task gets exactly one turn before it runs again, no task is overtaken
        twice": between the moment a task is queued and its next turn every task queued in front of it
        gets exactly one turn and nobody gets two;
      * "whenever a task suspends at a loop-iteration boundary": a task runs at most one iteration of a
        loop per turn and ends that turn with `yield .. loop=1` + exactly one requeue (iterations are
        recognised by the first line the loop body prints; `prog` is the generated program);
      * sleep: `woke` only at now >= wake; the clock never runs backwards;
      * await: the value an await yields is the awaited task's result.
    Returns the list of failures (empty = the reading holds on this run)."""
    bad = []
    pushes, turns = [], []
    done = set()
    last_clock = None
    queue = []                 # the ready queue as the trace itself implies it
    since = {}                 # queued task -> {other task: turns since it was queued}
    markers = loop_markers(prog) if prog else {}
    spans = []                 # open turns: [task, {marker tag: count}, yielded_loop, turns of others since first marker]
    main_last = {}             # marker tag of a loop outside any task -> (turns so far, queue non-empty) at its latest print

    def push(x):
        since[x] = {}
        queue.append(x)

    for l in lines:
        w = l.split()
        if len(w) >= 2 and w[0] == "P" and markers:
            try:
                tag = int(w[1])
            except ValueError:
                continue
            if tag in markers and markers[tag]["main"] and not spans:
                # a loop of main (or of a plain function main calls): its iteration boundary runs the
                # background tasks, so two iteration starts with a non-empty queue have a turn between them
                prev = main_last.get(tag)
                if prev and prev[1] and prev[0] == len(turns):
                    bad.append("main ran two iterations of its loop (statement %d) back to back while tasks were queued: no "
                               "background cycle at the loop-iteration boundary" % markers[tag]["stmt"])
                main_last[tag] = (len(turns), bool(queue))
            elif tag in markers and spans and not markers[tag]["main"]:
                sp = spans[-1]
                if sp[1].get(tag):
                    fk, i = markers[tag]["fk"], markers[tag]["stmt"]
                    others = sp[3]
                    worst = max([others.count(o) for o in set(others)] or [0])
                    waiting = [q for q in queue if q != sp[0]]
                    bad.append("task %s ran two iterations of its loop (statement %d of f%d) inside one turn%s: it did not give up its "
                               "turn at the loop-iteration boundary; %d turns of other tasks were served meanwhile (up to %d for one task)"
                               % (sp[0], i, fk, (" while task%s %s waited in the ready queue" % ("s" if len(waiting) > 1 else "",
                                                 ", ".join(waiting))) if waiting else "", len(others), worst))
                sp[1][tag] = sp[1].get(tag, 0) + 1
                sp[3] = []
            continue
        if len(w) < 3 or w[0] != "CBV":
            continue
        ev = w[1]
        if ev == "spawn" or ev == "requeue":
            pushes.append(w[2])
        if ev == "spawn":
            push(w[2])
        elif ev == "skip":
            pushes.append(w[2])
            bad.append("skip branch taken for task %s (a task was queued while executing)" % w[2])
        elif ev == "turn":
            x = w[2]
            turns.append(x)
            if x in done:
                bad.append("finished task %s gets a turn" % x)
            for sp in spans:
                sp[3].append(x)
            # no task overtaken twice / everybody in front exactly once
            for q in queue:
                if q != x:
                    since[q][x] = since[q].get(x, 0) + 1
                    if since[q][x] == 2:
                        bad.append("task %s gets a second turn while task %s is still waiting in the queue for its turn "
                                   "(overtaken twice)" % (x, q))
            if x in queue:
                if queue[0] != x:
                    bad.append("task %s gets its turn before task %s that was queued in front of it" % (x, queue[0]))
                queue.remove(x)
            spans.append([x, {}, False, []])
        elif ev == "yield":
            if spans and spans[-1][0] == w[2] and w[3] == "loop=1":
                spans[-1][2] = True
        elif ev in ("requeue", "complete"):
            if spans and spans[-1][0] == w[2]:
                sp = spans.pop()
                if sp[1] and not sp[2] and ev == "requeue" and not any(markers[t]["exits"] for t in sp[1]):
                    tag = next(iter(sp[1]))
                    fk, i = markers[tag]["fk"], markers[tag]["stmt"]
                    bad.append("task %s finished an iteration of its loop (statement %d of f%d) but its turn did not end with a "
                               "loop-boundary yield" % (sp[0], i, fk))
            if ev == "requeue":
                push(w[2])
            else:
                done.add(w[2])
        elif ev == "clock":
            t = int(w[2])
            if last_clock is not None and t < last_clock:
                bad.append("clock went backwards")
            last_clock = t
        elif ev in ("woke", "asleep"):
            now, wake = int(w[3].split("=")[1]), int(w[4].split("=")[1])
            if ev == "woke" and now < wake:
                bad.append("task %s woke at %d before its deadline %d" % (w[2], now, wake))
        elif ev == "blocked":
            if w[4] in done:
                bad.append("task %s still blocked on finished task %s" % (w[2], w[4]))
    if turns != pushes[:len(turns)]:
        k = next(i for i in range(len(turns)) if i >= len(pushes) or turns[i] != pushes[i])
        bad.append("turn %d goes to task %s but the FIFO order of pushes demands %s" % (
            k + 1, turns[k], pushes[k] if k < len(pushes) else "nobody"))
    if "#EARLY-EXIT" not in flags:
        for got, exp in vals:
            if got != exp:
                bad.append("await returned %d, the awaited task returns %d" % (got, exp))
    seen, out = set(), []
    for b in bad:
        if b not in seen:
            seen.add(b); out.append(b)
    return out


# ------------------------------------------------------------------------------ shrinking
def b_variants(b):
    """One-step reductions of a structured statement: an element of a block or call deleted, an if replaced
    by a branch, a loop bound lowered, or the same inside a sub-statement."""
    k = b[0]
    if k in ("blk", "call"):
        for i in range(len(b[1])):
            yield [k, b[1][:i] + b[1][i + 1:]]
        for i, c in enumerate(b[1]):
            for v in b_variants(c):
                yield [k, b[1][:i] + [v] + b[1][i + 1:]]
    elif k == "if":
        yield b[2]
        if b[3] is not None:
            yield ["if", b[1], b[2], None]
        for v in b_variants(b[2]):
            yield ["if", b[1], v, b[3]]
        if b[3] is not None:
            for v in b_variants(b[3]):
                yield ["if", b[1], b[2], v]
    elif k == "for":
        if b[2] > 2:
            yield ["for", b[1], b[2] - 1, b[3]]
        for v in b_variants(b[3]):
            yield ["for", b[1], b[2], v]
    elif k == "whl":
        if b[1][0] == "lt" and b[1][2] > 2:
            yield ["whl", ["lt", b[1][1], b[1][2] - 1], b[2]]
        for v in b_variants(b[2]):
            if any(x[0] == "inc" for x in b_walk(v)):       # never delete the step of the counter
                yield ["whl", b[1], v]


def shrink(prog, still_bad, budget=120):
    """Greedy statement deletion (top-level statements, then inside structured statements) keeping
    `still_bad(prog)` true."""
    prog = json.loads(json.dumps(prog))
    changed = True
    while changed and budget > 0:
        changed = False
        for fk in range(len(prog["funs"])):
            body = prog["funs"][fk]
            cands = []
            for i in range(len(body)):
                cand = json.loads(json.dumps(prog))
                del cand["funs"][fk][i]
                cands.append(cand)
            for i in range(len(body)):
                if body[i][0] == "X":
                    for v in b_variants(body[i][1]):
                        cand = json.loads(json.dumps(prog))
                        cand["funs"][fk][i] = ["X", json.loads(json.dumps(v))]
                        cands.append(cand)
            for cand in cands:
                if not valid(cand):
                    continue
                budget -= 1
                if budget <= 0:
                    return prog
                if still_bad(cand):
                    prog = cand; changed = True; break
            if changed:
                break
    return prog


def cond_vars(c):
    if c[0] == "not":
        return cond_vars(c[1])
    return [c[1]] if c[0] in ("eq", "lt", "mod") else []


def valid_b(b, fk, top, in_call, in_loop, decl):
    """A structured statement the renderer and the implementation accept: counters are declared before
    they are read (`decl`: the declared counters, extended by top-level `dcl` statements), a while loop
    steps its counter first (so that it terminates whatever its body does), yield only in a task, ..."""
    k = b[0]
    if k == "x":
        x = b[1]
        return x[0] in ("P", "C", "F", "Z") or (x[0] == "W" and len(x) <= 3)
    if k == "dcl":
        if not top or b[1] in decl:
            return False
        decl.add(b[1])
        return True
    if k in ("set", "inc"):
        return b[1] in decl
    if k == "yld":
        return fk != 0 and not in_call
    if k in ("cont", "brk"):
        return in_loop
    if k == "if":
        return all(v in decl for v in cond_vars(b[1])) and all(valid_b(c, fk, False, in_call, in_loop, decl) for c in b_children(b))
    if k == "blk":
        return all(valid_b(c, fk, False, in_call, in_loop, decl) for c in b[1])
    if k == "for":
        if b[1] in decl:
            return False
        return valid_b(b[3], fk, False, in_call, True, decl | {b[1]})
    if k == "whl":
        c, bod = b[1], b[2]
        if not (c[0] == "lt" and c[1] in decl and bod[0] == "blk" and bod[1] and bod[1][0] == ["inc", c[1]]):
            return False
        return valid_b(bod, fk, False, in_call, True, decl)
    if k == "call":
        own = set()
        return not in_call and all(valid_b(c, fk, True, True, False, own) for c in b[1])
    return True


def valid(prog):
    """Slots are declared before use, exactly once; M before E; V variables exist."""
    voids = void_funs(prog)
    for fk, body in enumerate(prog["funs"]):
        declared, marked, vars_ = set(), False, set()
        void_slots = set()
        counters = set()
        for st in body:
            k = st[0]
            if k == "X":
                if not valid_b(st[1], fk, True, False, False, counters):
                    return False
            elif k in ("S", "z"):
                if st[2] in declared:
                    return False
                declared.add(st[2])
                if k == "S" and st[1] in voids:
                    void_slots.add(st[2])
            elif k == "T":
                if st[1] not in declared or st[3] in declared or st[1] in void_slots:
                    return False
                declared.add(st[3])
            elif k == "A":
                if st[1] not in declared:
                    return False
                if st[1] not in void_slots:
                    vars_.add("r%d_%d" % (fk, st[1]))
            elif k == "W":
                if st[1] in voids:
                    if len(st) > 3:
                        return False
                else:
                    vars_.add("w%d_%d" % (fk, st[2]))
            elif k == "G":
                if st[1] in voids:
                    return False
            elif k == "V":
                if st[1] not in vars_:
                    return False
            elif k == "M":
                marked = True
            elif k == "E" and not marked:
                return False
            elif k == "D":
                vars_.add(st[1])
            elif k == "L":
                for x in st[2]:
                    if x[0] in ("S", "z", "T", "M", "E", "V", "A", "B"):
                        return False
                    if x[0] == "W" and len(x) > 3 and x[3] not in vars_:
                        return False
        for st in walk(body):
            if st[0] in ("S", "F", "W", "G") and not (fk < st[1] < len(prog["funs"])):
                return False
        for st in walk(body):
            if st[0] == "W" and len(st) > 3 and st[1] in voids:
                return False
    return True


# ------------------------------------------------------------------------------ known findings
def replay_finding(f, impl_dir):
    """True if the stored input still shows the defect on the implementation."""
    prog = f["replay"]["program"]
    rc, lines = run_impl(impl_dir, prog)
    nl, vals = normalise(lines)
    if f["replay"]["kind"] == "await-value":
        return any(g != e for g, e in vals), nl
    if f["replay"]["kind"] == "lifo-delay":
        # the awaiting task `waiter` must resume (its step must end) before the sleeper spins more than once
        waiter, target = str(f["replay"]["waiter"]), str(f["replay"]["target"])
        seen_done, spins = False, 0
        for l in nl:
            if l == "CBV complete " + target:
                seen_done = True
            elif seen_done and l.startswith("CBV asleep "):
                spins += 1
            elif seen_done and l in ("CBV requeue " + waiter, "CBV complete " + waiter):
                break
        return spins > 1, nl
    if f["replay"]["kind"] == "loop-two-iterations":
        fails = oracle(nl, vals, set(), prog)
        return any("two iterations" in x for x in fails), nl
    if f["replay"]["kind"] == "hang":
        rc, lines = run_impl(impl_dir, prog, timeout=3)
        return rc == 124, None
    return False, nl


# ------------------------------------------------------------------------------ main
def compare_batch(progs, impl_dir):
    """[(prog, model lines, flags, impl lines, values, rc)] - both line lists in canonical form.
    When the model does not halt within its step cap (a livelock: an await loop that can never end)
    the implementation must hang too; the lists are then cut to their common length (minus the tail the
    killed process may have lost) so that `m == il` means "agree on everything observable"."""
    models = run_model(progs)
    splits = [split_model(ml) for ml in models]
    # a program the model cannot finish must hang: 1.5 s of the endless trace is enough (and is cut to 3 MB)
    impls = common.pmap(lambda pf: run_impl(impl_dir, pf[0], timeout=(1.5 if "#CAP" in pf[1][1] else 10), max_chars=3000000),
                        list(zip(progs, splits)))
    res = []
    for p, (m, flags), (rc, il) in zip(progs, splits, impls):
        nl, vals = normalise(il)
        m, nl = canon(m), canon(nl)
        if "#TRUNC" in flags and "#CAP" not in flags:
            nl = nl[:len(m)]          # the model printed the events of its first 30 000 machine steps only
        if "#CAP" in flags:
            if rc == 124:
                n = max(0, min(len(m), len(nl)) - 40)
                m, nl = m[:n], nl[:n]
            else:
                m = m + ["<model: no halt within the step cap>"]
        res.append((p, m, flags, nl, vals, rc))
    return res


def report_disagreement(rep, prog, impl_dir, origin):
    def cls(msg):
        """Kind of an oracle failure: its text up to the first colon without numbers (+ whether others waited)."""
        return re.sub(r"\d+", "N", msg.split(":")[0].split(" while task")[0]) + ("!" if " while task" in msg else "")
    (p0, m0, fl0, il0, vals0, rc0), = compare_batch([prog], impl_dir)
    f0 = oracle(il0, vals0, fl0, prog)      # the property's own reading on the original input
    want = cls(f0[0]) if f0 else None

    def still_bad(c):
        (p, m, fl, il, vals, rc), = compare_batch([c], impl_dir)
        # keep the same failure of the property's own reading while shrinking (a smaller program on which only
        # the model comparison fails would lose the concrete counterexample)
        return m != il and (want is None or want in [cls(x) for x in oracle(il, vals, fl, c)])
    small = shrink(prog, still_bad)
    (p, m, fl, il, vals, rc), = compare_batch([small], impl_dir)
    fails = oracle(il, vals, fl, small)
    k = next((i for i in range(min(len(m), len(il))) if m[i] != il[i]), min(len(m), len(il)))
    text = "scheduler trace differs from the proved model at line %d (model %r, implementation %r)" % (
        k + 1, m[k] if k < len(m) else "<end>", il[k] if k < len(il) else "<end>")
    if fails:
        text += "; property's own reading fails: " + fails[0]
    rep.violation("corr", {"program": small, "cb": render_cb(small), "model_input": model_line(small), "origin": origin,
                           "first_difference_line": k + 1, "model": m[max(0, k - 6):k + 4], "impl": il[max(0, k - 6):k + 4],
                           "rc": rc, "oracle_failures": fails,
                           "broken": "correspondence Model.step = SimpleEventLoop (carrier of every C15 theorem)"},
                  text, no_failing_input=not fails)


def realtime_programs():
    """now() around sleep on the real clock, alone and in company."""
    progs = []
    for ms in [0, 1, 3, 7, 10, 15, 20, 30, 45, 60]:
        progs.append((ms, """async int spin() { for (int i = 0; i < 40; i = i + 1) { int z = i * 2; } return 1; }
async int nap(int ms) { long t0 = now(); await sleep(ms); long t1 = now(); println("D", t1 - t0, ms); return 2; }
async int other() { await sleep(%d); return 3; }
void main() {
    long a = now();
    await sleep(%d);
    long b = now();
    println("D", b - a, %d);
    Future<int> s = spin();
    Future<int> o = other();
    Future<int> n = nap(%d);
    int r = await n;
    long c = now();
    Future<int> z = sleep(%d);
    spin();
    await z;
    long d = now();
    println("D", d - c, %d);
}
""" % (max(0, ms // 2), ms, ms, ms, ms, ms)))
    return progs


def family_lines(atoms, natoms, ntasks):
    """Model input lines of every program: main starts `ntasks` tasks, prints, awaits them in order; each body
    any sequence of <= natoms atoms (model tokens); `W` awaits a fresh child `Y R`."""
    import itertools
    seqs = []
    for n in range(0, natoms + 1):
        seqs += [" ".join(x) for x in itertools.product(atoms, repeat=n)]
    child = ntasks + 1
    atoms_txt = [a.replace("W", "W%d" % child) for a in atoms]
    seqs = []
    for n in range(0, natoms + 1):
        seqs += [" ".join(x) for x in itertools.product(atoms_txt, repeat=n)]
    main = " ".join("S%d:%d" % (k + 1, k) for k in range(ntasks)) + " P1 " + " ".join("A%d" % k for k in range(ntasks))
    for combo in itertools.product(seqs, repeat=ntasks):
        yield "5 ; " + main + " ; " + " ; ".join((c + " R").strip() for c in combo) + " ; Y R"


def explore_states(rep, families):
    """Model only: run every program of the families, collect the distinct abstract scheduler states
    (queue order | executing chain | status of every task), re-check the proved invariants on each."""
    states, cases, steps, nohalt = set(), 0, 0, 0
    nproc = common.NCPU

    def worker(lines):
        data = ("\n".join(lines) + "\n").encode()
        rc, o, e = common.sh([common.model_bin(PROP), "states-agg"], input=data, timeout=1500)
        if rc != 0:
            raise RuntimeError("model failed: " + e[-300:])
        return o.split("\n")
    for atoms, natoms, ntasks in families:
        lines = list(family_lines(atoms, natoms, ntasks))
        chunks = [lines[k::nproc] for k in range(nproc)]
        for out in common.pmap(worker, [c for c in chunks if c]):
            for l in out:
                if l.startswith("S "):
                    states.add(l)
                elif l.startswith("BAD "):
                    rep.violation("model-invariant", {"state": l},
                                  "extracted model visits a state violating a proved invariant: " + l, True)
                elif l.startswith("#CASES "):
                    cases += int(l.split()[1])
                elif l.startswith("#STEPS "):
                    steps += int(l.split()[1])
                elif l.startswith("#NOHALT "):
                    nohalt += int(l.split()[1])
    shapes = set()
    for st in states:
        m = re.match(r"S q=(\S*) x=(\S*) st=(\S*)", st)
        if m:
            shapes.add((len([x for x in m.group(1).split(",") if x]), len([x for x in m.group(2).split(",") if x]),
                        "".join(sorted(m.group(3)))))
    return {"programs": cases, "machine_steps": steps, "distinct_states": len(states), "state_shapes": len(shapes),
            "programs_without_halt": nohalt,
            "families": ["<= %d atoms over {%s} x %d tasks" % (n, ",".join(a), k) for a, n, k in families],
            "status_letters": "0 ready, 1 waiting-marked, 2 sleeping, 3 done"}


def run(rep):
    seed, tier = rep.seed, rep.tier
    t0 = time.time()
    cq = common.coq_check_props(PROP)
    common.proof_coverage(rep, cq)
    if not cq["ok"]:
        rep.violation("proof", {"theorem": cq["failed_theorem"], "log": cq["log"][-3000:]},
                      "proof obligation %s no longer checks" % cq["failed_theorem"], True)
    common.ensure_model(PROP)
    impl_dir = common.build_impl("plain")
    t_setup = time.time() - t0

    def stream():
        """(program, origin) in a fixed order: corpus, exhaustive families, random, deadline boundary."""
        corpus = os.path.join(common.VERIF, "corpus", "c15.json")
        if os.path.exists(corpus):
            for c in json.load(open(corpus)):
                yield c, "corpus"
        # the programs of repaired findings (known_findings/C15.json fixed_replays carry the generator's AST): trace equality
        # with the model and the oracle, in addition to the stdout comparison of common.run_fixed_replays
        kf = os.path.join(common.VERIF, "known_findings", PROP + ".json")
        for fr in json.load(open(kf)).get("fixed_replays", []):
            if fr.get("ast"):
                yield fr["ast"], "fixed-replay"
        for natoms, ntasks in exh:
            for p in exhaustive_programs(natoms, ntasks):
                yield p, "exhaustive"
        for p in loop_await_programs():
            yield p, "loop-await"
        # loops whose iterations end in every way, in tasks / main / a function called from main
        for p, label in loop_kind_programs():
            yield p, "loop-kinds"
        for p in loop_exhaustive_programs(2 if tier == "quick" else 3):
            yield p, "loop-exhaustive"
        for p in livelock_programs():
            yield p, "loop-in-called-function"
        seeds = [seed] if tier == "quick" else [seed, seed * 1000003 + 1, seed * 1000003 + 2]
        for sd in seeds:
            for k in range(n_rand):
                rng = rng_for(sd, "c15-rand", k)
                g = Gen(rng, globals_ok=(k % 10 == 0), timed=(k % 4 != 0))
                p = g.program()
                if valid(p):
                    yield p, ("random-globals" if k % 10 == 0 else ("random" if k % 4 else "random-untimed"))
            for k in range(n_xrand):
                rng = rng_for(sd, "c15-xloops", k)
                p = Gen(rng, globals_ok=False, timed=(k % 3 != 0), xloops=0.35).program()
                if valid(p):
                    yield p, "random-loops"
        # sleep(ms) with ms around multiples of the clock step: now == wake is reached exactly
        for stp in CLOCK_STEPS:
            for ms in [0, stp, 2 * stp, 3 * stp, 3 * stp + 1]:
                yield ({"step": stp, "funs": [[["S", 1, 0], ["S", 2, 1], ["P", 1], ["A", 0, 0], ["A", 1, 0]],
                                               [["M"], ["Z", ms], ["E"], ["R"]], [["Y"], ["P", 2001], ["Y"], ["R"]]]},
                       "deadline-boundary")

    exh = [(2, 2)] if tier == "quick" else [(3, 2), (2, 3)]
    n_rand = 700 if tier == "quick" else 5000
    n_xrand = 500 if tier == "quick" else 4000
    hist, bad, flagged = {}, [], {"#EARLY-EXIT": 0, "#LIFO-DELAY": 0, "#CAP": 0}
    feats, boundary_yields = {}, 0
    distinct, nontrivial, oracle_fail, samples = set(), 0, [], []
    events = n_eval = 0
    chunk = []

    def flush():
        nonlocal nontrivial, events, n_eval, boundary_yields
        if not chunk:
            return
        results = compare_batch([p for p, _ in chunk], impl_dir)
        for (p, m, fl, il, vals, rc), (_, o) in zip(results, chunk):
            n_eval += 1
            hist[o] = hist.get(o, 0) + 1
            for f in fl:
                if f in flagged:
                    flagged[f] += 1
            key = model_line(p)
            if key not in distinct:
                distinct.add(key)
                # non-trivial: at least two tasks interleave (a turn of one task between two turns of another)
                tl = [l.split()[2] for l in m if l.startswith("CBV turn ")]
                if len(set(tl)) >= 2 and any(tl[i] != tl[i + 1] for i in range(len(tl) - 1)):
                    nontrivial += 1
            events += len(m)
            for ft in loop_features(p):
                feats[ft] = feats.get(ft, 0) + 1
            boundary_yields += sum(1 for l in il if l.startswith("CBV yield ") and " loop=1 " in l)
            if m != il:
                bad.append((p, o))
            else:
                fails = oracle(il, vals, fl, p)
                if fails:
                    oracle_fail.append((p, o, fails))
            if o.startswith("random") and len(samples) < 2 and len(m) > 30:
                samples.append({"model_input": key, "first_lines": m[:12]})
        del chunk[:]

    for item in stream():
        chunk.append(item)
        if len(chunk) >= 2000:
            flush()
    flush()
    n_exh = hist.get("exhaustive", 0)
    rep.coverage.update({
        "evaluations": n_eval, "distinct_nontrivial": nontrivial,
        "rule": "main (CB_VERIF_SCHED_TRACE + CB_VERIF_CLOCK, stdout and stderr on one pipe) vs extracted Coq machine on the same task program; "
                "equality of the whole line sequence (CBV events incl. clock readings, and the program's own prints); distinct = distinct programs; "
                "non-trivial = at least two tasks get interleaved turns",
        "trace_lines_compared": events,
        "exhaustive": True,
        "exhaustive_space": "all programs: main starts k tasks then awaits them; each body any sequence of <= n atoms over {yield, 1-iteration loop, "
                            "await sleep(10), plain 2-statement call, await child()}; (n,k) in %s (%d programs)" % (exh, n_exh),
        "input_distribution": hist,
        "known_defect_shapes_in_stream": flagged,
        "disagreements": len(bad),
        "samples": samples,
        "loop_iteration_endings": dict(sorted(feats.items())),
        "loop_boundary_suspensions_compared": boundary_yields,
    })
    for p, o in bad[:4]:
        report_disagreement(rep, p, impl_dir, o)
    for p, o, fails in oracle_fail[:3]:
        rep.violation("oracle", {"program": p, "cb": render_cb(p), "failures": fails, "origin": o},
                      "implementation and model agree but the property's own reading fails: " + fails[0])
    t_corr = time.time() - t0 - t_setup

    # (4) reachable abstract states of the machine (model only), invariants re-checked on each
    if tier == "quick":
        fams = [(["Y", "Z10", "W"], 3, 3), (["Y", "Z10"], 2, 4)]
    else:
        fams = [(["Y", "Z10"], 4, 4), (["Y", "Z10", "W"], 3, 4), (["Y", "Z10", "W", "C2,3", "L1( P7 )"], 3, 3)]
    rep.coverage["reachable_states_model_only"] = explore_states(rep, fams)
    t_states = time.time() - t0 - t_setup - t_corr

    # (5) real time: only the lower bound can be tested without flaking
    rt = realtime_programs() if tier == "quick" else realtime_programs() * 3

    def rt_run(item):
        ms, src = item
        rc, lines = run_impl(impl_dir, src, clock=False, timeout=20)
        return ms, src, rc, lines
    n_rt = 0
    for ms, src, rc, lines in common.pmap(rt_run, rt, workers=4):
        ds = [l.split() for l in lines if l.startswith("D ")]
        n_rt += len(ds)
        if rc != 0 or len(ds) != 3:
            rep.violation("realtime-run", {"cb": src, "rc": rc, "lines": lines[-20:]}, "real-time sleep program did not run to completion")
        for d in ds:
            if int(d[1]) < int(d[2]):
                rep.violation("early-wake", {"cb": src, "elapsed": int(d[1]), "ms": int(d[2])},
                              "sleep(%s) resumed after %s ms of wall time" % (d[2], d[1]))
    rep.coverage["realtime_sleep_measurements"] = n_rt

    # (6) known findings
    for f in common.known_findings(PROP):
        still, nl = replay_finding(f, impl_dir)
        if nl is None:          # a hang: prefix comparison is done by compare_batch
            (p_, m, fl, nl, vals_, rc_), = compare_batch([f["replay"]["program"]], impl_dir)
        else:
            (ml,) = run_model([f["replay"]["program"]])
            m, fl = split_model(ml)
            m, nl = canon(m), canon(nl)
        if still:
            rep.known(f["id"], f["what_fails"])
        else:
            rep.notes.append("known finding %s no longer reproduces (fixed?)" % f["id"])
        if m != nl:
            rep.violation("corr-known", {"program": f["replay"]["program"], "model": m[:40], "impl": nl[:40]},
                          "model and implementation disagree on known-finding replay " + f["id"], True)

    # (7) thorough: independent re-check of the compiled proofs
    if tier != "quick":
        tc = time.time()
        rc, o, e = common.sh(["coqchk", "-silent", "-o", "-Q", ".", "Cb", "Cb.C15.Properties_C15"], cwd=common.COQ, timeout=1200)
        txt = o + e
        rep.coverage["coqchk"] = {"rc": rc, "axioms": "<none>" if "* Axioms: <none>" in txt else txt[-600:],
                                  "seconds": round(time.time() - tc, 1)}
        if rc != 0:
            rep.violation("coqchk", {"log": txt[-3000:]}, "coqchk rejects the compiled C15 proofs", True)
    rep.assumptions += [
        "what a statement asks of the scheduler (its request tree) is abstract in the scheduler theorems; the generated programs use top-level "
        "yields, for / while loops with continue, break, yield, return, if, nested blocks and nested loops, calls of plain functions (with loops "
        "when called from main), await, sleep, timeout, now(), run_event_loop(), async int and async void functions",
        "loop conditions and if conditions of generated bodies read loop counters only (the iteration-boundary theorems quantify over all "
        "such statements); a for loop whose init is an assignment (re-executed on every re-entry) is not generated",
        "the clock is any function of the read count in the theorems (monotone where stated); wall-clock monotonicity is assumed, not tested",
        "trace equality uses the CB_VERIF_CLOCK virtual clock; on real time only now_after - now_before >= ms is tested",
    ]
    rep.coverage["phase_seconds"] = {"proofs+builds": round(t_setup, 1), "correspondence": round(t_corr, 1),
                                     "state_exploration": round(t_states, 1), "total": round(time.time() - t0, 1)}


def replay(path):
    data = json.load(open(path))
    c = data["case"]
    common.ensure_model(PROP)
    impl_dir = common.build_impl("plain")
    if "program" in c:
        (p, m, fl, il, vals, rc), = compare_batch([c["program"]], impl_dir)
        print(render_cb(c["program"]))
        k = next((i for i in range(min(len(m), len(il))) if m[i] != il[i]), min(len(m), len(il)))
        print("model input:", model_line(c["program"]))
        print("first difference at line", k + 1)
        print("model:", m[max(0, k - 5):k + 5])
        print("impl: ", il[max(0, k - 5):k + 5])
        fails = oracle(il, vals, fl, c["program"])
        print("oracle:", fails)
        return 0 if m == il and not fails else 1
    if "cb" in c:
        rc, lines = run_impl(impl_dir, c["cb"], clock=False, timeout=20)
        print("\n".join(lines))
        return 1
    print(json.dumps(c, indent=1))
    return 1
