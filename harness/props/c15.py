"""C15 - deterministic round-robin scheduling; sleep never wakes early.

Theorems: coq/C15/Properties_C15.v, about the small-step machine of coq/C15/Model.v (SimpleEventLoop
+ the places the interpreter re-enters it) for EVERY task program (the statement semantics is a
Section variable).  Tie: generated task programs are printed as Cb source and as input of the
extracted machine (bin/c15_model); the implementation's CB_VERIF_SCHED_TRACE stream merged with the
program's own output (virtual clock CB_VERIF_CLOCK) must equal the model's event list line by line.
Independent of the model, the property's own reading is evaluated on the implementation's trace
(FIFO law, no skip, no early wake, awaited values) and on real time (now() around sleep).
"""
import json
import os
import re
import shutil
import subprocess
import tempfile
import time

import common
from common import rng_for

PROP = "C15"
LEVEL = "proof"
META = {
    "category": "proof",
    "technique": "Coq invariant proofs over a small-step machine of the re-entrant scheduler (any task program, any clock) + extracted-model trace equality against main's scheduler trace",
    "text": "Machine-checked theorems about a function-by-function Gallina model of SimpleEventLoop (register_task, run, run_one_cycle, "
            "execute_one_step's waiting/sleeping/timeout prelude, run_until_complete), run_background_tasks_one_cycle, the cycle after every "
            "statement of a statement list, await, sleep, timeout and now(): the schedule is a function of the program and of the clock "
            "readings; turns are served in exactly the order ids were pushed (FIFO law: turns ++ queue = queue0 ++ pushes), hence first runs in "
            "spawn order and exactly one turn of every queued task between two turns of a task; the queue never holds a duplicate, a finished or "
            "an executing task (the skip branch is dead); a task marked waiting is not stepped until its target is done and is stepped right "
            "after; an await loop over a target that is not suspended beneath it ends only when the target is done; a sleeping task is never "
            "stepped or completed on a clock reading below its deadline and every later reading of a monotone clock is >= deadline; a sleeper's "
            "turn changes nothing but the queue rotation. Two laws are refuted on the faithful model (await of a task suspended beneath the "
            "awaiting one returns before completion; a task whose target is done is not resumed while a task stepped from inside its await loop "
            "is itself awaiting) and reproduced on the binary as known findings. The model is tied to the code on every run by trace equality on "
            "generated task programs (<= 4 functions, <= 4 suspension points each, nested awaits, loops, plain calls, sleep/timeout on a virtual "
            "clock), exhaustive for a small alphabet in the thorough tier.",
    "note": "Trusted: Coq kernel (vm_compute for the refutation witnesses), no axioms (Print Assumptions: closed); extraction via ExtrOcamlBasic+"
            "ExtrOcamlString; hand-written model; statement semantics abstract (C14 covers bodies); the virtual-clock hook replaces the time "
            "source for trace equality; wall-clock monotonicity is assumed, on real time only now_after - now_before >= ms is tested.",
}

SLEEP_GRID = [0, 1, 5, 10, 15, 20, 30, 60]
CLOCK_STEPS = [1, 2, 5, 7, 10]


# ------------------------------------------------------------------------------ programs
# program = {"step": ms per clock read, "funs": [main body, f1 body, ...]}
# statement = list: ["P",tag] ["C",[tags]] ["F",f] ["S",f,slot] ["G",f,g] ["A",slot,exp] ["B",g,exp]
#   ["W",f] ["Z",ms] ["z",ms,slot] ["T",slot,ms,slot2] ["M"] ["E"] ["U"] ["Y"] ["R"] ["L",n,[simple..]]
#   ["V",var,exp,tag] (print of an awaited value: a model print with tag, value checked by the oracle)

def ret_value(f):
    return 100 + f


def render_cb(prog):
    """Cb source of a program."""
    funs = prog["funs"]
    out, helpers, uid = [], [], [0]
    nglob = 0
    for body in funs:
        for st in walk(body):
            if st[0] in ("G", "B"):
                nglob = max(nglob, st[2 if st[0] == "G" else 1] + 1)
    for g in range(nglob):
        out.append("Future<int> g%d;" % g)

    def fresh():
        uid[0] += 1
        return uid[0]

    def simple(st, fk, top, lastmark):
        k = st[0]
        if k == "P":
            return 'println("P", %d);' % st[1]
        if k == "C":
            n = fresh()
            helpers.append("void h%d() { %s }" % (n, " ".join('println("P", %d);' % t for t in st[1])))
            return "h%d();" % n
        if k == "F":
            return "f%d();" % st[1]
        if k == "S":
            return "Future<int> v%d_%d = f%d();" % (fk, st[2], st[1])
        if k == "G":
            return "g%d = f%d();" % (st[2], st[1])
        if k == "A":
            return ("int r%d_%d = await v%d_%d;" % (fk, st[1], fk, st[1])) if top else ("await v%d_%d;" % (fk, st[1]))
        if k == "B":
            return ("int rg%d_%d = await g%d;" % (fk, fresh(), st[1])) if top else ("await g%d;" % st[1])
        if k == "W":
            if len(st) > 3:
                return "%s = await f%d();" % (st[3], st[1])          # r = await child(); (r declared by a "D" statement)
            return ("int w%d_%d = await f%d();" % (fk, st[2], st[1])) if top else ("await f%d();" % st[1])
        if k == "D":
            return "int %s = 0;" % st[1]
        if k == "V":
            return 'println("V", %s, %d, %d);' % (st[1], st[2], st[3])
        if k == "Z":
            return "await sleep(%d);" % st[1]
        if k == "z":
            return "Future<int> v%d_%d = sleep(%d);" % (fk, st[2], st[1])
        if k == "T":
            return "Future<int> v%d_%d = timeout(v%d_%d, %d);" % (fk, st[3], fk, st[1], st[2])
        if k == "M":
            lastmark[0] = fresh()
            return "long t0_%d = now();" % lastmark[0]
        if k == "E":
            return 'println(now() - t0_%d);' % lastmark[0]     # the argument is evaluated (clock line) before anything is printed
        if k == "U":
            return "run_event_loop();"
        raise ValueError(st)

    bodies = []
    for fk, body in enumerate(funs):
        lines, lastmark = [], [0]
        for st in body:
            if st[0] == "Y":
                lines.append("yield;")
            elif st[0] == "R":
                lines.append("return %d;" % ret_value(fk) if fk else "return;")
            elif st[0] == "L":
                i = "i%d" % fresh()
                inner = " ".join(simple(x, fk, False, lastmark) for x in st[2])
                lines.append("for (int %s = 0; %s < %d; %s = %s + 1) { %s }" % (i, i, st[1], i, i, inner))
            else:
                lines.append(simple(st, fk, True, lastmark))
        bodies.append(lines)
    src = list(out)
    src += helpers
    for fk in range(len(funs) - 1, 0, -1):
        src.append("async int f%d() {\n    %s\n}" % (fk, "\n    ".join(bodies[fk])))
    src.append("void main() {\n    %s\n}" % "\n    ".join(bodies[0]))
    return "\n".join(src) + "\n"


def walk(body):
    for st in body:
        yield st
        if st[0] == "L":
            for x in st[2]:
                yield x


def tok(st):
    k = st[0]
    if k in ("P",):
        return "P%d" % st[1]
    if k == "V":
        return "P%d" % st[3]
    if k == "C":
        return "C" + ",".join(str(t) for t in st[1])
    if k == "F":
        return "F%d" % st[1]
    if k == "S":
        return "S%d:%d" % (st[1], st[2])
    if k == "G":
        return "G%d:%d" % (st[1], st[2])
    if k == "A":
        return "A%d" % st[1]
    if k == "B":
        return "B%d" % st[1]
    if k == "W":
        return "W%d" % st[1]
    if k == "Z":
        return "Z%d" % st[1]
    if k == "z":
        return "z%d:%d" % (st[1], st[2])
    if k == "T":
        return "T%d:%d:%d" % (st[1], st[2], st[3])
    if k in ("M", "E", "U", "Y", "R"):
        return k
    if k == "D":
        return "C"             # a declaration: a statement that asks nothing of the scheduler
    if k == "L":
        return "L%d( %s )" % (st[1], " ".join(tok(x) for x in st[2]))
    raise ValueError(st)


def model_line(prog):
    return "%d ; %s" % (prog["step"], " ; ".join(" ".join(tok(st) for st in body) for body in prog["funs"]))


# ------------------------------------------------------------------------------ generators
class Gen:
    """Random task programs: <= 4 async functions, <= 4 suspension points per body, call graph acyclic
    (function k only starts functions > k), every kind of re-entry of the scheduler."""

    def __init__(self, rng, nfuns=None, globals_ok=False, timed=True):
        self.rng = rng
        self.n = nfuns if nfuns is not None else rng.randint(1, 4)
        self.globals_ok = globals_ok
        self.timed = timed
        self.tag = 0

    def t(self, fk):
        self.tag += 1
        return fk * 1000 + self.tag

    def loop_simple(self, fk):
        r, rng = self.rng.random(), self.rng
        callees = list(range(fk + 1, self.n + 1))
        if r < 0.4 or not callees:
            if r < 0.25:
                return ["P", self.t(fk)]
            if r < 0.33 and self.timed:
                return ["Z", rng.choice(SLEEP_GRID[:5])]
            return ["C", [self.t(fk) for _ in range(rng.randint(1, 2))]]
        if r < 0.7:
            return ["W", rng.choice(callees), 0]
        return ["F", rng.choice(callees)]

    def body(self, fk):
        rng = self.rng
        is_main = fk == 0
        callees = list(range(fk + 1, self.n + 1))
        out, susp = [], 0
        slots = []            # (slot, kind, callee) not yet awaited
        nslot = 0
        nst = rng.randint(1, 7) if not is_main else rng.randint(2, 8)
        marked = False
        if is_main and self.globals_ok and callees:
            out.append(["G", rng.choice(callees), 0])      # the only global future, assigned before any task exists
        while len(out) < nst:
            r = rng.random()
            if r < 0.16:
                out.append(["P", self.t(fk)])
            elif r < 0.30 and not is_main and susp < 4:
                out.append(["Y"]); susp += 1
            elif r < 0.34 and susp < 4 and callees and not is_main:
                # for (...) { r = await child(); println(..); }  - the child ends with `return`
                var = "lw%d_%d" % (fk, self.t(fk))
                n = rng.randint(2, 3)
                bodyl = [["W", rng.choice(callees), 0, var], ["P", self.t(fk)]]
                if rng.random() < 0.4:
                    bodyl.reverse()
                out.append(["D", var]); out.append(["L", n, bodyl]); susp += n
            elif r < 0.38 and susp < 4:
                n = rng.randint(0, 3)
                out.append(["L", n, [self.loop_simple(fk) for _ in range(rng.randint(1, 2))]]); susp += n
            elif r < 0.50 and callees:
                out.append(["S", rng.choice(callees), nslot]); slots.append((nslot, "S", out[-1][1])); nslot += 1
            elif r < 0.62 and slots and susp < 4:
                s, kind, cal = slots.pop(rng.randrange(len(slots)))
                out.append(["A", s, 0]); susp += 1
                if kind == "S" and rng.random() < 0.8:
                    out.append(["V", "r%d_%d" % (fk, s), ret_value(cal), self.t(fk)])
            elif r < 0.70 and callees and susp < 4:
                wid = self.t(fk)
                cal = rng.choice(callees)
                out.append(["W", cal, wid]); susp += 1
                if rng.random() < 0.8:
                    out.append(["V", "w%d_%d" % (fk, wid), ret_value(cal), self.t(fk)])
            elif r < 0.75 and callees:
                out.append(["F", rng.choice(callees)])
            elif r < 0.82 and self.timed and susp < 4:
                out.append(["Z", rng.choice(SLEEP_GRID)]); susp += 1
            elif r < 0.86 and self.timed:
                out.append(["z", rng.choice(SLEEP_GRID), nslot]); slots.append((nslot, "z", None)); nslot += 1
            elif r < 0.89 and self.timed and any(k == "S" for _, k, _ in slots):
                i = [j for j, (_, k, _) in enumerate(slots) if k == "S"][0]
                s, _, _ = slots.pop(i)
                out.append(["T", s, rng.choice(SLEEP_GRID), nslot]); slots.append((nslot, "T", None)); nslot += 1
            elif r < 0.93:
                out.append(["C", [self.t(fk) for _ in range(rng.randint(1, 3))]])
            elif r < 0.96 and self.timed:
                if not marked:
                    out.append(["M"]); marked = True
                else:
                    out.append(["E"])
            elif r < 0.975 and self.globals_ok and not is_main and susp < 4:
                out.append(["B", 0, 0]); susp += 1
            elif r < 0.985 and is_main:
                out.append(["U"])
            elif r < 0.995 and not is_main and len(out) >= 2:
                out.append(["R"])
        if not is_main:
            out.append(["R"])
        elif slots and rng.random() < 0.7:
            for s, kind, cal in slots:
                out.append(["A", s, 0])
        return out

    def program(self):
        return {"step": self.rng.choice(CLOCK_STEPS), "funs": [self.body(k) for k in range(self.n + 1)]}


def loop_await_programs():
    """async task with `for (..) { r = await child(); println(..); }` while another looping task is
    runnable; the children finish via `return` from inside the outer task's turn."""
    for n1 in (2, 3):
        for order in (0, 1):
            for child in ([["R"]], [["P", 3001], ["R"]], [["Y"], ["R"]], [["P", 3001], ["Y"], ["P", 3002], ["R"]]):
                for n2 in (1, 3):
                    for mk in range(3):
                        b1 = [["W", 3, 0, "lw1"], ["P", 1001]]
                        if order:
                            b1.reverse()
                        f1 = [["D", "lw1"], ["L", n1, b1], ["P", 1002], ["R"]]
                        f2 = [["L", n2, [["P", 2001]]], ["P", 2002], ["R"]]
                        main = [[["S", 1, 0], ["S", 2, 1], ["A", 0, 0], ["A", 1, 0]],
                                [["S", 2, 1], ["S", 1, 0], ["P", 1], ["P", 2], ["A", 0, 0]],
                                [["S", 1, 0], ["S", 2, 1]] + [["P", k] for k in range(1, 9)]][mk]
                        yield {"step": 5, "funs": [main, f1, f2, json.loads(json.dumps(child))]}


def exhaustive_programs(natoms, ntasks):
    """Every program whose main starts `ntasks` tasks (one function each) and then awaits them in order,
    each body being a sequence of <= natoms atoms over a small alphabet of suspension points."""
    import itertools
    atoms = [["Y"], ["L", 1, [["P", 1]]], ["Z", 10], ["C", [2, 3]], ["W", 99]]
    seqs = []
    for n in range(0, natoms + 1):
        seqs += [list(s) for s in itertools.product(range(len(atoms)), repeat=n)]
    for combo in itertools.product(seqs, repeat=ntasks):
        funs = [[]]
        child = ntasks + 1
        for k, seq in enumerate(combo):
            fk = k + 1
            body = []
            for j, a in enumerate(seq):
                st = json.loads(json.dumps(atoms[a]))
                if st[0] == "W":
                    st = ["W", child, j]
                if st[0] == "L":
                    st[2] = [["P", fk * 1000 + j]]
                if st[0] == "C":
                    st[1] = [fk * 1000 + 100 + j, fk * 1000 + 200 + j]
                body.append(st)
                body.append(["P", fk * 1000 + 500 + j])
            body.append(["R"])
            funs.append(body)
        funs.append([["P", child * 1000], ["Y"], ["R"]])          # the child every "W" awaits
        funs[0] = [["S", k + 1, k] for k in range(ntasks)] + [["P", 1]] + [["A", k, 0] for k in range(ntasks)]
        yield {"step": 5, "funs": funs}


# ------------------------------------------------------------------------------ running both sides
def run_impl(impl_dir, prog, timeout=10, clock=True, max_chars=None):
    """Merged stdout+stderr lines of the implementation on the program (CBV_SCHED flushes stdout
    before every trace line, so one pipe for both keeps the true order)."""
    d = tempfile.mkdtemp(prefix="c15run-", dir=common.SCRATCH_ROOT)
    try:
        p = os.path.join(d, "t.cb")
        with open(p, "w") as fh:
            fh.write(prog if isinstance(prog, str) else render_cb(prog))
        env = dict(os.environ)
        env["CB_VERIF_SCHED_TRACE"] = "1"
        if clock:
            env["CB_VERIF_CLOCK"] = str(prog["step"])
        else:
            env.pop("CB_VERIF_CLOCK", None)
        try:
            r = subprocess.run([os.path.join(impl_dir, "main"), p], cwd=impl_dir, env=env, timeout=timeout,
                               stdout=subprocess.PIPE, stderr=subprocess.STDOUT)
            rc, out = r.returncode, r.stdout.decode("utf-8", "replace")
        except subprocess.TimeoutExpired as e:
            rc, out = 124, (e.stdout or b"")[:max_chars].decode("utf-8", "replace")
        return rc, (out.split("\n")[:-1] if out.endswith("\n") else (out.split("\n") if out else []))
    finally:
        shutil.rmtree(d, ignore_errors=True)


_V = re.compile(r"^V (-?\d+) (-?\d+) (\d+)$")
_NUM = re.compile(r"^-?\d+$")


def normalise(lines):
    """Implementation lines -> (comparable lines, awaited values [(got, expected)])."""
    out, vals = [], []
    for l in lines:
        m = _V.match(l)
        if m:
            vals.append((int(m.group(1)), int(m.group(2))))
            out.append("P " + m.group(3))
        elif _NUM.match(l):
            out.append("P " + l)          # the elapsed-time print of an E statement
        else:
            out.append(l)
    return out, vals


def canon(lines):
    """Identity.  (Before hook commit 5421d80 cbv_clock wrote its line without flushing stdout, so clock
    lines could overtake buffered program lines and both streams were re-ordered inside such segments;
    the hook now flushes, the merged stream is the true order and is compared as it is.)"""
    return list(lines)


def run_model(progs, mode="trace"):
    data = ("\n".join(model_line(p) for p in progs) + "\n").encode()
    rc, o, e = common.sh([common.model_bin(PROP), mode], input=data, timeout=1200)
    if rc != 0:
        raise RuntimeError("model failed: " + e[-500:])
    res, cur = [], []
    for l in o.split("\n"):
        if l == "END":
            res.append(cur); cur = []
        elif l:
            cur.append(l)
    if len(res) != len(progs):
        raise RuntimeError("model result count %d != %d" % (len(res), len(progs)))
    return res


def split_model(mlines):
    flags = set(l.split()[0] for l in mlines if l.startswith("#"))
    return [l for l in mlines if not l.startswith("#")], flags


# ------------------------------------------------------------------------------ the property's own oracle
def loop_markers(prog):
    """tag -> (function, statement index) for the first line a loop in a task body prints per iteration."""
    mk = {}
    for fk, body in enumerate(prog["funs"]):
        if fk == 0:
            continue
        for i, st in enumerate(body):
            if st[0] == "L":
                for x in st[2]:
                    if x[0] == "P":
                        mk[x[1]] = (fk, i); break
                    if x[0] == "C" and x[1]:
                        mk[x[1][0]] = (fk, i); break
    return mk


def oracle(lines, vals, flags, prog=None):
    """The property's own reading, evaluated on the IMPLEMENTATION's trace (never on the model's):
      * turns are served in the order ids were pushed (FIFO), the skip branch is never taken, a finished
        task gets no turn, a task is blocked only on an unfinished task;
      * "every other runnable task gets exactly one turn before it runs again, no task is overtaken
        twice": between the moment a task is queued and its next turn every task queued in front of it
        gets exactly one turn and nobody gets two;
      * "whenever a task suspends at a loop-iteration boundary": a task runs at most one iteration of a
        loop per turn and ends that turn with `yield .. loop=1` + exactly one requeue (iterations are
        recognised by the first line the loop body prints; `prog` is the generated program);
      * sleep: `woke` only at now >= wake; the clock never runs backwards;
      * await: the value an await yields is the awaited task's result.
    Returns the list of failures (empty = the reading holds on this run)."""
    bad = []
    pushes, turns = [], []
    done = set()
    last_clock = None
    queue = []                 # the ready queue as the trace itself implies it
    since = {}                 # queued task -> {other task: turns since it was queued}
    markers = loop_markers(prog) if prog else {}
    spans = []                 # open turns: [task, {marker tag: count}, yielded_loop, turns of others since first marker]

    def push(x):
        since[x] = {}
        queue.append(x)

    for l in lines:
        w = l.split()
        if len(w) >= 2 and w[0] == "P" and markers:
            try:
                tag = int(w[1])
            except ValueError:
                continue
            if tag in markers and spans:
                sp = spans[-1]
                if sp[1].get(tag):
                    fk, i = markers[tag]
                    others = sp[3]
                    worst = max([others.count(o) for o in set(others)] or [0])
                    bad.append("task %s ran two iterations of its loop (statement %d of f%d) inside one turn: it did not give up its "
                               "turn at the loop-iteration boundary; %d turns of other tasks were served meanwhile (up to %d for one task)"
                               % (sp[0], i, fk, len(others), worst))
                sp[1][tag] = sp[1].get(tag, 0) + 1
                sp[3] = []
            continue
        if len(w) < 3 or w[0] != "CBV":
            continue
        ev = w[1]
        if ev == "spawn" or ev == "requeue":
            pushes.append(w[2])
        if ev == "spawn":
            push(w[2])
        elif ev == "skip":
            pushes.append(w[2])
            bad.append("skip branch taken for task %s (a task was queued while executing)" % w[2])
        elif ev == "turn":
            x = w[2]
            turns.append(x)
            if x in done:
                bad.append("finished task %s gets a turn" % x)
            for sp in spans:
                sp[3].append(x)
            # no task overtaken twice / everybody in front exactly once
            for q in queue:
                if q != x:
                    since[q][x] = since[q].get(x, 0) + 1
                    if since[q][x] == 2:
                        bad.append("task %s gets a second turn while task %s is still waiting in the queue for its turn "
                                   "(overtaken twice)" % (x, q))
            if x in queue:
                if queue[0] != x:
                    bad.append("task %s gets its turn before task %s that was queued in front of it" % (x, queue[0]))
                queue.remove(x)
            spans.append([x, {}, False, []])
        elif ev == "yield":
            if spans and spans[-1][0] == w[2] and w[3] == "loop=1":
                spans[-1][2] = True
        elif ev in ("requeue", "complete"):
            if spans and spans[-1][0] == w[2]:
                sp = spans.pop()
                if sp[1] and not sp[2] and ev == "requeue":
                    tag = next(iter(sp[1]))
                    fk, i = markers[tag]
                    bad.append("task %s finished an iteration of its loop (statement %d of f%d) but its turn did not end with a "
                               "loop-boundary yield" % (sp[0], i, fk))
            if ev == "requeue":
                push(w[2])
            else:
                done.add(w[2])
        elif ev == "clock":
            t = int(w[2])
            if last_clock is not None and t < last_clock:
                bad.append("clock went backwards")
            last_clock = t
        elif ev in ("woke", "asleep"):
            now, wake = int(w[3].split("=")[1]), int(w[4].split("=")[1])
            if ev == "woke" and now < wake:
                bad.append("task %s woke at %d before its deadline %d" % (w[2], now, wake))
        elif ev == "blocked":
            if w[4] in done:
                bad.append("task %s still blocked on finished task %s" % (w[2], w[4]))
    if turns != pushes[:len(turns)]:
        k = next(i for i in range(len(turns)) if i >= len(pushes) or turns[i] != pushes[i])
        bad.append("turn %d goes to task %s but the FIFO order of pushes demands %s" % (
            k + 1, turns[k], pushes[k] if k < len(pushes) else "nobody"))
    if "#EARLY-EXIT" not in flags:
        for got, exp in vals:
            if got != exp:
                bad.append("await returned %d, the awaited task returns %d" % (got, exp))
    seen, out = set(), []
    for b in bad:
        if b not in seen:
            seen.add(b); out.append(b)
    return out


# ------------------------------------------------------------------------------ shrinking
def shrink(prog, still_bad, budget=60):
    """Greedy statement deletion keeping `still_bad(prog)` true."""
    prog = json.loads(json.dumps(prog))
    changed = True
    while changed and budget > 0:
        changed = False
        for fk in range(len(prog["funs"])):
            body = prog["funs"][fk]
            for i in range(len(body)):
                cand = json.loads(json.dumps(prog))
                del cand["funs"][fk][i]
                if not valid(cand):
                    continue
                budget -= 1
                if budget <= 0:
                    return prog
                if still_bad(cand):
                    prog = cand; changed = True; break
            if changed:
                break
    return prog


def valid(prog):
    """Slots are declared before use, exactly once; M before E; V variables exist."""
    for fk, body in enumerate(prog["funs"]):
        declared, marked, vars_ = set(), False, set()
        for st in body:
            k = st[0]
            if k in ("S", "z"):
                if st[2] in declared:
                    return False
                declared.add(st[2])
            elif k == "T":
                if st[1] not in declared or st[3] in declared:
                    return False
                declared.add(st[3])
            elif k == "A":
                if st[1] not in declared:
                    return False
                vars_.add("r%d_%d" % (fk, st[1]))
            elif k == "W":
                vars_.add("w%d_%d" % (fk, st[2]))
            elif k == "V":
                if st[1] not in vars_:
                    return False
            elif k == "M":
                marked = True
            elif k == "E" and not marked:
                return False
            elif k == "D":
                vars_.add(st[1])
            elif k == "L":
                for x in st[2]:
                    if x[0] in ("S", "z", "T", "M", "E", "V", "A", "B"):
                        return False
                    if x[0] == "W" and len(x) > 3 and x[3] not in vars_:
                        return False
        for st in walk(body):
            if st[0] in ("S", "F", "W", "G") and not (fk < st[1] < len(prog["funs"])):
                return False
        if fk and (not body or body[-1][0] != "R"):
            return False
    return True


# ------------------------------------------------------------------------------ known findings
def replay_finding(f, impl_dir):
    """True if the stored input still shows the defect on the implementation."""
    prog = f["replay"]["program"]
    rc, lines = run_impl(impl_dir, prog)
    nl, vals = normalise(lines)
    if f["replay"]["kind"] == "await-value":
        return any(g != e for g, e in vals), nl
    if f["replay"]["kind"] == "lifo-delay":
        # the awaiting task `waiter` must resume (its step must end) before the sleeper spins more than once
        waiter, target = str(f["replay"]["waiter"]), str(f["replay"]["target"])
        seen_done, spins = False, 0
        for l in nl:
            if l == "CBV complete " + target:
                seen_done = True
            elif seen_done and l.startswith("CBV asleep "):
                spins += 1
            elif seen_done and l in ("CBV requeue " + waiter, "CBV complete " + waiter):
                break
        return spins > 1, nl
    if f["replay"]["kind"] == "hang":
        rc, lines = run_impl(impl_dir, prog, timeout=3)
        return rc == 124, None
    return False, nl


# ------------------------------------------------------------------------------ main
def compare_batch(progs, impl_dir):
    """[(prog, model lines, flags, impl lines, values, rc)] - both line lists in canonical form.
    When the model does not halt within its step cap (a livelock: an await loop that can never end)
    the implementation must hang too; the lists are then cut to their common length (minus the tail the
    killed process may have lost) so that `m == il` means "agree on everything observable"."""
    models = run_model(progs)
    splits = [split_model(ml) for ml in models]
    # a program the model cannot finish must hang: 1.5 s of the endless trace is enough (and is cut to 3 MB)
    impls = common.pmap(lambda pf: run_impl(impl_dir, pf[0], timeout=(1.5 if "#CAP" in pf[1][1] else 10), max_chars=3000000),
                        list(zip(progs, splits)))
    res = []
    for p, (m, flags), (rc, il) in zip(progs, splits, impls):
        nl, vals = normalise(il)
        m, nl = canon(m), canon(nl)
        if "#CAP" in flags:
            if rc == 124:
                n = max(0, min(len(m), len(nl)) - 40)
                m, nl = m[:n], nl[:n]
            else:
                m = m + ["<model: no halt within the step cap>"]
        res.append((p, m, flags, nl, vals, rc))
    return res


def report_disagreement(rep, prog, impl_dir, origin):
    def still_bad(c):
        (p, m, fl, il, vals, rc), = compare_batch([c], impl_dir)
        return m != il
    small = shrink(prog, still_bad)
    (p, m, fl, il, vals, rc), = compare_batch([small], impl_dir)
    fails = oracle(il, vals, fl, small)
    k = next((i for i in range(min(len(m), len(il))) if m[i] != il[i]), min(len(m), len(il)))
    text = "scheduler trace differs from the proved model at line %d (model %r, implementation %r)" % (
        k + 1, m[k] if k < len(m) else "<end>", il[k] if k < len(il) else "<end>")
    if fails:
        text += "; property's own reading fails: " + fails[0]
    rep.violation("corr", {"program": small, "cb": render_cb(small), "model_input": model_line(small), "origin": origin,
                           "first_difference_line": k + 1, "model": m[max(0, k - 6):k + 4], "impl": il[max(0, k - 6):k + 4],
                           "rc": rc, "oracle_failures": fails,
                           "broken": "correspondence Model.step = SimpleEventLoop (carrier of every C15 theorem)"},
                  text, no_failing_input=not fails)


def realtime_programs():
    """now() around sleep on the real clock, alone and in company."""
    progs = []
    for ms in [0, 1, 3, 7, 10, 15, 20, 30, 45, 60]:
        progs.append((ms, """async int spin() { for (int i = 0; i < 40; i = i + 1) { int z = i * 2; } return 1; }
async int nap(int ms) { long t0 = now(); await sleep(ms); long t1 = now(); println("D", t1 - t0, ms); return 2; }
async int other() { await sleep(%d); return 3; }
void main() {
    long a = now();
    await sleep(%d);
    long b = now();
    println("D", b - a, %d);
    Future<int> s = spin();
    Future<int> o = other();
    Future<int> n = nap(%d);
    int r = await n;
    long c = now();
    Future<int> z = sleep(%d);
    spin();
    await z;
    long d = now();
    println("D", d - c, %d);
}
""" % (max(0, ms // 2), ms, ms, ms, ms, ms)))
    return progs


def family_lines(atoms, natoms, ntasks):
    """Model input lines of every program: main starts `ntasks` tasks, prints, awaits them in order; each body
    any sequence of <= natoms atoms (model tokens); `W` awaits a fresh child `Y R`."""
    import itertools
    seqs = []
    for n in range(0, natoms + 1):
        seqs += [" ".join(x) for x in itertools.product(atoms, repeat=n)]
    child = ntasks + 1
    atoms_txt = [a.replace("W", "W%d" % child) for a in atoms]
    seqs = []
    for n in range(0, natoms + 1):
        seqs += [" ".join(x) for x in itertools.product(atoms_txt, repeat=n)]
    main = " ".join("S%d:%d" % (k + 1, k) for k in range(ntasks)) + " P1 " + " ".join("A%d" % k for k in range(ntasks))
    for combo in itertools.product(seqs, repeat=ntasks):
        yield "5 ; " + main + " ; " + " ; ".join((c + " R").strip() for c in combo) + " ; Y R"


def explore_states(rep, families):
    """Model only: run every program of the families, collect the distinct abstract scheduler states
    (queue order | executing chain | status of every task), re-check the proved invariants on each."""
    states, cases, steps, nohalt = set(), 0, 0, 0
    nproc = common.NCPU

    def worker(lines):
        data = ("\n".join(lines) + "\n").encode()
        rc, o, e = common.sh([common.model_bin(PROP), "states-agg"], input=data, timeout=1500)
        if rc != 0:
            raise RuntimeError("model failed: " + e[-300:])
        return o.split("\n")
    for atoms, natoms, ntasks in families:
        lines = list(family_lines(atoms, natoms, ntasks))
        chunks = [lines[k::nproc] for k in range(nproc)]
        for out in common.pmap(worker, [c for c in chunks if c]):
            for l in out:
                if l.startswith("S "):
                    states.add(l)
                elif l.startswith("BAD "):
                    rep.violation("model-invariant", {"state": l},
                                  "extracted model visits a state violating a proved invariant: " + l, True)
                elif l.startswith("#CASES "):
                    cases += int(l.split()[1])
                elif l.startswith("#STEPS "):
                    steps += int(l.split()[1])
                elif l.startswith("#NOHALT "):
                    nohalt += int(l.split()[1])
    shapes = set()
    for st in states:
        m = re.match(r"S q=(\S*) x=(\S*) st=(\S*)", st)
        if m:
            shapes.add((len([x for x in m.group(1).split(",") if x]), len([x for x in m.group(2).split(",") if x]),
                        "".join(sorted(m.group(3)))))
    return {"programs": cases, "machine_steps": steps, "distinct_states": len(states), "state_shapes": len(shapes),
            "programs_without_halt": nohalt,
            "families": ["<= %d atoms over {%s} x %d tasks" % (n, ",".join(a), k) for a, n, k in families],
            "status_letters": "0 ready, 1 waiting-marked, 2 sleeping, 3 done"}


def run(rep):
    seed, tier = rep.seed, rep.tier
    t0 = time.time()
    cq = common.coq_check_props(PROP)
    common.proof_coverage(rep, cq)
    if not cq["ok"]:
        rep.violation("proof", {"theorem": cq["failed_theorem"], "log": cq["log"][-3000:]},
                      "proof obligation %s no longer checks" % cq["failed_theorem"], True)
    common.ensure_model(PROP)
    impl_dir = common.build_impl("plain")
    t_setup = time.time() - t0

    def stream():
        """(program, origin) in a fixed order: corpus, exhaustive families, random, deadline boundary."""
        corpus = os.path.join(common.VERIF, "corpus", "c15.json")
        if os.path.exists(corpus):
            for c in json.load(open(corpus)):
                yield c, "corpus"
        for natoms, ntasks in exh:
            for p in exhaustive_programs(natoms, ntasks):
                yield p, "exhaustive"
        for p in loop_await_programs():
            yield p, "loop-await"
        seeds = [seed] if tier == "quick" else [seed, seed * 1000003 + 1, seed * 1000003 + 2]
        for sd in seeds:
            for k in range(n_rand):
                rng = rng_for(sd, "c15-rand", k)
                g = Gen(rng, globals_ok=(k % 10 == 0), timed=(k % 4 != 0))
                p = g.program()
                if valid(p):
                    yield p, ("random-globals" if k % 10 == 0 else ("random" if k % 4 else "random-untimed"))
        # sleep(ms) with ms around multiples of the clock step: now == wake is reached exactly
        for stp in CLOCK_STEPS:
            for ms in [0, stp, 2 * stp, 3 * stp, 3 * stp + 1]:
                yield ({"step": stp, "funs": [[["S", 1, 0], ["S", 2, 1], ["P", 1], ["A", 0, 0], ["A", 1, 0]],
                                               [["M"], ["Z", ms], ["E"], ["R"]], [["Y"], ["P", 2001], ["Y"], ["R"]]]},
                       "deadline-boundary")

    exh = [(2, 2)] if tier == "quick" else [(3, 2), (2, 3)]
    n_rand = 700 if tier == "quick" else 5000
    hist, bad, flagged = {}, [], {"#EARLY-EXIT": 0, "#LIFO-DELAY": 0, "#CAP": 0}
    distinct, nontrivial, oracle_fail, samples = set(), 0, [], []
    events = n_eval = 0
    chunk = []

    def flush():
        nonlocal nontrivial, events, n_eval
        if not chunk:
            return
        results = compare_batch([p for p, _ in chunk], impl_dir)
        for (p, m, fl, il, vals, rc), (_, o) in zip(results, chunk):
            n_eval += 1
            hist[o] = hist.get(o, 0) + 1
            for f in fl:
                if f in flagged:
                    flagged[f] += 1
            key = model_line(p)
            if key not in distinct:
                distinct.add(key)
                # non-trivial: at least two tasks interleave (a turn of one task between two turns of another)
                tl = [l.split()[2] for l in m if l.startswith("CBV turn ")]
                if len(set(tl)) >= 2 and any(tl[i] != tl[i + 1] for i in range(len(tl) - 1)):
                    nontrivial += 1
            events += len(m)
            if m != il:
                bad.append((p, o))
            else:
                fails = oracle(il, vals, fl, p)
                if fails:
                    oracle_fail.append((p, o, fails))
            if o.startswith("random") and len(samples) < 2 and len(m) > 30:
                samples.append({"model_input": key, "first_lines": m[:12]})
        del chunk[:]

    for item in stream():
        chunk.append(item)
        if len(chunk) >= 2000:
            flush()
    flush()
    n_exh = hist.get("exhaustive", 0)
    rep.coverage.update({
        "evaluations": n_eval, "distinct_nontrivial": nontrivial,
        "rule": "main (CB_VERIF_SCHED_TRACE + CB_VERIF_CLOCK, stdout and stderr on one pipe) vs extracted Coq machine on the same task program; "
                "equality of the whole line sequence (CBV events incl. clock readings, and the program's own prints); distinct = distinct programs; "
                "non-trivial = at least two tasks get interleaved turns",
        "trace_lines_compared": events,
        "exhaustive": True,
        "exhaustive_space": "all programs: main starts k tasks then awaits them; each body any sequence of <= n atoms over {yield, 1-iteration loop, "
                            "await sleep(10), plain 2-statement call, await child()}; (n,k) in %s (%d programs)" % (exh, n_exh),
        "input_distribution": hist,
        "known_defect_shapes_in_stream": flagged,
        "disagreements": len(bad),
        "samples": samples,
    })
    for p, o in bad[:4]:
        report_disagreement(rep, p, impl_dir, o)
    for p, o, fails in oracle_fail[:3]:
        rep.violation("oracle", {"program": p, "cb": render_cb(p), "failures": fails, "origin": o},
                      "implementation and model agree but the property's own reading fails: " + fails[0])
    t_corr = time.time() - t0 - t_setup

    # (4) reachable abstract states of the machine (model only), invariants re-checked on each
    if tier == "quick":
        fams = [(["Y", "Z10", "W"], 3, 3), (["Y", "Z10"], 2, 4)]
    else:
        fams = [(["Y", "Z10"], 4, 4), (["Y", "Z10", "W"], 3, 4), (["Y", "Z10", "W", "C2,3", "L1( P7 )"], 3, 3)]
    rep.coverage["reachable_states_model_only"] = explore_states(rep, fams)
    t_states = time.time() - t0 - t_setup - t_corr

    # (5) real time: only the lower bound can be tested without flaking
    rt = realtime_programs() if tier == "quick" else realtime_programs() * 3

    def rt_run(item):
        ms, src = item
        rc, lines = run_impl(impl_dir, src, clock=False, timeout=20)
        return ms, src, rc, lines
    n_rt = 0
    for ms, src, rc, lines in common.pmap(rt_run, rt, workers=4):
        ds = [l.split() for l in lines if l.startswith("D ")]
        n_rt += len(ds)
        if rc != 0 or len(ds) != 3:
            rep.violation("realtime-run", {"cb": src, "rc": rc, "lines": lines[-20:]}, "real-time sleep program did not run to completion")
        for d in ds:
            if int(d[1]) < int(d[2]):
                rep.violation("early-wake", {"cb": src, "elapsed": int(d[1]), "ms": int(d[2])},
                              "sleep(%s) resumed after %s ms of wall time" % (d[2], d[1]))
    rep.coverage["realtime_sleep_measurements"] = n_rt

    # (6) known findings
    for f in common.known_findings(PROP):
        still, nl = replay_finding(f, impl_dir)
        if nl is None:          # a hang: prefix comparison is done by compare_batch
            (p_, m, fl, nl, vals_, rc_), = compare_batch([f["replay"]["program"]], impl_dir)
        else:
            (ml,) = run_model([f["replay"]["program"]])
            m, fl = split_model(ml)
            m, nl = canon(m), canon(nl)
        if still:
            rep.known(f["id"], f["what_fails"])
        else:
            rep.notes.append("known finding %s no longer reproduces (fixed?)" % f["id"])
        if m != nl:
            rep.violation("corr-known", {"program": f["replay"]["program"], "model": m[:40], "impl": nl[:40]},
                          "model and implementation disagree on known-finding replay " + f["id"], True)

    # (7) thorough: independent re-check of the compiled proofs
    if tier != "quick":
        tc = time.time()
        rc, o, e = common.sh(["coqchk", "-silent", "-o", "-Q", ".", "Cb", "Cb.C15.Properties_C15"], cwd=common.COQ, timeout=1200)
        txt = o + e
        rep.coverage["coqchk"] = {"rc": rc, "axioms": "<none>" if "* Axioms: <none>" in txt else txt[-600:],
                                  "seconds": round(time.time() - tc, 1)}
        if rc != 0:
            rep.violation("coqchk", {"log": txt[-3000:]}, "coqchk rejects the compiled C15 proofs", True)
    rep.assumptions += [
        "what a statement asks of the scheduler (its request tree) is abstract in the theorems; the generated programs use top-level yields, "
        "auto-yielding for-loops, calls of plain functions, await, sleep, timeout, now(), run_event_loop()",
        "the clock is any function of the read count in the theorems (monotone where stated); wall-clock monotonicity is assumed, not tested",
        "trace equality uses the CB_VERIF_CLOCK virtual clock; on real time only now_after - now_before >= ms is tested",
    ]
    rep.coverage["phase_seconds"] = {"proofs+builds": round(t_setup, 1), "correspondence": round(t_corr, 1),
                                     "state_exploration": round(t_states, 1), "total": round(time.time() - t0, 1)}


def replay(path):
    data = json.load(open(path))
    c = data["case"]
    common.ensure_model(PROP)
    impl_dir = common.build_impl("plain")
    if "program" in c:
        (p, m, fl, il, vals, rc), = compare_batch([c["program"]], impl_dir)
        print(render_cb(c["program"]))
        k = next((i for i in range(min(len(m), len(il))) if m[i] != il[i]), min(len(m), len(il)))
        print("model input:", model_line(c["program"]))
        print("first difference at line", k + 1)
        print("model:", m[max(0, k - 5):k + 5])
        print("impl: ", il[max(0, k - 5):k + 5])
        fails = oracle(il, vals, fl, c["program"])
        print("oracle:", fails)
        return 0 if m == il and not fails else 1
    if "cb" in c:
        rc, lines = run_impl(impl_dir, c["cb"], clock=False, timeout=20)
        print("\n".join(lines))
        return 1
    print(json.dumps(c, indent=1))
    return 1
