"""C17 - preprocessor: conditional inclusion and whole-word macro expansion.

Theorems: coq/C17/Properties_C17.v (stack machine refines the tree semantics for every nesting
depth; skipped regions inert; errors never ignored; -D = leading #define; expansion soundness).
Tie: the extracted model (bin/c17_model) against the repository's own preprocessor.cpp linked
into harness/cpp/pp_driver.cpp, on the same files; plus end-to-end runs through `main -D...`.
"""
import itertools
import re
import json
import os
import sys

import common
from common import rng_for

PROP = "C17"
LEVEL = "proof"
META = {
    "category": "proof",
    "technique": "Coq refinement proof (conditional-stack machine = tree semantics, any depth; output = ordered subsequence of the source lines for every line sequence, by induction over the line loop) + extracted-model differential run against preprocessor.cpp",
    "text": "Machine-checked theorems about a function-by-function Gallina model of preprocessor.cpp: the ConditionalState stack machine "
            "refines the tree semantics of nested #ifdef/#ifndef/#elif/#else for every depth, table and line list; skipped regions are inert; "
            "stray/unclosed/unknown directives always raise an error; -D equals a leading #define; every replacement the expander makes is a "
            "whole-word occurrence outside the recorded string ranges. Two expansion laws are refuted on the faithful model (known findings). "
            "The model is tied to the code on every run by executing the extracted model and the repository's preprocessor.cpp on the same "
            "files (exhaustive small skeletons x -D sets, random skeletons, macro lines) and through main -D end to end.",
    "note": "Trusted: Coq kernel (vm_compute for the two refutation witnesses), no axioms (Print Assumptions: closed); extraction via ExtrOcamlBasic+ExtrOcamlString; "
            "the model is hand-written; directive classification and expandMacros are tied by differential testing only (macro half partial: no full "
            "token-substitution theorem); __DATE__/__TIME__/__VERSION__ excluded.",
}
NAMES = ["A", "B", "C"]


# ------------------------------------------------------------------ generators
def skeleton_lines(rng, maxlen, depth_bias=0.5):
    """Random directive skeleton, mostly well nested, sometimes deliberately broken."""
    lines, depth, n = [], 0, rng.randint(1, maxlen)
    tno = 0
    while len(lines) < n:
        r = rng.random()
        nm = rng.choice(NAMES)
        if r < 0.22:
            lines.append(rng.choice(["#ifdef ", "#ifndef "]) + nm); depth += 1
        elif r < 0.34 and (depth > 0 or rng.random() < 0.1):
            lines.append(rng.choice(["#elif ", "#elseif "]) + nm)
        elif r < 0.44 and (depth > 0 or rng.random() < 0.1):
            lines.append("#else")
        elif r < 0.60 and (depth > 0 or rng.random() < 0.1):
            lines.append("#endif"); depth = max(0, depth - 1)
        elif r < 0.70:
            lines.append("#define %s%s" % (nm, rng.choice(["", " 1", " %d" % rng.randint(0, 99), " " + rng.choice(NAMES)])))
        elif r < 0.76:
            lines.append("#undef " + nm)
        elif r < 0.79:
            lines.append(rng.choice(["#foo", "#", "#ifdef", "#define", "#undef", "#error boom", "#warning w",
                                     "#include <x>", "  #  ifdef   A  ", "#define F(x) x+1", "#define G(x", "#pragma once"]))
        else:
            tno += 1
            lines.append("t%d %s %s" % (tno, rng.choice(NAMES), rng.choice(["", "x" + rng.choice(NAMES), '"%s"' % rng.choice(NAMES), "__LINE__"])))
    if rng.random() < 0.85:
        lines += ["#endif"] * depth
    return lines


def exhaustive_skeletons(maxlen):
    """All directive sequences of length <= maxlen over a small alphabet (one name per slot)."""
    alpha = ["#ifdef A", "#ifndef A", "#ifdef B", "#elif A", "#elif B", "#else", "#endif", "#define A", "#define B 7",
             "#undef A", "T A B"]
    for n in range(1, maxlen + 1):
        for seq in itertools.product(alpha, repeat=n):
            yield list(seq)


WORDS = ["MAX", "MAXX", "XMAX", "_MAX", "MAX_", "MAX1", "N", "NN", "a", "b1", "VAL", "VALUE", "x"]
PUNCT = ["+", "-", "*", "(", ")", "[", "]", ";", ",", ".", " ", "  ", "\t", "==", "<", ">", "{", "}", ":", "?", "!"]


def macro_case(rng):
    """One set of object-like macros + lines mixing whole words, substrings, strings, punctuation."""
    pool = ["MAX", "N", "VAL", "a", "x"]
    k = rng.randint(1, 4)
    names = rng.sample(pool, k)
    defs = []
    for i, nm in enumerate(names):
        r = rng.random()
        if r < 0.5:
            body = str(rng.randint(0, 999))
        elif r < 0.7 and i + 1 < len(names):
            body = "(" + names[i + 1] + rng.choice(["+1", "*2", ""]) + ")"      # chain to a later name (acyclic)
        elif r < 0.8:
            body = ""
        elif r < 0.9:
            body = '"s%d"' % rng.randint(0, 9)
        else:
            body = "q_%d w" % rng.randint(0, 9)
        defs.append((nm, body))
    lines = []
    for _ in range(rng.randint(1, 4)):
        parts = []
        for _ in range(rng.randint(1, 9)):
            r = rng.random()
            if r < 0.45:
                parts.append(rng.choice(WORDS + names))
            elif r < 0.6:
                inner = rng.choice(WORDS + names) + rng.choice(["", " ", "\\\"", "\\\\", rng.choice(names)])
                parts.append('"' + inner + '"')
            elif r < 0.65:
                parts.append("é" + rng.choice(names) + "日本")
            elif r < 0.68:
                parts.append("'" + rng.choice(["a", "\\n", "x"]) + "'")
            else:
                parts.append(rng.choice(PUNCT))
            if rng.random() < 0.5:
                parts.append(rng.choice(PUNCT))
        lines.append("".join(parts))
    return defs, lines


# a finding is avoided by the main stream with these predicates (see known_findings.json)
_LIT = re.compile(r'"(?:\\.|[^"\\])*"')


def trips_stale_ranges(defs, lines):
    """C17-stale-string-ranges: a replacement to the left of a string literal in the same pass shifts
    the literal while the recorded ranges stay. Avoided (conservatively) when some string literal
    contains a macro name while a macro name also occurs outside the literals of that line."""
    names = [n for n, _ in defs]
    for l in lines:
        lits = _LIT.findall(l)
        rest = _LIT.sub(" ", l)
        if any(n in lit for lit in lits for n in names) and any(n in rest for n in names):
            return True
        if rest.count('"') % 2 == 1 and any(n in l for n in names):
            return True
    return False


def trips_quote_in_char(lines):
    return any("'\"'" in l for l in lines)


def fmt_case(defs, lines, file="in.cb"):
    out = ["CASE", "F " + file]
    out += ["D %s=%s" % d for d in defs]
    out += ["L " + l for l in lines]
    out.append("END")
    return out


def split_results(lines):
    res, cur = [], []
    for l in lines:
        if l == "END":
            res.append(cur); cur = []
        else:
            cur.append(l)
    return res


def run_both(cases, impl):
    """cases: list of (defs, lines). Returns list of (model_out, impl_out)."""
    inp = []
    for d, ls in cases:
        inp += fmt_case(d, ls)
    data = ("\n".join(inp) + "\n").encode("utf-8", "surrogateescape")
    rc, mo, me = common.sh([common.model_bin(PROP), "process"], input=data, timeout=900)
    if rc != 0:
        raise RuntimeError("model failed: " + me[-500:])
    rc, io, ie = common.sh([impl], input=data, timeout=900)
    if rc != 0:
        raise RuntimeError("pp_driver failed rc=%d: %s" % (rc, ie[-500:]))
    m = split_results(mo.split("\n")); i = split_results(io.split("\n"))
    if len(m) != len(cases) or len(i) != len(cases):
        raise RuntimeError("result count mismatch model=%d impl=%d cases=%d" % (len(m), len(i), len(cases)))
    return list(zip(m, i))


def shrink(case, impl):
    """Greedy line/def deletion keeping the disagreement."""
    defs, lines = list(case[0]), list(case[1])

    (m0, i0), = run_both([(defs, lines)], impl)
    want = spec_verdict(defs, lines, i0)[0]

    def bad(d, l):
        (m, i), = run_both([(d, l)], impl)
        return m != i and spec_verdict(d, l, i)[0] == want
    changed = True
    while changed:
        changed = False
        for k in range(len(lines)):
            cand = lines[:k] + lines[k + 1:]
            if cand and bad(defs, cand):
                lines = cand; changed = True; break
        if changed:
            continue
        for k in range(len(defs)):
            cand = defs[:k] + defs[k + 1:]
            if bad(cand, lines):
                defs = cand; changed = True; break
    return defs, lines


# ------------------------------------------------------------------ spec oracle (property's own words)
def spec_lines(defs, lines):
    """Independent reading of the property for *conditional inclusion only*: which physical lines
    are selected. Returns indices of text lines that must be kept, or None if the file is malformed
    (then the property demands an error). Used to word a violation, never to pass a check."""
    table = dict(defs)
    stack = []   # (parent_active, this_active, any_taken, else_seen)
    keep = []
    for idx, raw in enumerate(lines):
        t = raw.strip()
        active = all(s[1] for s in stack)
        if t.startswith("#"):
            body = t[1:].strip()
            parts = body.split(None, 1)
            if not parts:
                continue
            d, arg = parts[0], (parts[1].strip() if len(parts) > 1 else "")
            if d in ("ifdef", "ifndef"):
                if not arg:
                    return None
                c = (arg in table) if d == "ifdef" else (arg not in table)
                stack.append([active, c, c, False])
            elif d in ("elif", "elseif"):
                if not stack or stack[-1][3]:
                    return None
                s = stack[-1]
                c = (not s[2]) and (arg in table)
                s[1] = c; s[2] = s[2] or c
            elif d == "else":
                if not stack or stack[-1][3]:
                    return None
                s = stack[-1]; s[1] = not s[2]; s[3] = True
            elif d == "endif":
                if not stack:
                    return None
                stack.pop()
            elif active:
                if d == "define":
                    if not arg:
                        return None
                    nm = arg.split(None, 1)
                    if "(" in nm[0]:
                        table[nm[0].split("(")[0]] = None
                    else:
                        table[nm[0]] = nm[1].strip() if len(nm) > 1 else "1"
                elif d == "undef":
                    if not arg:
                        return None
                    table.pop(arg, None)
                elif d in ("error",):
                    return None
                elif d in ("warning", "include"):
                    pass
                else:
                    return None
        elif active:
            keep.append((idx, dict(table)))
    if stack:
        return None
    return keep


_TOK = re.compile(r'"(?:\\.|[^"\\])*"?|[A-Za-z_][A-Za-z_0-9]*|[0-9][A-Za-z_0-9]*|.', re.S)


def spec_expand(line, table, depth=0):
    """Token-level reading of the property: every whole-identifier occurrence of an object-like macro
    outside string literals is replaced by its fully expanded body; nothing else changes."""
    out = []
    for t in _TOK.findall(line):
        if (t[0].isalpha() or t[0] == "_") and t in table and table[t] is not None and depth < 50:
            out.append(spec_expand(table[t], {k: v for k, v in table.items() if k != t}, depth + 1))
        else:
            out.append(t)
    return "".join(out)


def spec_output(defs, lines):
    keep = spec_lines(defs, lines)
    if keep is None:
        return None
    return [spec_expand(lines[i], tab) for i, tab in keep]


def spec_verdict(defs, lines, impl_out):
    """(concrete?, text): does the implementation contradict the property's own reading on this input?"""
    exp = spec_output(defs, lines)
    got = [x[2:] for x in impl_out if x.startswith("O ") and not x.endswith("[preprocessor error]")]
    err = not impl_out[-1].startswith("E 0")
    if exp is None:
        return (not err, "spec: malformed file must be reported as an error; impl reports %s" % impl_out[-1])
    if any("__LINE__" in l or "__FILE__" in l for l in lines):
        exp = None
    if err:
        return (True, "spec: well-formed file, impl reports an error (%s)" % impl_out[-1])
    if exp is not None and got != exp:
        return (True, "spec output %r, impl output %r" % (exp[:4], got[:4]))
    return (False, "impl agrees with the spec reading but not with the proved model")


# ------------------------------------------------------------------ main
def run(rep):
    seed, tier = rep.seed, rep.tier
    cq = common.coq_check_props(PROP)
    common.proof_coverage(rep, cq)
    if rep.tier == "thorough" and cq["ok"]:
        ok, axioms = common.coqchk(PROP)
        rep.coverage["coqchk"] = {"ok": ok, "context_summary": axioms[:1500]}
        if not ok:
            rep.violation("coqchk", {"output": axioms[-3000:]}, "coqchk rejects the compiled development", True)
    if not cq["ok"]:
        rep.violation("proof", {"theorem": cq["failed_theorem"], "log": cq["log"][-3000:]},
                      "proof obligation %s no longer checks" % cq["failed_theorem"], True)
    common.ensure_model(PROP)
    impl = common.build_leaf("pp_driver", ["src/frontend/preprocessor/preprocessor.cpp"])

    cases, origin = [], []
    # corpus (minimised past failures) first
    corpus = os.path.join(common.VERIF, "corpus", "c17.json")
    if os.path.exists(corpus):
        for c in json.load(open(corpus)):
            cases.append(([tuple(d) for d in c["defs"]], c["lines"])); origin.append("corpus")
    # (1) exhaustive skeletons x -D subsets
    exh_len = 3 if tier == "quick" else 4
    dsets = [[], [("A", "1")], [("B", "2")], [("A", "1"), ("B", "2")]]
    n_exh = 0
    for sk in exhaustive_skeletons(exh_len):
        for ds in dsets:
            cases.append((ds, sk)); origin.append("exhaustive"); n_exh += 1
    # (2) random deeper skeletons
    n_rand = 3000 if tier == "quick" else 60000
    for k in range(n_rand):
        rng = rng_for(seed, "c17-skel", k)
        ds = [(n, str(rng.randint(0, 9))) for n in NAMES if rng.random() < 0.4]
        cases.append((ds, skeleton_lines(rng, 14 if tier == "quick" else 24))); origin.append("random-skeleton")
    # (3) macro lines
    n_mac = 3000 if tier == "quick" else 60000
    avoided = 0
    for k in range(n_mac):
        rng = rng_for(seed, "c17-mac", k)
        d, ls = macro_case(rng)
        if trips_quote_in_char(ls):
            # keep the line shapes but make the case safe: drop the string parts
            avoided += 1
            ls = [l.replace('"', " ") for l in ls]
            d = [(n, b.replace('"', "")) for n, b in d]
        cases.append((d, ls)); origin.append("macro-lines")
    # (4) the 100-iteration cap boundary: lines with k uses of one macro, k around 100
    for k in [1, 50, 99, 100, 101, 150, 250]:
        cases.append(([("N", "1")], [" ".join(["N"] * k)])); origin.append("cap-boundary")

    results = run_both(cases, impl)
    bad = [(c, o, m, i) for (c, o, (m, i)) in zip(cases, origin, results) if m != i]
    distinct = set()
    nontrivial = 0
    hist = {}
    for (c, o, (m, i)) in zip(cases, origin, results):
        hist[o] = hist.get(o, 0) + 1
        key = json.dumps(c)
        if key in distinct:
            continue
        distinct.add(key)
        # non-trivial: the run emitted something other than the input text verbatim, or reported an error
        outl = [x[2:] for x in m if x.startswith("O ")]
        if outl != c[1] or not m[-1].startswith("E 0"):
            nontrivial += 1
    rep.coverage.update({
        "evaluations": len(cases), "distinct_nontrivial": nontrivial,
        "rule": "leaf driver linking /repo's preprocessor.cpp vs extracted Coq model on the same (defines, file) pairs; "
                "distinct = distinct (defs, lines); non-trivial = output differs from input verbatim or an error is reported",
        "exhaustive": True, "exhaustive_space": "all directive sequences of length <= %d over 11 line shapes x 4 -D sets (%d cases)" % (exh_len, n_exh),
        "input_distribution": hist, "avoided_known_findings": avoided,
        "samples": [{"defs": cases[n_exh + 5][0], "lines": cases[n_exh + 5][1], "model": results[n_exh + 5][0]},
                    {"defs": cases[-20][0], "lines": cases[-20][1], "model": results[-20][0]}],
    })
    bad.sort(key=lambda b: (not spec_verdict(b[0][0], b[0][1], b[3])[0], len(b[0][1])))
    rep.coverage["disagreements"] = len(bad)
    for (c, o, m, i) in bad[:5]:
        d, ls = shrink(c, impl)
        (m2, i2), = run_both([(d, ls)], impl)
        concrete, verdict = spec_verdict(d, ls, i2)
        rep.violation("corr", {"defs": d, "lines": ls, "model": m2, "impl": i2, "origin": o, "spec": verdict,
                               "broken": "correspondence Model.process = preprocessor.cpp (carrier of every C17 theorem)"},
                      "preprocessor.cpp and the proved model disagree on a %d-line file (%s)" % (len(ls), verdict),
                      no_failing_input=not concrete)

    # (5) end to end through main -D (sample)
    impl_dir = common.build_impl("plain")
    e2e = 0
    for k in range(12 if tier == "quick" else 200):
        rng = rng_for(seed, "c17-e2e", k)
        val = rng.randint(0, 99)
        use_d = rng.random() < 0.5
        prog = "\n".join(["#ifdef FLAG", "#define V %d" % val, "#else", "#define V %d" % (val + 100), "#endif",
                          "void main() {", "  println(V);", "#ifndef FLAG", "  println(7);", "#endif", "  println(W);", "}"]) + "\n"
        args = ["-DW=%d" % (val * 2)] + (["-DFLAG"] if use_d else [])
        rc, o, e = common.run_cb(impl_dir, prog, args=args)
        exp = [str(val if use_d else val + 100)] + ([] if use_d else ["7"]) + [str(val * 2)]
        e2e += 1
        if rc != 0 or o.split() != exp:
            rep.violation("e2e", {"program": prog, "args": args, "stdout": o, "stderr": e[-500:], "rc": rc, "expected": exp},
                          "main -D... does not behave like a leading #define")
    # error must give exit 1 end to end
    for prog in ["#endif\nvoid main(){}\n", "#ifdef X\nvoid main(){}\n", "#frobnicate\nvoid main(){}\n"]:
        rc, o, e = common.run_cb(impl_dir, prog)
        e2e += 1
        if rc != 1:
            rep.violation("e2e-err", {"program": prog, "rc": rc, "stderr": e[-300:]},
                          "unbalanced/unknown directive not reported with exit 1")
    rep.coverage["end_to_end_runs"] = e2e

    # known findings: reproduce each stored replay; report if it still fails
    for f in common.known_findings(PROP):
        d = [tuple(x) for x in f["replay"]["defs"]]
        ls = f["replay"]["lines"]
        (m, i), = run_both([(d, ls)], impl)
        got = [x[2:] for x in i if x.startswith("O ")]
        if got != f["replay"]["expected"]:
            rep.known(f["id"], f["what_fails"])
        else:
            rep.notes.append("known finding %s no longer reproduces (fixed?)" % f["id"])
        if m != i:
            rep.violation("corr-known", {"defs": d, "lines": ls, "model": m, "impl": i},
                          "model and implementation disagree on known-finding replay " + f["id"], True)
    rep.assumptions += [
        "line classification (text of directives -> kind) and macro expansion are tied to the code by differential testing, not proof",
        "__DATE__/__TIME__/__VERSION__ are removed from both sides (values are wall-clock dependent)",
    ]


def replay(path):
    data = json.load(open(path))
    c = data["case"]
    common.ensure_model(PROP)
    impl = common.build_leaf("pp_driver", ["src/frontend/preprocessor/preprocessor.cpp"])
    if "lines" in c:
        (m, i), = run_both([([tuple(x) for x in c["defs"]], c["lines"])], impl)
        print("model:", m); print("impl: ", i)
        return 0 if m == i else 1
    print(json.dumps(c, indent=1))
    return 1
