"""C19 - standard-library Vector / Queue / Map behave as sequence, FIFO and ordered (AVL) map.

Theorems: coq/C19/Properties_C19.v (AVL invariant preserved by insert/remove, refinement to a finite
map, count = cardinal, height bound fib(h+2) <= n+1, pointer-level queue/vector refine list models,
sort = sorted permutation, malloc/free log: every block freed exactly once, nothing live after
the destructor).
Tie: generated Cb programs importing the real stdlib/std/{map,vector,queue}.cb run on the interpreter
built from the current tree; every result, size and tree height is compared with the extracted model
(bin/c19_model) after every operation, and the interpreter's own malloc()/free() built-in calls
(observed through an LD_PRELOAD shim, harness/cpp/c19_mshim.cpp) are compared with the model's event
log block by block.  Thorough tier: the same programs under the ASan/UBSan build.
"""
import itertools
import json
import os
import re

import common
from common import rng_for

PROP = "C19"
LEVEL = "proof"
META = {
    "category": "proof",
    "technique": "Coq invariant + refinement proofs on a function-by-function model of map.cb/queue.cb/vector.cb "
                 "(AVL with stored heights, pointer-level linked lists, malloc/free log; read = latest write of the history, by induction over the history) + extracted-model "
                 "differential run of generated Cb programs incl. the interpreter's malloc/free trace",
    "text": "Machine-checked theorems about Gallina transcriptions of stdlib/std/map.cb (update_height, get_balance, "
            "rotate_left/right with null guards, insert_to_node, remove_from_node with in-order successor, insert counting "
            "through contains), queue.cb and vector.cb (heap of nodes with prev/next/front/back/rear pointers, bottom-up "
            "merge sort on the node-pointer array): the AVL invariant (BST order, |balance|<=1, stored height = real height) "
            "is preserved by every operation; after any operation sequence get/contains/size/is_empty equal those of a "
            "finite map and count = cardinal; fib(h+2) <= n+1 (the exact form of h <= 1.44 log2(n+2)); queue = FIFO list, "
            "vector = list with push/pop both ends, at, find, delete_at, sort = stable sorted permutation; the malloc/free "
            "log of any history followed by the destructor frees every block exactly once. The models are tied to the code "
            "on every run: generated programs (<=200 operations, small key domains, several containers and element types "
            "interleaved, scope entered twice) run on the interpreter built from the current tree and on the extracted "
            "model; results, sizes, heights after every operation and the interpreter's malloc/free built-in trace must agree.",
    "note": "Trusted: Coq kernel, no axioms (Print Assumptions: closed); extraction via ExtrOcamlBasic+ExtrOcamlString; "
            "hand-written models; key/value types enter the model as integers (order-preserving encoding done by the harness); "
            "the interpreter's array_get/array_set/sizeof/pointer arithmetic are covered by differential testing only. "
            "Release half: the model log is proved sound; that the interpreter calls malloc/free where the log says is "
            "observed exactly (LD_PRELOAD shim on the plain build, ASan/UBSan build in the thorough tier), not proved. Known findings "
            "still open: Map<K,V> constructor/destructor never run, string comparison inside Vector<string> find/sort, string "
            "payload copies never freed, empty-string results re-evaluated, long range checks, container copies share nodes, "
            "misaligned next pointer in Queue<int/short> (UBSan).",
}

# ------------------------------------------------------------------ element types
NUM_TYPES = ["int", "long", "short"]
ELEM_TYPES = ["int", "long", "short", "string", "bool", "tiny"]     # Vector / Queue element types
SPECIALS = {
    "tiny": [127, -128, -1, 100],
    "int": [2147483647, -2147483647, 65536, -65536],
    # no long below INT_MIN: known finding C19-generic-long-arg-below-int-min
    "long": [5000000000, 9223372036854775807, 4294967296, -2147483648, 2147483648, 140737488355328],
    "short": [32767, -32767, 256],
}


def lit(t, x):
    """Cb literal for abstract value x of type t."""
    if t == "string":
        return '"s%03d"' % x if x else '""'       # 0 <-> "" (the value of `T dummy;`), order-preserving
    if t == "bool":
        return "true" if x else "false"
    return str(x)


def show(t, x):
    """How the interpreter prints value x of type t."""
    if t == "string":
        return "s%03d" % x if x else ""
    if t == "bool":
        return "1" if x else "0"
    return str(x)


# long keys / values of a Map stay inside [-2^31, 2^31) u [2^32, 2^47): known finding C19-map-long-member-range
MAP_LONG_SPECIALS = [4294967296, 5000000000, 140737488355327, -2147483648, 2147483647]


def rand_val(rng, t, small=12, in_map=False):
    if t == "string":
        return rng.randrange(1, small + 1)      # never "": known finding C19-empty-string-result-reevaluated
    if t == "bool":
        return rng.randrange(0, 2)
    if rng.random() < 0.06:
        return rng.choice(MAP_LONG_SPECIALS if (in_map and t == "long") else SPECIALS[t])
    return rng.randrange(-3, small)


# ------------------------------------------------------------------ case generation
# a case = {"conts": [...], "ops": [[ci, op, args...]], "reps": 1|2}
MAP_VT = ["int", "long", "short", "string", "bool"]
MAP_KT = ["int", "long", "short", "string"]


def new_cont(rng, kind, kdom=None):
    if kind == "map":
        kt = rng.choice(MAP_KT)
        c = {"kind": "map", "k": kt, "v": rng.choice(MAP_VT), "kdom": kdom or rng.choice([3, 6, 10, 16, 40])}
        if kt == "string":
            c["koff"], c["kstride"] = 1, 1
        else:
            c["koff"] = rng.choice([0, 0, -5, {"int": 2147483500, "long": 5000000000, "short": 32600}[kt]])
            c["kstride"] = rng.choice([1, 1, 1, {"int": 7, "long": 10000000000, "short": 3}[kt]])
            if c["koff"] > 1000:
                c["kstride"] = 1
        return c
    return {"kind": kind, "e": rng.choice(ELEM_TYPES)}


def key_of(c, i):
    return c["koff"] + i * c["kstride"]


MOPS = ["insert"] * 9 + ["get"] * 3 + ["contains"] * 2 + ["remove"] * 4 + ["try_remove"] * 2 + ["size", "is_empty", "height"]
VOPS = (["push_back"] * 5 + ["push_front"] * 4 + ["pop_back"] * 2 + ["pop_front"] * 2 + ["delete_at"] * 3 + ["at"] * 4
        + ["find"] * 2 + ["sort", "smaller", "greater", "sort_fn", "get_length", "is_empty"])
QOPS = ["push"] * 6 + ["pop"] * 4 + ["top"] * 2 + ["empty", "is_empty", "size"]


def gen_op(rng, c, ci, phase, approx_len):
    """One random operation on container c; `phase` in {grow, shrink, mix} biases it."""
    if c["kind"] == "map":
        op = rng.choice(MOPS)
        if phase == "grow" and rng.random() < 0.5:
            op = "insert"
        if phase == "shrink" and rng.random() < 0.6:
            op = rng.choice(["remove", "try_remove"])
        if rng.random() < 0.01:
            op = "clear"
        k = key_of(c, rng.randrange(c["kdom"]))
        if op == "insert":
            return [ci, op, k, rand_val(rng, c["v"], 50, True)]
        if op == "get":
            return [ci, op, k, rand_val(rng, c["v"], 99, True) if c["v"] != "bool" else rng.randrange(2)]
        if op in ("contains", "remove", "try_remove"):
            return [ci, op, k]
        return [ci, op]
    if c["kind"] == "vec":
        op = rng.choice(VOPS)
        if phase == "grow" and rng.random() < 0.5:
            op = rng.choice(["push_back", "push_front"])
        if phase == "shrink" and rng.random() < 0.6:
            op = rng.choice(["pop_back", "pop_front", "delete_at"])
        if rng.random() < 0.01:
            op = "clear"
        if c["e"] == "string" and op in ("find", "sort", "smaller", "greater", "sort_fn"):
            op = "at"                            # known finding C19-vector-string-compare
        if op in ("push_back", "push_front", "find"):
            return [ci, op, rand_val(rng, c["e"], 7)]
        if op in ("delete_at", "at"):
            return [ci, op, rng.randrange(-1, max(2, approx_len + 2))]
        return [ci, op]
    op = rng.choice(QOPS)
    if phase == "grow" and rng.random() < 0.5:
        op = "push"
    if phase == "shrink" and rng.random() < 0.6:
        op = "pop"
    if rng.random() < 0.01:
        op = "clear"
    if op == "push":
        return [ci, op, rand_val(rng, c["e"], 50)]
    return [ci, op]


def gen_random_case(rng, nops, conts):
    ops, approx = [], [0] * len(conts)
    nph = rng.randint(1, 6)
    phases = [rng.choice(["grow", "grow", "shrink", "mix"]) for _ in range(nph)]
    for j in range(nops):
        ph = phases[min(nph - 1, j * nph // max(1, nops))]
        ci = rng.randrange(len(conts))
        o = gen_op(rng, conts[ci], ci, ph, approx[ci])
        if o[1] in ("push_back", "push_front", "push"):
            approx[ci] += 1
        elif o[1] in ("pop_back", "pop_front", "pop", "delete_at") and approx[ci] > 0:
            approx[ci] -= 1
        elif o[1] == "clear":
            approx[ci] = 0
        ops.append(o)
    # final observation of everything that is left
    for ci, c in enumerate(conts):
        if c["kind"] == "map":
            for i in range(min(c["kdom"], 16)):
                ops.append([ci, "get", key_of(c, i), 77 if c["v"] != "bool" else 0])
            ops.append([ci, "height"])
            if rng.random() < 0.3:         # most Maps are left non-empty: ~self() must free every node
                ops.append([ci, "clear"])
        elif c["kind"] == "vec":
            for i in range(min(approx[ci] + 1, 12)):
                ops.append([ci, "at", i])
        else:
            if rng.random() < 0.5:
                for i in range(min(approx[ci] + 1, 12)):
                    ops.append([ci, "pop"])
    return {"conts": conts, "ops": ops, "reps": 2 if rng.random() < 0.25 else 1}


def gen_cases(seed, tier):
    """The generated stream: list of (origin, case)."""
    out = []
    q = tier == "quick"
    # (1) exhaustive small scope: every insertion order of m keys followed by every removal order
    m = 4 if q else 5
    keys = list(range(1, m + 1))
    seqs = []
    rm_orders = list(itertools.permutations(keys))
    for ins in itertools.permutations(keys):
        for rm in rm_orders:
            seqs.append((ins, rm))
    per = 12 if q else 24
    for b in range(0, len(seqs), per):
        chunk = seqs[b:b + per]
        conts = [{"kind": "map", "k": "int", "v": "int", "kdom": m + 1, "koff": 0, "kstride": 1} for _ in chunk]
        ops = []
        for ci, (ins, rm) in enumerate(chunk):
            for k in ins:
                ops.append([ci, "insert", k, k * 10])
            for k in rm:
                ops.append([ci, "remove", k])
        out.append(("exhaustive-perm%d" % m, {"conts": conts, "ops": ops, "reps": 1}))
    # (2) long single-map histories over small key domains (collisions, rebalancing on remove, emptying)
    for k in range(120 if q else 2500):
        rng = rng_for(seed, "c19-map", k)
        c = new_cont(rng, "map", kdom=rng.choice([3, 5, 8, 12, 20, 40, 64]))
        out.append(("map-history", gen_random_case(rng, rng.choice([60, 120, 200]), [c])))
    # (3) monotone / zig-zag insertion then removal (every rotation kind, deep trees)
    for k in range(12 if q else 150):
        rng = rng_for(seed, "c19-mono", k)
        n = rng.choice([15, 31, 33, 64] if q else [15, 31, 33, 64, 100])
        order = {0: list(range(n)), 1: list(range(n - 1, -1, -1)),
                 2: [x for p in zip(range(n // 2), range(n - 1, n // 2 - 1, -1)) for x in p]}[k % 3]
        c = {"kind": "map", "k": "int", "v": "int", "kdom": n, "koff": 0, "kstride": 1}
        ops = [[0, "insert", x, x + 1] for x in order]
        rmo = list(range(n))
        rng.shuffle(rmo)
        if k % 2:
            rmo = sorted(rmo)
        ops += [[0, "try_remove", x] for x in rmo[: n - 3]] + [[0, "height"]]
        ops = ops[:200]                    # the Map is left non-empty: ~self() frees the remaining nodes
        out.append(("map-monotone", {"conts": [c], "ops": ops, "reps": 1}))
    # (4) single vector / queue histories
    for k in range(90 if q else 2000):
        rng = rng_for(seed, "c19-vec", k)
        out.append(("vector-history", gen_random_case(rng, rng.choice([40, 90, 160]), [new_cont(rng, "vec")])))
    for k in range(50 if q else 1000):
        rng = rng_for(seed, "c19-que", k)
        out.append(("queue-history", gen_random_case(rng, rng.choice([40, 90, 200]), [new_cont(rng, "que")])))
    # (5) several containers and element types interleaved
    for k in range(140 if q else 3500):
        rng = rng_for(seed, "c19-mix", k)
        conts = [new_cont(rng, rng.choice(["map", "map", "vec", "que"])) for _ in range(rng.randint(2, 6))]
        if rng.random() < 0.5:       # two objects of the very same type
            conts.append(dict(conts[0]))
        out.append(("interleaved", gen_random_case(rng, rng.choice([60, 120, 200]), conts)))
    return out


# ------------------------------------------------------------------ rendering a case as a Cb program
CAL = "    void* cal = malloc(12345); free(cal);\n"


def render(case):
    conts, ops = case["conts"], case["ops"]
    L = ["import stdlib.std.map;", "import stdlib.std.vector;", "import stdlib.std.queue;", ""]
    for t in sorted(set(c["e"] for c in conts if c["kind"] == "vec")):
        # descending comparator handed to sort(void* compare_fn): negative = first argument goes first
        L += ["int c19_desc_%s(%s a, %s b) {" % (t, t, t), "    if (a > b) { return -1; }", "    if (a < b) { return 1; }",
              "    return 0;", "}", ""]
    L.append("void run0() {")
    for i, c in enumerate(conts):
        if c["kind"] == "map":
            L.append("    Map<%s, %s> c%d;" % (c["k"], c["v"], i))
        elif c["kind"] == "vec":
            L.append("    Vector<%s> c%d;" % (c["e"], i))
        else:
            L.append("    Queue<%s> c%d;" % (c["e"], i))
    tn = 0
    for o in ops:
        ci, op, a = o[0], o[1], o[2:]
        c, nm = conts[ci], "c%d" % ci
        if c["kind"] == "map":
            kt, vt = c["k"], c["v"]
            if op == "insert":
                L.append("    %s.insert(%s, %s);" % (nm, lit(kt, a[0]), lit(vt, a[1])))
            elif op == "get":
                tn += 1
                L.append("    %s t%d = %s.get(%s, %s); println(t%d);" % (vt, tn, nm, lit(kt, a[0]), lit(vt, a[1]), tn))
            elif op == "contains":
                L.append("    println(%s.contains(%s));" % (nm, lit(kt, a[0])))
            elif op == "remove":
                L.append("    %s.remove(%s);" % (nm, lit(kt, a[0])))
            elif op == "try_remove":
                L.append("    println(%s.try_remove(%s));" % (nm, lit(kt, a[0])))
            elif op == "height":
                L.append("    println(%s.get_tree_height());" % nm)
            elif op in ("size", "is_empty"):
                L.append("    println(%s.%s());" % (nm, op))
            else:
                L.append("    %s.clear();" % nm)
            L.append("    println(%s.size()); println(%s.get_tree_height());" % (nm, nm))
        elif c["kind"] == "vec":
            et = c["e"]
            if op in ("push_back", "push_front"):
                L.append("    %s.%s(%s);" % (nm, op, lit(et, a[0])))
            elif op == "delete_at":
                L.append("    %s.delete_at(%d);" % (nm, a[0]))
            elif op == "at":
                tn += 1
                L.append("    %s t%d = %s.at(%d); println(t%d);" % (et, tn, nm, a[0], tn))
            elif op == "find":
                tn += 1
                L.append("    long t%d = %s.find(%s); println(t%d);" % (tn, nm, lit(et, a[0]), tn))
            elif op in ("get_length", "is_empty"):
                L.append("    println(%s.%s());" % (nm, op))
            elif op == "sort_fn":
                L.append("    %s.sort(&c19_desc_%s);" % (nm, et))
            else:
                L.append("    %s.%s();" % (nm, op))
            L.append("    println(%s.get_length());" % nm)
        else:
            et = c["e"]
            if op == "push":
                L.append("    %s.push(%s);" % (nm, lit(et, a[0])))
            elif op in ("pop", "top"):
                tn += 1
                L.append("    %s t%d = %s.%s(); println(t%d);" % (et, tn, nm, op, tn))
            elif op == "clear":
                L.append("    %s.clear();" % nm)
            else:
                L.append("    println(%s.%s());" % (nm, op))
            L.append("    println(%s.size());" % nm)
    L += ["}", "", "void main() {", CAL.rstrip("\n")]
    L += ["    run0();", '    println("scope-left");'] * case.get("reps", 1)
    L += ['    println("done");', "}"]
    return "\n".join(L) + "\n"


# ------------------------------------------------------------------ the extracted model
def model_input(case):
    L = ["CASE"]
    for i, c in enumerate(case["conts"]):
        L.append("C %d %s" % (i, c["kind"]))
    for o in case["ops"]:
        o = [o[0], "greater"] + list(o[2:]) if o[1] == "sort_fn" else o     # cmp <= 0 <=> a >= b
        L.append("O " + " ".join(str(x) for x in o))
    L.append("END")
    return L


def run_model(cases):
    """Returns for every case (oplines, dtorlines): oplines[j] = (res, size, height, events)."""
    inp = []
    for c in cases:
        inp += model_input(c)
    rc, o, e = common.sh([common.model_bin(PROP)], input=("\n".join(inp) + "\n").encode(), timeout=900)
    if rc != 0:
        raise RuntimeError("c19_model failed rc=%d: %s" % (rc, e[-800:]))
    res, cur, dt = [], [], []
    for l in o.split("\n"):
        if l == "END":
            res.append((cur, dt))
            cur, dt = [], []
        elif l.startswith("D "):
            dt.append(l.split(" ")[2])
        elif l:
            cur.append(tuple(l.split(" ")))
    if len(res) != len(cases):
        raise RuntimeError("model result count %d != %d" % (len(res), len(cases)))
    return res


def res_type(c, op):
    if c["kind"] == "map":
        return c["v"] if op == "get" else "int"
    if c["kind"] == "vec":
        return c["e"] if op == "at" else "int"
    return c["e"] if op in ("pop", "top") else "int"


def expected_lines(case, mres):
    """Transcript the model predicts for the program of `case` (one list of (line, op index))."""
    oplines, _ = mres
    out = []
    for j, (o, (r, size, height, _)) in enumerate(zip(case["ops"], oplines)):
        c = case["conts"][o[0]]
        if r[0] == "i":
            out.append((show(res_type(c, o[1]), int(r[1:])), j))
        elif r[0] == "b":
            out.append((r[1], j))
        out.append((size, j))
        if c["kind"] == "map":
            out.append((height, j))
    full = []
    for _ in range(case.get("reps", 1)):
        full += out + [("scope-left", -1)]
    return full + [("done", -1)]


def model_events(case, mres):
    """The model's malloc/free log of the whole program as [("M"|"F", (rep, container, block))]."""
    oplines, dts = mres
    ev = [("M", "cal"), ("F", "cal")]                 # void* cal = malloc(12345); free(cal);
    order = list(range(len(case["conts"])))[::-1]
    for rep in range(case.get("reps", 1)):
        for o, (_, _, _, lg) in zip(case["ops"], oplines):
            if lg != "-":
                for x in lg.split(","):
                    ev.append((x[0], (rep, o[0], int(x[1:]))))
        for ci, lg in zip(order, dts):
            if lg != "-":
                for x in lg.split(","):
                    ev.append((x[0], (rep, ci, int(x[1:]))))
    return ev


# ------------------------------------------------------------------ the implementation
_SHIM = {}


def shim():
    if "so" not in _SHIM:
        _SHIM["so"] = common.build_leaf("c19_mshim", [], extra_flags="-shared -fPIC")
    return _SHIM["so"]


def err_class(rc, stderr):
    if rc == 0:
        return "ok"
    if rc == 124:
        return "timeout"
    if rc in (134, 136, 139, -6, -8, -11):
        return "crash(%d)" % rc
    first = (stderr.strip().split("\n") or [""])[0]
    return "error(%d): %s" % (rc, first[:80])


def run_impl(impl_dir, src, with_shim=True, timeout=30):
    env = {"LD_PRELOAD": shim()} if with_shim else {}
    rc, o, e = common.run_cb(impl_dir, src, timeout=timeout, env=env)
    trace = [l.split(" ") for l in e.split("\n") if l.startswith("C19M ")]
    other = "\n".join(l for l in e.split("\n") if not l.startswith("C19M "))
    return rc, o.split("\n")[:-1] if o.endswith("\n") else o.split("\n"), trace, other


def canon_trace(trace):
    """Impl trace -> event list [(kind, address)], calibration block included (it is event 0 and 1 of
    the model's log too).  Nothing is dropped: the trace must equal the model's log exactly."""
    return [(t[1], t[2]) for t in trace], 0


def compare_logs(mev, iev):
    """Model log vs implementation trace up to renaming of blocks. Returns None or a description."""
    bind, rbind = {}, {}
    n = min(len(mev), len(iev))
    for j in range(n):
        (mk, mb), (ik, ia) = mev[j], iev[j]
        if ik == "X":
            return "event %d: the implementation frees block %s twice" % (j, ia)
        if mk != ik:
            return "event %d: model %s, implementation %s" % (j, mk, ik)
        if mk == "M":
            if ia in rbind:
                return "event %d: implementation malloc returns live block" % j
            bind[mb] = ia
            rbind[ia] = mb
        else:
            if bind.get(mb) != ia:
                return "event %d: model frees block %s, implementation frees the block the model calls %s" % (
                    j, mb, rbind.get(ia, "<not a live node>"))
            del bind[mb]
            del rbind[ia]
    if len(iev) > n:
        k, a = iev[n]
        return "implementation has %d extra event(s), first: %s %s" % (len(iev) - n, k, a)
    if len(mev) > n:
        return "implementation stops after %d of %d events (first missing: %s %s) - %s" % (
            n, len(mev), mev[n][0], mev[n][1], "blocks never released" if mev[n][0] == "F" else "allocation missing")
    if bind:
        return "%d block(s) still live at exit" % len(bind)
    return None


def check_case(impl_dir, case, mres, with_shim=True):
    """Returns (ok, detail dict)."""
    src = render(case)
    rc, lines, trace, err = run_impl(impl_dir, src, with_shim)
    exp = expected_lines(case, mres)
    explines = [x[0] for x in exp]
    d = {"rc": rc, "err": err_class(rc, err)}
    if rc != 0 or lines != explines:
        k = 0
        while k < len(lines) and k < len(explines) and lines[k] == explines[k]:
            k += 1
        opi = exp[k][1] if k < len(exp) else -1
        d.update({"kind": "transcript", "line": k, "impl": lines[k] if k < len(lines) else "<missing>",
                  "model": explines[k] if k < len(explines) else "<none>", "op_index": opi,
                  "op": case["ops"][opi] if 0 <= opi < len(case["ops"]) else None, "stderr": err[-300:]})
        return False, d
    if with_shim:
        iev, twins = canon_trace(trace)
        d["twins"] = twins
        d["events"] = len(iev)
        why = compare_logs(model_events(case, mres), iev)
        if why:
            d.update({"kind": "malloc-free-log", "why": why})
            return False, d
    return True, d


# ------------------------------------------------------------------ the property's own oracle (Spec)
def fib(n):
    a, b = 0, 1
    for _ in range(n):
        a, b = b, a + b
    return a


def spec_expected(case):
    """ADT reading of the property: list of (kind, value) per printed line; kind 'eq' must match exactly,
    kind 'height' must satisfy fib(h+2)-1 <= n."""
    st = []
    for c in case["conts"]:
        st.append({} if c["kind"] == "map" else [])
    one = []
    for o in case["ops"]:
        ci, op, a = o[0], o[1], o[2:]
        c, s = case["conts"][ci], st[ci]
        r = None
        if c["kind"] == "map":
            if op == "insert":
                s[a[0]] = a[1]
            elif op == "get":
                r = show(c["v"], s.get(a[0], a[1]))
            elif op == "contains":
                r = "1" if a[0] in s else "0"
            elif op in ("remove", "try_remove"):
                had = a[0] in s
                s.pop(a[0], None)
                if op == "try_remove":
                    r = "1" if had else "0"
            elif op == "size":
                r = str(len(s))
            elif op == "is_empty":
                r = "1" if not s else "0"
            elif op == "clear":
                s.clear()
            if op == "height":
                one.append(("height", len(s)))
            elif r is not None:
                one.append(("eq", r))
            one.append(("eq", str(len(s))))
            one.append(("height", len(s)))
        elif c["kind"] == "vec":
            if op == "push_back":
                s.append(a[0])
            elif op == "push_front":
                s.insert(0, a[0])
            elif op == "pop_back":
                if s:
                    s.pop()
            elif op == "pop_front":
                if s:
                    s.pop(0)
            elif op == "delete_at":
                if 0 <= a[0] < len(s):
                    del s[a[0]]
            elif op == "at":
                r = show(c["e"], s[a[0]] if 0 <= a[0] < len(s) else 0)
            elif op == "find":
                r = str(s.index(a[0]) if a[0] in s else -1)
            elif op in ("sort", "smaller"):
                s.sort()
            elif op in ("greater", "sort_fn"):
                s.sort(reverse=True)
            elif op == "get_length":
                r = str(len(s))
            elif op == "is_empty":
                r = "1" if not s else "0"
            elif op == "clear":
                del s[:]
            if r is not None:
                one.append(("eq", r))
            one.append(("eq", str(len(s))))
        else:
            if op == "push":
                s.append(a[0])
            elif op == "pop":
                r = show(c["e"], s.pop(0) if s else 0)
            elif op == "top":
                r = show(c["e"], s[0] if s else 0)
            elif op in ("empty", "is_empty"):
                r = "1" if not s else "0"
            elif op == "size":
                r = str(len(s))
            elif op == "clear":
                del s[:]
            if r is not None:
                one.append(("eq", r))
            one.append(("eq", str(len(s))))
    full = []
    for _ in range(case.get("reps", 1)):
        full += one + [("eq", "scope-left")]
    return full + [("eq", "done")]


def spec_verdict(case, rc, lines):
    """(concrete?, text): does the implementation contradict the property's own reading on this case?"""
    if rc != 0:
        return True, "spec: the program must run to completion; implementation ends with status %d" % rc
    exp = spec_expected(case)
    for k, (kind, v) in enumerate(exp):
        if k >= len(lines):
            return True, "spec: output ends early at line %d" % k
        if kind == "eq":
            if lines[k] != v:
                return True, "spec (ADT) demands %r at output line %d, implementation prints %r" % (v, k, lines[k])
        else:
            try:
                h = int(lines[k])
            except ValueError:
                return True, "spec: height line %d is not a number: %r" % (k, lines[k])
            if h < 0 or fib(h + 2) - 1 > v or (v > 0 and h == 0):
                return True, "spec: tree height %d with %d entries breaks the AVL bound fib(h+2)-1 <= n" % (h, v)
    if len(lines) != len(exp):
        return True, "spec: %d output lines expected, %d printed" % (len(exp), len(lines))
    return False, "implementation satisfies the ADT reading but differs from the proved model"


# ------------------------------------------------------------------ shrinking
def prune_conts(case):
    used = sorted(set(o[0] for o in case["ops"]))
    if len(used) == len(case["conts"]) or not used:
        return case
    ren = {u: i for i, u in enumerate(used)}
    return {"conts": [case["conts"][u] for u in used], "ops": [[ren[o[0]]] + o[1:] for o in case["ops"]],
            "reps": case.get("reps", 1)}


def avoid_normalise(case):
    """Keep a shrunk candidate inside the generator's avoidance predicates (none concern the shape of
    the operation list any more since 426a76f: Maps may be left non-empty)."""
    return case


def shrink(impl_dir, case, with_shim, budget=120):
    def bad(c):
        if not c["ops"]:
            return False
        c = avoid_normalise(c)
        ok, _ = check_case(impl_dir, c, run_model([c])[0], with_shim)
        return not ok
    cur = dict(case)
    if cur.get("reps", 1) > 1:
        t = dict(cur, reps=1)
        if bad(t):
            cur = t
    n, used = 2, 0
    ops = list(cur["ops"])
    while len(ops) >= 2 and used < budget:
        size = max(1, len(ops) // n)
        reduced = False
        for s in range(0, len(ops), size):
            cand = ops[:s] + ops[s + size:]
            used += 1
            if cand and bad(dict(cur, ops=cand)):
                ops, n, reduced = cand, max(n - 1, 2), True
                break
            if used >= budget:
                break
        if not reduced:
            if size == 1:
                break
            n = min(len(ops), n * 2)
    cur = prune_conts(avoid_normalise(dict(cur, ops=ops)))
    return cur


# ------------------------------------------------------------------ known findings
def replay_finding(impl_dir, f, asan_dir=None):
    """Returns 'fails' | 'passes' | 'skipped' for one known_findings entry."""
    r = f["replay"]
    if r.get("build") == "asan":
        if asan_dir is None:
            return "skipped"
        rc, o, e = common.run_cb(asan_dir, r["program"], timeout=60)
        bad = rc != 0 or "runtime error" in e or "AddressSanitizer" in e
        return "fails" if bad or o.split("\n")[:-1] != r["expected_stdout"] else "passes"
    rc, lines, trace, err = run_impl(impl_dir, r["program"], with_shim=True)
    if rc != 0 or any(t[1] == "X" for t in trace):
        return "fails"
    if not r.get("expected_stdout_ignored") and lines != r["expected_stdout"]:
        return "fails"

    def live_of(ev):
        live = set()
        for k, a in ev:
            if k == "M":
                live.add(a)
            elif k == "F":
                live.discard(a)
        return len(live)
    cal = set(t[2] for t in trace if len(t) > 3 and t[3] == "12345")
    raw = [(t[1], t[2]) for t in trace if t[2] not in cal]
    if "expected_live_blocks" in r and live_of(raw) != r["expected_live_blocks"]:
        return "fails"
    if "expected_live_nodes" in r and live_of(canon_trace(trace)[0]) != r["expected_live_nodes"]:
        return "fails"
    return "passes"


# ------------------------------------------------------------------ main
def run(rep):
    seed, tier = rep.seed, rep.tier
    cq = common.coq_check_props(PROP)
    common.proof_coverage(rep, cq)
    if not cq["ok"]:
        rep.violation("proof", {"theorem": cq["failed_theorem"], "log": cq["log"][-3000:]},
                      "proof obligation %s no longer checks" % cq["failed_theorem"], True)
    common.ensure_model(PROP)
    impl_dir = common.build_impl("plain")
    shim()

    stream = []
    corpus = os.path.join(common.VERIF, "corpus", "c19.json")
    if os.path.exists(corpus):
        for c in json.load(open(corpus)):
            stream.append(("corpus", c))
    stream += gen_cases(seed, tier)
    cases = [c for _, c in stream]
    mres = run_model(cases)

    def one(i):
        return check_case(impl_dir, cases[i], mres[i], True)
    results = common.pmap(one, range(len(cases)))

    hist, nops, seen, nontrivial, twins, events = {}, 0, set(), 0, 0, 0
    ophist = {}
    for (origin, c), (ok, d), mr in zip(stream, results, mres):
        hist[origin] = hist.get(origin, 0) + 1
        nops += len(c["ops"]) * c.get("reps", 1)
        twins += d.get("twins", 0)
        events += d.get("events", 0)
        key = json.dumps(c, sort_keys=True)
        if key in seen:
            continue
        seen.add(key)
        # non-trivial: some operation returned a value from a non-empty container, or a tree reached height >= 2
        if any((l[0] != "u" and l[1] != "0") or l[2] not in ("-", "0", "1") for l in mr[0]):
            nontrivial += 1
        for o in c["ops"]:
            k2 = c["conts"][o[0]]["kind"] + "." + o[1]
            ophist[k2] = ophist.get(k2, 0) + 1
    bad = [(i, d) for i, (ok, d) in enumerate(results) if not ok]
    rep.coverage.update({
        "evaluations": len(cases), "operations_compared": nops, "distinct_nontrivial": nontrivial,
        "rule": "generated Cb program importing the real stdlib run on the interpreter built from the current tree vs "
                "extracted Coq model: every printed result, size and tree height after every operation, plus the "
                "interpreter's malloc/free built-in trace vs the model's event log (block-by-block bijection); "
                "distinct = distinct (containers, operation list); non-trivial = some operation returns a value while "
                "the container is non-empty, or a tree reaches height >= 2",
        "exhaustive": True,
        "exhaustive_space": "every insertion order of %d distinct keys into Map<int,int> followed by %s removal order"
                            % ((4, "every") if tier == "quick" else (5, "every")),
        "input_distribution": hist, "operation_histogram": ophist,
        "malloc_free_events_compared": events,
        "samples": [{"case": cases[len(cases) // 3], "program_head": render(cases[len(cases) // 3])[:600]},
                    {"case": {"conts": cases[-1]["conts"], "ops": cases[-1]["ops"][:12]},
                     "model": [" ".join(x) for x in mres[-1][0][:12]]}],
        "disagreements": len(bad),
    })
    for i, d in bad[:4]:
        origin = stream[i][0]
        small = shrink(impl_dir, cases[i], True)
        sm = run_model([small])[0]
        ok2, d2 = check_case(impl_dir, small, sm, True)
        if ok2:
            small, sm, d2 = cases[i], mres[i], d
        src = render(small)
        rc, lines, trace, err = run_impl(impl_dir, src, True)
        concrete, verdict = spec_verdict(small, rc, lines)
        if d2.get("kind") == "malloc-free-log":
            concrete = True
            verdict = ("release half: " + d2.get("why", "") +
                       " (the property demands every node released exactly once, where the model says)")
        rep.violation("corr", {"case": small, "program": src, "detail": d2, "origin": origin, "spec": verdict,
                               "impl_stdout": lines[:60], "impl_stderr": err[-400:],
                               "broken": "correspondence model = stdlib/std/*.cb on the interpreter (carrier of every C19 theorem)"},
                      "stdlib container and proved model disagree on a %d-operation history (%s; %s)" % (
                          len(small["ops"]), d2.get("kind"), verdict), no_failing_input=not concrete)

    # ---- thorough tier: the same kind of programs under ASan + UBSan (no shim)
    asan_dir = None
    if tier == "thorough":
        asan_dir = common.build_impl("asan")
        sel = [i for i, (o, c) in enumerate(stream)
               if all(not (x["kind"] == "que" and x["e"] not in ("long", "string")) for x in c["conts"])]
        sel = sel[::max(1, len(sel) // 1200)]

        def one_asan(i):
            src = render(cases[i])
            rc, o, e = common.run_cb(asan_dir, src, timeout=120)
            lines = o.split("\n")[:-1]
            exp = [x[0] for x in expected_lines(cases[i], mres[i])]
            san = [l for l in e.split("\n") if "runtime error" in l or "AddressSanitizer" in l]
            return i, rc, lines == exp, san[:2], e[-600:]
        ares = common.pmap(one_asan, sel)
        nbad = 0
        for i, rc, same, san, tail in ares:
            if rc != 0 or not same or san:
                nbad += 1
                if nbad <= 3:
                    rep.violation("asan", {"case": cases[i], "program": render(cases[i]), "rc": rc, "sanitizer": san,
                                           "stderr_tail": tail},
                                  "ASan/UBSan build: %s on a generated container history" % (san[0][:160] if san else "status %d / transcript differs" % rc))
        rep.coverage["asan_runs"] = len(sel)
        rep.coverage["asan_failures"] = nbad
        if hasattr(common, "coqchk"):
            okc, summary = common.coqchk(PROP)
            rep.coverage["coqchk"] = {"ok": okc, "summary": summary[-1200:]}
            if not okc:
                rep.violation("coqchk", {"summary": summary[-3000:]},
                              "coqchk rejects the compiled closure of Properties_C19", True)

    # ---- known findings: replay each stored input
    for f in common.known_findings(PROP):
        st = replay_finding(impl_dir, f, asan_dir)
        if st == "fails":
            rep.known(f["id"], f["what_fails"])
        elif st == "passes":
            rep.notes.append("known finding %s no longer reproduces (fixed?)" % f["id"])
        else:
            rep.notes.append("known finding %s needs the ASan build: replayed in the thorough tier only" % f["id"])
    rep.assumptions += [
        "key and value types enter the model as integers; the harness encodes string keys order-preservingly (s000 < s001 < ...)",
        "array_get/array_set/sizeof/pointer arithmetic/generic instantiation of the interpreter are tied by differential runs, not modelled",
        "the malloc/free trace is taken at the call site(s) of the Cb built-in malloc calibrated by `void* cal = malloc(12345)`; "
        "allocations the interpreter makes for string payloads (array_set) come from another call site and are not in the trace",
    ]


def replay(path):
    data = json.load(open(path))
    c = data["case"]
    common.ensure_model(PROP)
    impl_dir = common.build_impl("plain")
    if "case" in c:
        case = c["case"]
        mr = run_model([case])[0]
        ok, d = check_case(impl_dir, case, mr, True)
        print(render(case))
        print("agree" if ok else "DISAGREE", json.dumps(d, indent=1))
        return 0 if ok else 1
    print(json.dumps(c, indent=1))
    return 1
