"""C04 - integer-typed storage never holds a value outside its declared range.

Theorems: coq/C04/Properties_C04.v and coq/C04/Properties_C04_cxx.v. Spec = the shared reference interpreter coq/Lang (every
store goes through Lang.Sem.coerce, global initialisers included);
Mech = today's store paths of /repo (coq/C04/Model.v) over the min/max table, rejection test and
unsigned clamp re-extracted from the C++ into coq/C04/Gen_RangeTable.v by translators/ranges.py on
every run; the typed store entry point VariableManager::assign_variable is modelled with its type hint
(mech_assign_variable: the range of the TARGET's type is checked whatever hint the caller passes).
A second, independent reading of TypeManager::check_type_range: translators/cxx_pure.py translates clang's AST of the function
into coq/C04/Gen_CheckTypeRange.v on every run; Properties_C04_cxx.v proves about that term that it accepts exactly the closed
interval of Spec (check_type_range_is_spec - nothing of ranges.py is used) and that it agrees with the regex-extracted table
(check_type_range_table).
Tie: (1) the exhaustive matrix types x store paths x boundary values, one store per program: CbCore cells run on
/repo's main, on the extracted Ref (bin/lang_model) and asked of the extracted Mech (bin/c04_model mech); the same
cells again with the type written through a typedef alias; cells outside CbCore (multiple declarations, ++/-- as an
expression, function-pointer calls, whole-array stores, struct literals, nested / indirect members, pointers, references) with
the Spec conversion as the expected transcript. On cells where Mech = Spec main must agree with Ref, on the other cells (the
recorded defects) main must agree with Mech (KNOWN-FINDING) or with Ref (fixed); (2) random programs
mixing the store paths (direct struct member stores included since fix a3f0b3d); (3) hand-written replays of the findings.
(1b) the same store paths under `try` / `checked` (the range error becomes an Err value and the program goes on): sequences of 3-4 stores
into one target, each under try, the target and its neighbours read back after each - a REJECTED store must leave them unchanged; CbCore cells
run on the extracted try layer (coq/C04/Try.v, bin/c04_model try), all cells are also predicted from the Spec effects and from the Mech
effects (coq/C04/Model.v store_steps: the order of conversion, check and write on every path; Properties_C04_try.v); random try-programs.
A translator that gives up or a broken obligation is a VIOLATION; its failing input is the first matrix cell (type x boundary
value, `T x = v;` first) on which main deviates - `no-failing-input-found` only when main deviates nowhere.
"""
import collections
import json
import os
import sys

import common
import gen_c04
import gen_core
import langrun
from common import rng_for

sys.path.insert(0, os.path.join(common.VERIF, "translators"))
import ranges as ranges_tr  # noqa: E402
import cxx_pure  # noqa: E402

PROP = "C04"
LEVEL = "proof"
META = {
    "category": "proof",
    "technique": "Coq invariant proof over the shared reference interpreter (generic state-relation induction) + refinement of a model of "
                 "the C++ store paths over the range table re-extracted from the C++ on every run + theorems about TypeManager::check_type_range "
                 "itself, translated from clang's AST on every run + extracted-model differential matrix against main",
    "text": "Machine-checked for every program, fuel and reachable state of the reference semantics (coq/Lang): if every typed cell (globals, "
            "all scopes of all frames, statics) holds a value of its declared type, so does every cell after any expression or statement, "
            "whatever its outcome (store_inv_step); every run therefore starts and ends well-formed or is refused because of an "
            "out-of-range global initialiser (store_inv_run), every value read, returned or bound to a parameter is in range; an in-range store - both "
            "limits of every type included - reads back exactly and touches no other cell (store_exact, store_touches_only_target); a negative "
            "stored to an unsigned target becomes 0; any other out-of-range value is a range error on every store path and leaves the state "
            "unchanged (rejected_store_changes_nothing: every failing primitive store of the reference semantics returns the state it was given). "
            "Because `try e` / `checked e` turn the range error into an Err value and the program goes on, that is observable: a try layer over the "
            "reference semantics (coq/C04/Try.v: main is a list of statements and `Result r = try x++ / ++a[i] / s.m-- / f(..)` items) is proved to "
            "keep the store invariant through any number of caught errors (store_inv_try_run), to leave frames and blocks as deep as they were "
            "(caught_error_leaves_frames_and_blocks), to leave the state untouched when a ++/-- is rejected (try_incdec_rejected_changes_nothing) and "
            "to add nothing to try-free programs (try_layer_is_conservative). GENERATED FROM THE C++ TEXT on every run, by two independent translators: (a) translators/cxx_pure.py turns clang's AST "
            "(-ast-dump=json) of TypeManager::check_type_range - the closure it hands to evaluate_safe: switch over the type code, min / max "
            "assignments, range test, throw - into a term of the C++17 integer fragment coq/Cxx/Cxx.v (coq/C04/Gen_CheckTypeRange.v); "
            "check_type_range_is_spec proves, for all 10 (type, signedness) rows and every int64 value, that this term accepts exactly the closed "
            "interval of the reference semantics and throws `Value out of range for type` otherwise, check_type_range_default / "
            "type_codes_are_the_labels that every other type code is never rejected; (b) translators/ranges.py re-extracts the min/max table, "
            "the rejection test and the unsigned clamp of clamp_unsigned_value with regular expressions (coq/C04/Gen_RangeTable.v); "
            "range_table_is_documented and range_check_is_closed_interval are stated about these definitions and check_type_range_table proves "
            "that the two readings agree - an edited bound or comparison breaks the obligations themselves. A model of each C++ store path (Mech, "
            "hand-written over (b)) is proved equal to the demanded conversion on declaration (also from a call, a ?:, through a typedef alias, "
            "in a multiple declaration), assignment (also from a call and from a ?: - assign_variable_checks_target_type: "
            "VariableManager::assign_variable checks the range of the TARGET's type for every type hint its callers pass, except a bool hint), "
            "compound assignment, ++/--, argument passing, function results, global scalars (const ones too), multi-dimensional stores, nested "
            "literals, signed 1-D elements and - since fix a3f0b3d - direct stores into struct members (member_store_is_checked: s.m = e, "
            "s.m op= e, s.m++, s.a[i] = e, members of generic structs), and proved NOT to be on the other paths (_refuted theorems = recorded "
            "findings: bool-inferred ?: branch, typedef + ?:, statics after initialisation, global arrays, whole-array stores, struct LITERALS, "
            "nested members and members reached through a pointer / reference / self / struct-array element, pointers, references). The ORDER of "
            "conversion, check and write of every path is modelled too (store_steps / mech_effect): on every path of the model the check comes before "
            "the write, so a rejected store - however often repeated - leaves its target as it was (mech_rejected_store_changes_nothing, "
            "repeated_rejected_stores_change_nothing, checked_paths_effect_refines_spec; write_before_check_refuted is the shape seeded change C04-4 "
            "gave incdec.cpp). main, the "
            "extracted reference interpreter and the extracted Mech are compared on every run on the exhaustive matrix 9 types x (92 CbCore "
            "store-path variants, each also through a typedef alias for the 5 signed types, + 41 variants outside CbCore) x 13 boundary values "
            "(one store per program, about 21 000 programs; the value also arrives in variables of the narrowest other type and of the same type with "
            "the other signedness), on about 3 900 cells types x boundary values x (27 CbCore + 14 other) store-path variants UNDER try / checked "
            "(++/-- on variables, elements, members, through references; =, op=, ++ in a callee on globals, statics, global arrays, members of a "
            "global struct; arguments, results, declarations, static initialisers; element assignment as an expression; 3-4 caught stores per "
            "program, target and neighbours read back after each, also through other read paths) and on random programs mixing the paths, 1 200 of "
            "them with stores under try (assignments from ?: and stores into narrow struct members included; only a bool-inferred, not 0/1-valued "
            "branch is avoided).",
    "note": "Trusted: Coq kernel, no axioms (all Print Assumptions closed); extraction (ExtrOcamlBasic, ExtrOcamlString) + OCaml driver; for "
            "the clang-based reading: clang 14's AST dump, translators/cxx_pure.py (an AST node outside the fragment is a loud failure = "
            "VIOLATION, never skipped) and the semantics coq/Cxx/Cxx.v; that the closure is what check_type_range executes (evaluate_safe runs "
            "it and rethrows) and that error_msg only prints are read off the text, not proved. translators/ranges.py (regular expressions "
            "over two C++ functions; an unrecognised shape is reported as `translator: stale`; the table part is cross-checked by "
            "check_type_range_table, the clamp of clamp_unsigned_value has this one reading). The Mech model of the call sites (which store "
            "path clamps / checks) is a hand-written reading of the named functions, tied to main by differential testing only. Cells "
            "outside CbCore (multiple declarations, struct literals, nested / indirect members, pointers, references, whole-array stores, "
            "function-pointer calls) have no Ref run: their expected transcript is the Spec conversion (Lang.Sem.coerce) of the one store, "
            "printed by the harness. `unsigned char` is rejected by the parser, so the matrix has 9 types; `typedef unsigned T` is rejected "
            "too (typedef variants: signed types only); values outside int64 cannot be written in Cb. Assignment to a VARIABLE used as an "
            "expression crashes the interpreter (finding C04-assignment-expression-crash), so that store path is not exercised and a rejected "
            "= / op= on a variable is observed under try only through a callee (element targets work and are covered). The try layer "
            "(coq/C04/Try.v) is C04's own extension of the shared reference semantics: try items stand in main only; a caught error other than a "
            "range error ends the reference run. Raw try cells (references, parameters, statics, blocks, loops, global structs, element assignment "
            "expressions) have no reference run: their transcript is predicted from the Spec effects of their stores by the harness.",
}

# Mech path -> finding that explains a cell on which Mech differs from Spec
PATH_FINDING = {
    "global-arr": "C04-array-literal-unchecked",
    "elem1": "C04-unsigned-element-read-narrowed", "elem1-compound": "C04-unsigned-element-read-narrowed",
    "incdec-elem1": "C04-unsigned-element-read-narrowed", "lit1": "C04-unsigned-element-read-narrowed",
    "static": "C04-static-unsigned-negative", "assign-from-elemN": "C04-bare-multidim-value",
    "return-from-elemN": "C04-bare-multidim-value",
    "assign-hint:bool": "C04-ternary-assign-bool-branch", "decl-multi:bool": "C04-ternary-assign-bool-branch",
    "decl-typedef-ternary": "C04-typedef-ternary-init-unchecked", "static-assign": "C04-static-unsigned-flag-lost",
    "elem1-global": "C04-global-array-unsigned-flag-lost", "elemN-global": "C04-global-array-unsigned-flag-lost", "arrlit-assign1": "C04-array-literal-assign-unchecked",
    "arrlit-assignN": "C04-array-literal-assign-unchecked", "arr-copy": "C04-array-copy-unchecked",
    # direct member stores (`member`, `member-generic`) are range checked since fix a3f0b3d: no finding explains a deviation there
    "member-literal": "C04-struct-literal-unchecked", "member-literal-arr": "C04-struct-literal-unchecked",
    "member-arrlit-assign": "C04-array-literal-assign-unchecked",
    "member-nested": "C04-nested-member-store-unchecked", "member-pointer": "C04-member-through-pointer-unchecked",
    "member-reference": "C04-member-through-reference-unchecked", "member-struct-array": "C04-struct-array-member-unchecked",
    "deref": "C04-pointer-store-unchecked", "reference": "C04-reference-store-unchecked",
}
ONE_D = ("elem1", "elem1-compound", "lit1", "global-arr", "incdec-elem1", "member-literal-arr")


def finding_for(query, mech, spec):
    w = query.split()
    mpath = w[1]
    if mpath == "global-arr" and w[2].startswith("u") and int(w[3]) < 0:
        return "C04-global-array-unsigned-flag-lost"
    if mpath in ONE_D and spec.startswith("val") and mech.startswith("val"):
        return "C04-unsigned-element-read-narrowed"      # Spec stores the value, the narrowing read changes it
    return PATH_FINDING.get(mpath)


CXX_FILES = ("C04/Gen_CheckTypeRange.v", "C04/CheckTypeRange.v", "C04/Properties_C04_cxx.v")
CXX_THEOREMS_FILE = "C04/Properties_C04_cxx.v"


def _property_files():
    import glob
    return [os.path.join(common.COQ, PROP, "Properties_%s.v" % PROP)] + sorted(glob.glob(os.path.join(common.COQ, PROP, "Properties_%s_*.v" % PROP)))


def _theorems(path):
    import re
    try:
        return re.findall(r"^\s*Theorem\s+([A-Za-z0-9_']+)", common.strip_coq_comments(open(path).read()), re.M)
    except OSError:
        return []


def broken_lemmas(cq):
    """every `File "./C04/X.v", line N` error of the log -> [(file, line, lemma or theorem that contains the line, property theorem(s)
    proved by it)], in the order of the log, one entry per file"""
    import re
    res, seen = [], set()
    for m in re.finditer(r'File "\./(C04/[^"]+\.v)", line (\d+)', cq.get("log", "")):
        f, ln = m.group(1), int(m.group(2))
        if f in seen:
            continue
        seen.add(f)
        lemma = None
        try:
            for l in open(os.path.join(common.COQ, f)).read().split("\n")[:ln]:
                mm = re.match(r"\s*(?:Lemma|Theorem|Corollary|Definition|Example)\s+([A-Za-z0-9_']+)", l)
                if mm:
                    lemma = mm.group(1)
        except OSError:
            pass
        thms = []
        for pf in _property_files():
            try:
                props = common.strip_coq_comments(open(pf).read())
            except OSError:
                continue
            for blk in re.split(r"(?=^\s*Theorem\s)", props, flags=re.M):
                mt = re.match(r"\s*Theorem\s+([A-Za-z0-9_']+)", blk)
                if mt and lemma and re.search(r"\b%s\b" % re.escape(lemma), blk):
                    thms.append(mt.group(1))
        res.append((f, ln, lemma, thms))
    return res


def name_failed(cq, only=None):
    """the property theorem whose obligation broke: the failing lemma of a dependency (first error in the log) mapped
    to the theorem of Properties_C04.v / Properties_C04_cxx.v that is proved by it.  only: restrict to these files"""
    if only is None and cq.get("failed_theorem") and not str(cq["failed_theorem"]).startswith("dependency"):
        return cq["failed_theorem"]
    for f, ln, lemma, thms in broken_lemmas(cq):
        if only is not None and f not in only:
            continue
        if thms:
            return "%s (lemma %s in %s)" % (", ".join(thms), lemma, f)
        return "lemma %s in %s" % (lemma, f)
    return (cq.get("failed_theorem") or "dependency") if only is None else None


# ------------------------------------------------------------------ running the models
def model_run(sexprs, fuel=4000, timeout=1800):
    """Ref (Lang.Print.run converts global initialisers like every other store) -> list of {src, expect, out}"""
    return langrun.model_run(sexprs, fuel, timeout)


def mech_run(queries):
    common.ensure_model(PROP)
    out = common.run_model(PROP, "mech", queries)
    if len(out) != len(queries):
        raise RuntimeError("c04_model mech returned %d answers for %d queries" % (len(out), len(queries)))
    return out


def differential(impl, sexprs, fuel=4000, model_timeout=1800, rewrite=None):
    """rewrite: {index: function(source text) -> source text} applied to the text printed by the reference printer before it is
    given to main (the typedef variants of the matrix)"""
    uniq = list(dict.fromkeys(sexprs))           # (a typedef variant repeats the S-expression of its base cell)
    um = dict(zip(uniq, model_run(uniq, fuel, model_timeout)))
    ms = [dict(um[x]) for x in sexprs]
    if rewrite:
        for k, fn in rewrite.items():
            ms[k] = dict(ms[k], src=fn(ms[k]["src"]))
    idx = [k for k, m in enumerate(ms) if m["expect"] not in ("undef", "nofuel")]
    return run_impl(impl, ms, idx)


def fast_impl_run(impl, srcs, timeout=10):
    """like langrun.impl_run (one main process per program, cwd = the build dir, stdout / stderr / status captured separately), but the
    processes are spawned by one `xargs -P` instead of one Python thread each: the matrix has 13 000 programs of 3 ms"""
    import shutil
    import subprocess
    import tempfile
    if len(srcs) < 64:
        return langrun.impl_run(impl, srcs, timeout=timeout)
    d = tempfile.mkdtemp(prefix="c04run-", dir=common.SCRATCH_ROOT)
    try:
        for k, src in enumerate(srcs):
            with open(os.path.join(d, "%d.cb" % k), "w", encoding="utf-8", errors="surrogateescape") as fh:
                fh.write(src)
        script = ('cd "$0" || exit 2; for k in "$@"; do timeout -k 2 %d ./main "$D/$k.cb" > "$D/$k.out" 2> "$D/$k.err"; '
                  'echo $? > "$D/$k.rc"; done' % timeout)
        p = subprocess.run(["xargs", "-P", str(common.NCPU), "-n", "40", "sh", "-c", script, impl],
                           input=("\n".join(str(k) for k in range(len(srcs))) + "\n").encode(), env=dict(os.environ, D=d),
                           stdout=subprocess.PIPE, stderr=subprocess.PIPE, timeout=3600)
        res = []
        for k in range(len(srcs)):
            try:
                rc = int(open(os.path.join(d, "%d.rc" % k)).read().strip())
                o = open(os.path.join(d, "%d.out" % k), "rb").read().decode("utf-8", "replace")
                e = open(os.path.join(d, "%d.err" % k), "rb").read().decode("utf-8", "replace")
            except (OSError, ValueError):
                rc, o, e = common.run_cb(impl, srcs[k], timeout=timeout)      # the batch runner did not get to it: run it the slow way
            res.append({"rc": rc, "out": o, "err": e})
        return res
    finally:
        shutil.rmtree(d, ignore_errors=True)


def run_impl(impl, ms, idx):
    irs = fast_impl_run(impl, [ms[k]["src"] for k in idx])
    res = [{"model": m, "impl": None} for m in ms]
    bad = []
    for k, ir in zip(idx, irs):
        if ir["rc"] == 124:
            # a time-out of a millisecond program is machine load, not behaviour: once more, alone, with a long limit
            rc, o, e = common.run_cb(impl, ms[k]["src"], timeout=120)
            ir = {"rc": rc, "out": o, "err": e}
        res[k]["impl"] = ir
        why = langrun.compare(ms[k], ir)
        if why:
            bad.append((k, why))
    return res, bad


def raw_differential(impl, cases, spec):
    """cells outside CbCore: the expected transcript is the Spec conversion of the one store"""
    ms = []
    for (src, meta), sp in zip(cases, spec):
        out, failed = predicted(sp, meta["extra"])
        ms.append({"src": src, "expect": "range" if failed else "finished", "out": out})
    return run_impl(impl, ms, list(range(len(ms))))


def predicted(answer, extra):
    """(stdout, failed) a program of the matrix shows when its store behaves as `answer` says ("=" in extra: the stored value again)"""
    if answer.startswith("val "):
        return "".join("%s\n" % x for x in [answer[4:]] + [answer[4:] if e == "=" else str(e) for e in extra]), False
    return "", True


def agrees(i, answer, extra):
    out, failed = predicted(answer, extra)
    if i["rc"] not in (0, 1) or i["out"] != out:
        return False
    if failed:
        return i["rc"] == 1 and langrun.classify_stderr(i["err"]) == "range"
    return i["rc"] == 0


def spec_query(q):
    w = q.split()
    if w[0] == "store":
        return "spec %s %s" % (w[2], w[3])
    # update path type old delta: Spec computes from the exact old value
    return "spec %s %d" % (w[2], int(w[3]) + int(w[4]))


# ------------------------------------------------------------------ stores under try / checked
import re as _re
RANGE_ERR_LINE = _re.compile(r"^0 (Custom|CheckedError): Value out of range for type$")


def canon_try_stdout(out):
    """the report of a caught range error `0 Custom: Value out of range for type` (try) / `0 CheckedError: ..` (checked) is the reference's `0`;
    any other caught error stays as it is (and therefore differs)"""
    return "\n".join("0" if RANGE_ERR_LINE.match(l) else l for l in out.split("\n"))


def try_model_run(sexprs, fuel=4000, timeout=1800):
    """the extracted try layer (coq/C04/Try.v run_try / print_tprogram) -> list of {src, expect, out}"""
    if not sexprs:
        return []
    common.ensure_model(PROP)
    rc, o, e = common.sh([common.model_bin(PROP), "try", str(fuel)], input=("\n".join(sexprs) + "\n").encode(), timeout=timeout)
    if rc != 0:
        raise RuntimeError("c04_model try failed rc=%d: %s" % (rc, e[-800:]))
    res = []
    for blk in o.split("===BEGIN\n")[1:]:
        src, rest = blk.split("===EXPECT ", 1)
        exp, rest = rest.split("\n", 1)
        out = rest.rsplit("\n===END", 1)[0]
        res.append({"src": src, "expect": exp.strip(), "out": out})
    if len(res) != len(sexprs):
        raise RuntimeError("c04_model try returned %d results for %d programs" % (len(res), len(sexprs)))
    return res


def try_impl_run(impl, srcs):
    irs = fast_impl_run(impl, srcs)
    for k, ir in enumerate(irs):
        if ir["rc"] == 124:
            rc, o, e = common.run_cb(impl, srcs[k], timeout=120)
            irs[k] = ir = {"rc": rc, "out": o, "err": e}
        ir["raw_out"] = ir["out"]
        ir["out"] = canon_try_stdout(ir["out"])
    return irs


def try_differential(impl, sexprs, fuel=4000, model_timeout=1800):
    """try-programs on the extracted try layer and on main -> (results, mismatches) like differential()"""
    ms = try_model_run(sexprs, fuel, model_timeout)
    idx = [k for k, m in enumerate(ms) if m["expect"] not in ("undef", "nofuel")]
    irs = try_impl_run(impl, [ms[k]["src"] for k in idx])
    res = [{"model": m, "impl": None} for m in ms]
    bad = []
    for k, ir in zip(idx, irs):
        res[k]["impl"] = ir
        why = langrun.compare(ms[k], ir)
        if why:
            bad.append((k, why))
    return res, bad


def try_cells_run(impl, cells):
    """cells = [(cell, meta)] of gen_c04.try_matrix / raw_try_matrix -> list of dicts {src, ref, mech, spec, mech_out, spec_out, impl}:
    ref = run of the extracted try layer (CbCore cells), mech / spec = the effects the two models give for the cell's stores,
    *_out = the transcript predicted from them"""
    mech = [gen_c04.parse_effects(x) for x in mech_run([m["query"] for _, m in cells])]
    spec = [gen_c04.parse_effects(x) for x in mech_run([m["spec_query"] for _, m in cells])]
    core = [k for k, (c, _) in enumerate(cells) if "sexpr" in c]
    refs = dict(zip(core, try_model_run([cells[k][0]["sexpr"] for k in core])))
    out = []
    for k, (c, m) in enumerate(cells):
        ref = refs.get(k)
        out.append({"src": ref["src"] if ref else c["src"], "ref": ref, "mech": mech[k], "spec": spec[k],
                    "mech_out": gen_c04.predict_try(c, mech[k]), "spec_out": gen_c04.predict_try(c, spec[k]), "impl": None})
    run_idx = [k for k, r in enumerate(out) if not (r["ref"] and r["ref"]["expect"] in ("undef", "nofuel"))
               and gen_c04.try_wellformed(cells[k][0], r["spec"]) and gen_c04.try_wellformed(cells[k][0], r["mech"])]
    for k, ir in zip(run_idx, try_impl_run(impl, [out[k]["src"] for k in run_idx])):
        out[k]["impl"] = ir
    return out


def shows(i, transcript):
    return i is not None and i["rc"] == 0 and i["out"] == transcript


# ------------------------------------------------------------------ main
def run(rep):
    seed, tier = rep.seed, rep.tier
    quick = tier == "quick"
    import time
    t_last = [time.time()]
    phase_s = {}

    def lap(name):
        now = time.time()
        phase_s[name] = round(phase_s.get(name, 0) + now - t_last[0], 1)
        t_last[0] = now
    # (0) re-extract the range table, the rejection test and the unsigned clamp from the current C++ text
    gen = os.path.join(common.COQ, PROP, "Gen_RangeTable.v")
    with common.Lock("c04-gen"):
        info, tstatus = ranges_tr.regenerate(common.REPO, gen)
    rep.coverage["translator"] = {"status": tstatus, "recognised": info.get("recognised"), "problems": info.get("problems"),
                                  "table": {k: {("unsigned" if u else "signed"): list(v) for u, v in d.items()} for k, d in info.get("table", {}).items()},
                                  "reject": info.get("reject"), "clamp": info.get("clamp"), "types_outside_model": info.get("other_types")}
    if tstatus == "stale":
        rep.notes.append("translator: stale - check_type_range / clamp_unsigned_value no longer have the recognised shape (%s); "
                         "Gen_RangeTable.v is the last generated one, relying on the clang-based reading (Properties_C04_cxx.v) and on "
                         "the correspondence run" % info.get("problems"))
    # (0b) the second, independent reading of the same function: clang's AST of TypeManager::check_type_range translated into
    # coq/C04/Gen_CheckTypeRange.v (terms of coq/Cxx/Cxx.v); the obligations of Properties_C04_cxx.v are re-checked below
    t0c = time.time()
    with common.Lock("c04-gen"):
        cinfo, cstatus = cxx_pure.regenerate(common.REPO, "check_type_range")
    rep.coverage["generated_check_type_range"] = {
        "translator": "translators/cxx_pure.py (clang++ -ast-dump=json -> coq/Cxx/Cxx.v terms)", "status": cstatus,
        "dest": cinfo.get("dest"), "source": cinfo.get("source"), "clang_ast_cache": cinfo.get("cache"), "clang_s": cinfo.get("clang_s"),
        "functions": cinfo.get("functions"), "problem": cinfo.get("problem"), "wall_s": round(time.time() - t0c, 2)}
    # (1) proofs
    cq = common.coq_check_props(PROP)
    common.proof_coverage(rep, cq)
    rep.coverage["trusted_base"] = rep.coverage.get("trusted_base", []) + [
        "generated check_type_range: clang 14 AST dump (-ast-dump=json), translators/cxx_pure.py, coq/Cxx/Cxx.v (C++17 integer-expression "
        "and statement semantics); generated range table / clamp: translators/ranges.py (regular expressions)"]
    proof_broken = not cq["ok"]
    common.ensure_model(PROP)
    lap("translator+coq+model")
    impl = common.build_impl("plain")
    lap("build")

    # finding C04-reference-incdec-hits-the-reference: `q++` through a reference never reaches the referenced variable, so the two matrix
    # paths that perform it say nothing about a store path; they are generated as soon as the finding's replay behaves as demanded
    withheld = {}
    for f in common.known_findings(PROP):
        if f["id"] == "C04-reference-incdec-hits-the-reference":
            rc, o, e = common.run_cb(impl, f["replay"]["program"])
            if not (rc == 0 and o == f["replay"]["expected_stdout"]):
                withheld = {"reference:incdec": f["id"], "raw-try-reference:incdec": f["id"]}
    raw_paths = [x for x in gen_c04.RAW_PATHS if x not in withheld]
    raw_try_paths = [x for x in gen_c04.RAW_TRY_PATHS if x not in withheld]

    violations = []          # (name, payload, text)
    known_cells = collections.Counter()
    fixed_cells = collections.Counter()
    hist = collections.Counter()
    outcomes = collections.Counter()
    distinct, nontriv = set(), 0
    samples = []
    n_eval = 0

    # (2) the matrix: CbCore cells (run on Ref too), their typedef variants, and the cells outside CbCore
    passes = 1 if quick else 6
    matrix_cells = 0
    defect_cells = 0
    cells_by_path = collections.Counter()
    group_cells = collections.Counter()

    def cell_payload(s, meta, m, i, mech_k, why):
        d = {"cell": meta, "program": m["src"], "expected_outcome": m["expect"], "expected_stdout": m["out"], "mech": mech_k,
             "impl_rc": i["rc"], "impl_stdout": i["out"], "impl_stderr": i["err"][-400:], "why": why}
        if meta.get("raw"):
            d["raw_program"] = m["src"]
        else:
            d["sexpr"] = s
        return d

    def judge(cases, res, bad, mech, spec, ps):
        nonlocal matrix_cells, defect_cells, nontriv
        badmap = dict(bad)
        for k, (s, meta) in enumerate(cases):
            m, i = res[k]["model"], res[k]["impl"]
            outcomes[m["expect"]] += 1
            group = "raw" if meta.get("raw") else ("typedef" if meta.get("typedef") else "core")
            hist["matrix:" + meta["path"].split(":")[0]] += 1
            cells_by_path[meta["path"]] += 1
            key = (s, meta.get("typedef"))
            if key not in distinct and m["expect"] not in ("undef", "nofuel"):
                distinct.add(key)
                nontriv += 1            # every matrix program prints its target cell or ends in an error
            if i is None:
                continue
            matrix_cells += 1
            group_cells[group] += 1
            if ps == 0 and k % 397 == 5 and len(samples) < 9:
                samples.append({"cell": {x: meta[x] for x in ("path", "type", "kind", "value")}, "program": m["src"],
                                "reference": [m["expect"], m["out"]], "mech": mech[k], "main": [i["rc"], i["out"]]})
            # the one-store prediction of Spec must be what whole-program Ref shows (generator sanity)
            if not meta.get("raw") and not agrees({"rc": 0 if m["expect"] == "finished" else 1, "out": m["out"],
                                                   "err": "Value out of range for type" if m["expect"] == "range" else ""}, spec[k], meta["extra"]):
                violations.append(("generator", {"sexpr": s, "cell": meta, "spec": spec[k], "reference": [m["expect"], m["out"]]},
                                   "internal: Spec prediction for the cell and the reference run of its program differ", True))
                continue
            if mech[k] == spec[k]:
                if k in badmap:
                    violations.append(("matrix", cell_payload(s, meta, m, i, mech[k], badmap[k]),
                                       "store path %s, type %s, value %d (%s): main disagrees with the reference semantics (%s)" % (
                                           meta["path"], meta["type"], meta["value"], meta["kind"], badmap[k]), False))
            else:
                defect_cells += 1
                fid = finding_for(meta["query"], mech[k], spec[k])
                if agrees(i, mech[k], meta["extra"]) and fid:
                    known_cells[fid] += 1
                elif agrees(i, mech[k], meta["extra"]):
                    # the model of today's code (with the table just re-extracted from the C++) and main agree with each
                    # other and not with the property, on a path for which no defect is recorded
                    violations.append(("matrix", cell_payload(s, meta, m, i, mech[k], badmap.get(k)),
                                       "store path %s, type %s, value %d (%s): main (and the model regenerated from the current C++) give `%s`, "
                                       "the property demands `%s`" % (meta["path"], meta["type"], meta["value"], meta["kind"], mech[k], spec[k]), False))
                elif k not in badmap:
                    fixed_cells[fid or meta["path"]] += 1
                else:
                    violations.append(("matrix", cell_payload(s, meta, m, i, mech[k], badmap[k]),
                                       "store path %s, type %s, value %d (%s): main agrees neither with the reference semantics nor with the model "
                                       "of today's code (%s; model says %s)" % (meta["path"], meta["type"], meta["value"], meta["kind"], badmap[k], mech[k]),
                                       False))

    for ps in range(passes):
        cases = gen_c04.matrix(rng_for(seed, "c04-matrix", ps), all_typedef_kinds=True)
        sx = [c[0] for c in cases]
        rewrite = {k: (lambda src, t=meta["type"]: gen_c04.typedef_source(src, t)) for k, (_, meta) in enumerate(cases) if meta.get("typedef")}
        lap("matrix-generate")
        res, bad = differential(impl, sx, rewrite=rewrite)
        lap("matrix-ref+main")
        mech = mech_run([c[1]["query"] for c in cases])
        spec = mech_run([spec_query(c[1]["query"]) for c in cases])
        n_eval += len(cases)
        judge(cases, res, bad, mech, spec, ps)
        lap("matrix-mech+judge")
        raw = gen_c04.raw_matrix(rng_for(seed, "c04-raw", ps), paths=raw_paths)
        mech = mech_run([c[1]["query"] for c in raw])
        spec = mech_run([spec_query(c[1]["query"]) for c in raw])
        res, bad = raw_differential(impl, raw, spec)
        n_eval += len(raw)
        judge(raw, res, bad, mech, spec, ps)
        lap("matrix-raw")

    # (2b) the same store paths under try / checked: the range error is caught, the program goes on and reads the target and its
    # neighbours back - a REJECTED store must have left them as they were (and repeated rejected stores too)
    try_cells_n = collections.Counter()
    try_rejected = [0, 0]          # stores of the try cells: rejected / all (Spec)

    def judge_try(cells, rs, ps):
        nonlocal matrix_cells, defect_cells, nontriv
        for (c, meta), r in zip(cells, rs):
            group = "try-raw" if meta.get("raw") else "try"
            hist["matrix:" + meta["path"].split(":")[0]] += 1
            cells_by_path[meta["path"]] += 1
            ref, i = r["ref"], r["impl"]
            if ref is not None:
                outcomes[ref["expect"]] += 1
            if i is None:
                continue
            key = (c.get("sexpr") or c["src"], "try")
            if key not in distinct:
                distinct.add(key)
                nontriv += 1
            matrix_cells += 1
            group_cells[group] += 1
            try_cells_n[meta["path"]] += 1
            try_rejected[0] += sum(1 for a in r["spec"] if not a[0])
            try_rejected[1] += len(r["spec"])
            if ps == 0 and len(samples) < 12 and meta["kind"] == "max+1" and meta["type"] in ("tiny", "ushort") and meta["path"].endswith((":post", ":var", ":assign")):
                samples.append({"cell": {x: meta[x] for x in ("path", "type", "kind", "value")}, "program": r["src"],
                                "reference": [ref["expect"], ref["out"]] if ref else ["predicted from Spec", r["spec_out"]],
                                "mech": meta["query"] + " -> " + repr(r["mech"]), "main": [i["rc"], i["out"]]})
            payload = {"cell": dict(meta), "try_cell": c, "program": r["src"], "expected_outcome": "finished", "expected_stdout": r["spec_out"],
                       "mech": repr(r["mech"]), "spec": repr(r["spec"]), "impl_rc": i["rc"], "impl_stdout": i["raw_out"], "impl_stderr": i["err"][-400:]}
            if ref is not None and (ref["expect"] != "finished" or ref["out"] != r["spec_out"]):
                violations.append(("generator", dict(payload, reference=[ref["expect"], ref["out"]]),
                                   "internal: the transcript predicted from the Spec effects and the run of the try layer differ (%s)" % meta["path"], True))
                continue
            what = "store path %s, type %s, value %d (%s), %d stores under try of which Spec rejects %d" % (
                meta["path"], meta["type"], meta["value"], meta["kind"], len(r["spec"]), sum(1 for a in r["spec"] if not a[0]))
            if r["mech_out"] == r["spec_out"]:
                if not shows(i, r["spec_out"]):
                    violations.append(("matrix", dict(payload, why="stdout / status differ from the reference"),
                                       "%s: main rc=%d prints %r, the property demands %r (a rejected store must leave its target unchanged)" % (
                                           what, i["rc"], i["out"][:60], r["spec_out"][:60]), False))
            else:
                defect_cells += 1
                fid = PATH_FINDING.get(c["mpath"])
                if shows(i, r["mech_out"]) and fid:
                    known_cells[fid] += 1
                elif shows(i, r["spec_out"]):
                    fixed_cells[fid or meta["path"]] += 1
                else:
                    violations.append(("matrix", dict(payload, why="neither the reference transcript nor the one of the model of today's code"),
                                       "%s: main rc=%d prints %r, the property demands %r, the model of today's code %r" % (
                                           what, i["rc"], i["out"][:50], r["spec_out"][:50], r["mech_out"][:50]), False))

    for ps in range(passes):
        tc = gen_c04.try_matrix(rng_for(seed, "c04-try", ps))
        rs = try_cells_run(impl, tc)
        n_eval += len(tc)
        judge_try(tc, rs, ps)
        lap("matrix-try")
        tr = gen_c04.raw_try_matrix(rng_for(seed, "c04-try-raw", ps), paths=raw_try_paths)
        rs = try_cells_run(impl, tr)
        n_eval += len(tr)
        judge_try(tr, rs, ps)
        lap("matrix-try-raw")

    # (3) random programs mixing the store paths
    n_mixed = 2500 if quick else 30000
    n_core = 1500 if quick else 15000
    progs, origin = [], []
    corpus = os.path.join(common.VERIF, "corpus", "c04.json")
    if os.path.exists(corpus):
        for sxp in json.load(open(corpus)):
            progs.append(sxp); origin.append("corpus")
    for k in range(n_mixed):
        progs.append(gen_c04.mixed_program(rng_for(seed, "c04-mixed", k))); origin.append("mixed")
    feats = collections.Counter()
    ternary_assign = collections.Counter()
    for k in range(n_core):
        # finding C04-ternary-assign-bool-branch is avoided only where it bites: gen_core's blanket `+ 0` around every top-level ?: of an
        # assignment is switched off, gen_c04.narrow_top_ternary wraps only a ?: with a bool-inferred, not 0/1-valued branch
        o = gen_core.Opts(max_stmts=6, funcs=2, avoid_assign_top_ternary=False)
        # plain structs with narrow (tiny / short / int / unsigned int) members and member arrays: since fix a3f0b3d a member is an
        # ordinary store target (assignment, compound assignment, ++/--, element store), no avoidance is needed any more
        o.structs = (k % 3 == 0)
        g = gen_core.Gen(rng_for(seed, "c04-core", k), o)
        sxp, kept, wrapped = gen_c04.narrow_top_ternary(g.program())
        ternary_assign["kept"] += kept; ternary_assign["wrapped"] += wrapped
        progs.append(sxp); origin.append("core")
        feats.update(g.feats)
    res, bad = [], []
    CH = 4000
    for a in range(0, len(progs), CH):
        r, b = differential(impl, progs[a:a + CH])
        res += r
        bad += [(k + a, w) for k, w in b]
    n_eval += len(progs)
    lap("random")
    range_errors = 0
    for p, r, o in zip(progs, res, origin):
        hist["random:" + o] += 1
        outcomes[r["model"]["expect"]] += 1
        if r["model"]["expect"] == "range":
            range_errors += 1
        if (p, None) in distinct or r["model"]["expect"] in ("undef", "nofuel"):
            continue
        distinct.add((p, None))
        if r["model"]["out"].strip() or r["model"]["expect"] != "finished":
            nontriv += 1
    if res:
        j = next((k for k, r in enumerate(res) if r["model"]["expect"] == "range" and origin[k] == "mixed"), 0)
        samples.append({"program": res[j]["model"]["src"], "reference": [res[j]["model"]["expect"], res[j]["model"]["out"]],
                        "main": [res[j]["impl"]["rc"], res[j]["impl"]["out"]] if res[j]["impl"] else None})
    # programs that Ref ends with a division / bounds / other error are the subject of C01 / C05 (and of their recorded
    # findings, e.g. an out-of-range middle index of a 3-D array); here only runs that finish or end in a range error count
    not_compared = sum(1 for r in res if r["model"]["expect"] not in ("finished", "range", "undef", "nofuel"))
    bad = [(k, w) for k, w in bad if res[k]["model"]["expect"] in ("finished", "range")]
    for k, why in bad[:4]:
        def still_bad(sxp, why=why):
            r, b = differential(impl, [sxp], fuel=1500, model_timeout=20)
            return (bool(b) and b[0][1] == why and "Undefined" not in r[0]["impl"]["err"]
                    and r[0]["model"]["expect"] in ("finished", "range"))
        try:
            small = langrun.shrink(progs[k], still_bad, budget=80 if quick else 300)
        except Exception:
            small = progs[k]
        r, b = differential(impl, [small])
        m, i = r[0]["model"], r[0]["impl"]
        violations.append(("prog", {"sexpr": small, "program": m["src"], "expected_stdout": m["out"], "expected_outcome": m["expect"],
                                    "impl_stdout": i["out"] if i else None, "impl_rc": i["rc"] if i else None,
                                    "impl_stderr": (i["err"][-600:] if i else None), "origin": origin[k], "why": why},
                           "main disagrees with the reference semantics on a program mixing store paths (%s; %s)" % (why, origin[k]), False))

    # (3b) random try-programs: stores under try / checked mixed with plain ones, on the extracted try layer and on main
    n_try = 1200 if quick else 12000
    tprogs = [gen_c04.mixed_try_program(rng_for(seed, "c04-mixed-try", k)) for k in range(n_try)]
    tcorpus = os.path.join(common.VERIF, "corpus", "c04_try.json")
    if os.path.exists(tcorpus):
        tprogs = list(json.load(open(tcorpus))) + tprogs
    tres, tbad = [], []
    for a in range(0, len(tprogs), CH):
        r, b = try_differential(impl, tprogs[a:a + CH])
        tres += r
        tbad += [(k + a, w) for k, w in b]
    n_eval += len(tprogs)
    caught = 0
    for p, r in zip(tprogs, tres):
        hist["random:mixed-try"] += 1
        outcomes[r["model"]["expect"]] += 1
        if r["model"]["expect"] == "range":
            range_errors += 1
        if (p, "try") in distinct or r["model"]["expect"] in ("undef", "nofuel"):
            continue
        distinct.add((p, "try"))
        nontriv += 1
        caught += sum(1 for l in r["model"]["out"].split("\n") if l == "0")
    not_compared += sum(1 for r in tres if r["model"]["expect"] not in ("finished", "range", "undef", "nofuel"))
    tbad = [(k, w) for k, w in tbad if tres[k]["model"]["expect"] in ("finished", "range")]
    for k, why in tbad[:4]:
        def still_bad_t(sxp, why=why):
            r, b = try_differential(impl, ["(T " + sxp[3:]], fuel=1500, model_timeout=20)
            return (bool(b) and b[0][1] == why and "Undefined" not in r[0]["impl"]["err"] and r[0]["model"]["expect"] in ("finished", "range"))
        try:
            small = "(T " + langrun.shrink("(P " + tprogs[k][3:], still_bad_t, budget=80 if quick else 300)[3:]
        except Exception:
            small = tprogs[k]
        r, b = try_differential(impl, [small])
        m, i = r[0]["model"], r[0]["impl"]
        violations.append(("prog", {"try_sexpr": small, "program": m["src"], "expected_stdout": m["out"], "expected_outcome": m["expect"],
                                    "impl_stdout": i["raw_out"] if i else None, "impl_rc": i["rc"] if i else None,
                                    "impl_stderr": (i["err"][-600:] if i else None), "origin": "mixed-try", "why": why},
                           "main disagrees with the reference semantics on a program that catches range errors with try / checked and goes on (%s)" % why,
                           False))
    if tres:
        j = next((k for k, r in enumerate(tres) if r["model"]["out"].count("\n0\n") >= 2), 0)
        samples.append({"program": tres[j]["model"]["src"], "reference": [tres[j]["model"]["expect"], tres[j]["model"]["out"]],
                        "main": [tres[j]["impl"]["rc"], tres[j]["impl"]["out"]] if tres[j]["impl"] else None})
    lap("random-try")

    # (4) recorded findings: replay each stored program (the ones outside CbCore are only checked here)
    replayed = 0
    for f in common.known_findings(PROP):
        rc, o, e = common.run_cb(impl, f["replay"]["program"])
        replayed += 1
        ok = (o == f["replay"]["expected_stdout"]) and ((rc == 1) == bool(f["replay"].get("expected_error"))) and rc in (0, 1)
        if ok and f["replay"].get("expected_error"):
            ok = langrun.classify_stderr(e) == "range"
        if not ok:
            rep.known(f["id"], f["what_fails"])
        else:
            rep.notes.append("known finding %s no longer reproduces on its stored replay (fixed?)" % f["id"])
    n_eval += replayed
    known_ids = set(f["id"] for f in common.known_findings(PROP))
    for fid, n in sorted(known_cells.items()):
        if fid in known_ids:
            rep.known(fid, next(f["what_fails"] for f in common.known_findings(PROP) if f["id"] == fid))
        else:
            violations.append(("finding", {"finding": fid, "cells": n}, "matrix cells explained by a finding that is not recorded: %s" % fid, True))
    for fid, n in sorted(fixed_cells.items()):
        rep.notes.append("%d matrix cell(s) of finding/path %s now behave as the property demands (model of today's code is out of date: fixed?)" % (n, fid))

    # (5) a broken proof obligation / a translator that gave up: name it; the matrix above (every type x every boundary value on every
    # store path, run on the real binary) is the targeted search for a concrete failing input - the most direct one first
    concrete = sorted((v for v in violations if v[0] in ("matrix", "prog")),
                      key=lambda v: (0 if isinstance(v[1].get("cell"), dict) and v[1]["cell"].get("path") == "decl:lit" else 1))
    broken = broken_lemmas(cq) if proof_broken else []
    cxx_lemma = None
    if proof_broken:
        # which development broke?  The log of coq_check_props is cut; ask make again for the clang-based one alone (it does not
        # depend on the lemma files about the regex-extracted table, so both can be named)
        rcx, outx = common.coq_make(["C04/CheckTypeRange.vo", "C04/Properties_C04_cxx.vo"])
        cxx_cq = {"log": outx if rcx != 0 else ""}
        cxx_lemma = name_failed(cxx_cq, only=CXX_FILES)
        broken = [b for b in broken if b[0] not in CXX_FILES] + [b for b in broken_lemmas(cxx_cq) if b[0] in CXX_FILES]
    cxx_undischarged = proof_broken and any(t not in cq.get("assumptions", {}) for t in _theorems(os.path.join(common.COQ, CXX_THEOREMS_FILE)))
    rep.coverage["generated_check_type_range"]["obligations"] = _theorems(os.path.join(common.COQ, CXX_THEOREMS_FILE))
    rep.coverage["generated_check_type_range"]["obligations_discharged"] = not cxx_undischarged
    if cstatus == "failed" or cxx_lemma:
        first = concrete[0][1] if concrete else None
        payload = {"theorem": cxx_lemma, "theorems_behind_it": _theorems(os.path.join(common.COQ, CXX_THEOREMS_FILE)),
                   "translator_status": cstatus, "translator_problem": cinfo.get("problem"),
                   "generated_file": "coq/C04/Gen_CheckTypeRange.v", "regex_translator": rep.coverage["translator"],
                   "log": cq["log"][-3000:], "concrete_inputs_found": len(concrete), "failing_input": first}
        if first:
            # the replay of this violation IS the failing program (./check C04 --replay runs it on main and on the reference)
            for key in ("cell", "program", "sexpr", "raw_program", "expected_outcome", "expected_stdout", "impl_rc", "impl_stdout", "impl_stderr"):
                if key in first:
                    payload[key] = first[key]
        if cstatus == "failed":
            text = "cxx_pure.py cannot translate TypeManager::check_type_range (%s): Properties_C04_cxx.v no longer speaks about the code" % (
                ((cinfo.get("problem") or {}).get("text", "?"))[:200])
        else:
            text = "obligation %s about the definition clang's AST of TypeManager::check_type_range is translated into no longer checks" % cxx_lemma
        if first:
            c = first.get("cell") or {}
            text += "; failing input: store path %s, type %s, value %s - main gives rc=%s stdout=%r, the property demands %s %r" % (
                c.get("path"), c.get("type"), c.get("value"), first.get("impl_rc"), (first.get("impl_stdout") or "")[:40],
                first.get("expected_outcome"), (first.get("expected_stdout") or "")[:40])
        rep.violation("cxx", payload, text, no_failing_input=not concrete)
    other = [b for b in broken if b[0] not in CXX_FILES]
    if proof_broken and (other or not cxx_lemma):
        failed = name_failed(cq, only=[b[0] for b in other]) if other else name_failed(cq)
        rep.violation("proof", {"theorem": failed, "log": cq["log"][-3000:], "translator": rep.coverage["translator"],
                                "also_undischarged": (_theorems(os.path.join(common.COQ, CXX_THEOREMS_FILE)) if cxx_undischarged else []),
                                "concrete_inputs_found": len(concrete),
                                "first_concrete_input": (concrete[0][1] if concrete else None)},
                      "proof obligation %s no longer checks (generated range table / test / clamp changed?)%s" % (
                          failed, "; the obligations of Properties_C04_cxx.v are not discharged either" if cxx_undischarged and not cxx_lemma else ""),
                      no_failing_input=not concrete)
    seen = collections.Counter()
    wrote = collections.Counter()
    for name, payload, text, noinp in violations:
        key = (name, payload.get("cell", {}).get("path") if isinstance(payload.get("cell"), dict) else None)
        seen[key] += 1
        if seen[key] > 2 or wrote[name] >= (12 if name == "matrix" else 4):
            continue                       # a few replays per path are enough; the totals are in the evidence
        rep.violation(name, payload, text, noinp)
        wrote[name] += 1

    # (6) thorough tier: the independent checker over the .vo closure of the two property files
    if not quick and not proof_broken:
        rc, o, e = common.sh(["coqchk", "-silent", "-o", "-Q", ".", "Cb", "Cb.%s.Properties_%s" % (PROP, PROP), "Cb.%s.Properties_%s_cxx" % (PROP, PROP),
                              "Cb.%s.Properties_%s_try" % (PROP, PROP)],
                             cwd=common.COQ, timeout=1500)
        ok = rc == 0 and "Axioms: <none>" in (o + e).replace("\n", " ").replace("  ", " ")
        rep.coverage["coqchk"] = {"rc": rc, "axioms_none": "* Axioms: <none>" in o + e, "tail": (o + e)[-400:]}
        if rc != 0:
            rep.violation("coqchk", {"log": (o + e)[-3000:]}, "coqchk rejects the compiled closure of Properties_C04 / Properties_C04_cxx / Properties_C04_try", True)

    lap("shrink+replays+rest")
    rep.coverage.update({
        "phase_seconds": phase_s,
        "evaluations": n_eval, "distinct_nontrivial": nontriv,
        "rule": "matrix: every (type, store path, boundary-value kind) cell as a one-store CbCore program printed by the extracted printer and run on "
                "main, on the extracted Ref and asked of the extracted Mech; random: generated programs mixing store paths, run on main "
                "and Ref. distinct = distinct ASTs that are well-formed (Ref neither Undef nor out of fuel); non-trivial = prints something or "
                "ends in a runtime error",
        "exhaustive": True,
        "exhaustive_scope": "the matrix %d types x (%d CbCore store-path variants, each again with the type written through a typedef alias for "
                            "the 5 signed types, + %d variants outside CbCore) x %d value kinds (cells that cannot be expressed - value outside "
                            "int64, no in-range start value - are skipped by construction) + the same types x kinds x (%d CbCore + %d other) store-path "
                            "variants under try / checked (sequences of caught stores); random programs are a sample" % (
                                len(gen_c04.TYPES), len(gen_c04.PATHS), len(gen_c04.RAW_PATHS), len(gen_c04.KINDS), len(gen_c04.TRY_PATHS),
                                len(gen_c04.RAW_TRY_PATHS)),
        "try_cells": {"run": sum(try_cells_n.values()), "per_path": dict(try_cells_n), "stores_under_try": try_rejected[1],
                      "stores_rejected_and_caught": try_rejected[0],
                      "rule": "every (type, store path that can stand under try / checked, boundary-value kind): 3-4 stores into one target, each under "
                              "try, the target and its neighbours read back after each; main must show the transcript of the extracted try layer "
                              "(coq/C04/Try.v) = the one predicted from the Spec effects; where the Mech effects differ (recorded findings) the Mech one"},
        "random_try_programs": {"run": len(tprogs), "range_errors_caught_by_try_in_reference_runs": caught},
        "matrix_paths_withheld_by_a_finding": withheld,
        "matrix_cells_run": matrix_cells, "matrix_cells_by_group": dict(group_cells), "matrix_passes": passes, "matrix_cells_where_mech_differs_from_spec": defect_cells,
        "cells_per_path": dict(cells_by_path), "known_finding_cells": dict(known_cells), "fixed_cells": dict(fixed_cells),
        "input_distribution": dict(hist), "reference_outcomes": dict(outcomes),
        "random_programs_ending_in_range_error": range_errors, "random_programs_with_other_error_not_compared": not_compared,
        "features": dict(feats.most_common(25)), "findings_replayed": replayed,
        "random_ternary_assignments": {"gen_core_kept": ternary_assign["kept"], "gen_core_wrapped_bool_branch": ternary_assign["wrapped"],
                                       "mixed": sum(p.count("(asg (v ") and p.count("(cond") for p, o in zip(progs, origin) if o == "mixed")},
        "discarded_not_well_formed": outcomes.get("undef", 0) + outcomes.get("nofuel", 0),
        "samples": samples, "disagreements": len(violations),
        "disagreements_by_path": dict(collections.Counter(
            (v[1].get("cell", {}).get("path") if isinstance(v[1].get("cell"), dict) else v[1].get("origin", v[0])) for v in violations)),
    })
    rep.assumptions += [
        "programs on which Ref reports Undef (signed 64-bit overflow of an intermediate) are not well-formed and are discarded (counted)",
        "matrix cells on which the Mech model differs from Spec are the recorded findings: main must then agree with Mech (KNOWN-FINDING) or with Ref (note)",
        "direct struct member stores are on the Mech = Spec side since fix a3f0b3d (matrix paths member:*, raw/member:*; gen_core structs and the struct cells of gen_c04.mixed_program)",
        "random programs stay on store paths where Mech = Spec (gen_c04.mixed_program, gen_core.Opts.avoid_*)",
        "random programs that the reference ends with a division-by-zero or bounds error are not compared here (C01 / C05 decide them)",
        "`unsigned char` is rejected by the parser: 9 of the 10 types of the property are enumerated",
        "only `try e` / `checked e` let a program go on after a range error; e can be ++/-- on a variable, element or member, or a call (an assignment "
        "used as an expression crashes: finding C04-assignment-expression-crash), so a rejected =, op=, argument, result or declaration is observed "
        "through a callee that stores into a global / static / global array / global struct",
        "try cells whose stores would leave int64 on the way (long / unsigned long at their limits) are not well-formed and are skipped (counted in cells_per_path minus try_cells.per_path)",
        "cells outside CbCore are judged against the Spec conversion of their one store (no whole-program reference run)",
        "a top-level ?: of an assignment is wrapped in `+ 0` only when a branch may be inferred bool with a value other than 0/1 (finding C04-ternary-assign-bool-branch)",
    ]


def replay(path):
    data = json.load(open(path))
    c = data["case"]
    impl = common.build_impl("plain")
    cell = c.get("cell") if isinstance(c.get("cell"), dict) else None
    if "try_cell" in c:
        tc = c["try_cell"]
        r = try_cells_run(impl, [(tc, cell)])[0]
        print(r["src"])
        print("stores (model of today's code):", r["mech"], " demanded:", r["spec"])
        if r["ref"]:
            print("reference (try layer):", r["ref"]["expect"], repr(r["ref"]["out"]))
        print("demanded stdout:", repr(r["spec_out"]))
        i = r["impl"]
        if i is None:
            print("not a well-formed cell any more")
            return 0
        print("main:     ", i["rc"], repr(i["raw_out"]), i["err"][-300:])
        if r["mech_out"] != r["spec_out"] and shows(i, r["mech_out"]) and PATH_FINDING.get(tc["mpath"]):
            print("(recorded finding %s)" % PATH_FINDING[tc["mpath"]])
            return 0
        return 0 if shows(i, r["spec_out"]) else 1
    if "try_sexpr" in c:
        r, b = try_differential(impl, [c["try_sexpr"]])
        print(r[0]["model"]["src"])
        print("reference (try layer):", r[0]["model"]["expect"], repr(r[0]["model"]["out"]))
        if r[0]["impl"]:
            print("main:     ", r[0]["impl"]["rc"], repr(r[0]["impl"]["raw_out"]), r[0]["impl"]["err"][-300:])
        return 1 if b else 0
    if "sexpr" in c or "raw_program" in c:
        if "sexpr" in c:
            rewrite = {0: (lambda src, t=cell["type"]: gen_c04.typedef_source(src, t))} if cell and cell.get("typedef") else None
            r, b = differential(impl, [c["sexpr"]], rewrite=rewrite)
        else:
            r, b = raw_differential(impl, [(c["raw_program"], cell)], mech_run([spec_query(cell["query"])]))
        print(r[0]["model"]["src"])
        print("reference:", r[0]["model"]["expect"], repr(r[0]["model"]["out"]))
        if cell and "query" in cell:
            print("model of today's code:", mech_run([cell["query"]])[0], " demanded:", mech_run([spec_query(cell["query"])])[0])
        if r[0]["impl"]:
            print("main:     ", r[0]["impl"]["rc"], repr(r[0]["impl"]["out"]), r[0]["impl"]["err"][-300:])
        return 1 if b else 0
    print(json.dumps(c, indent=1)[:3000])
    return 1
