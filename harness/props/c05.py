"""C05 - array accesses are bounds-checked in every dimension and address row-major cells.

Theorems: coq/C05/Properties_C05.v (calculate_flat_index accepts exactly the in-range tuples and is a
bijection onto the flat buffer; every access site accepts iff in range for indices that fit an int;
rejected accesses change nothing; the array machine incl. pointers refines a shadow array keyed by
index tuples for every operation sequence, with and without `checked`; one law refuted on the faithful
model = known finding (array_get/array_set); the defects this check found at the array sites are fixed in
/repo (ff8053c, 2bd3a28, f8c96b6, 4d44dbb, 3ecd7bc, 3f94fc1) and the model mirrors the repaired code).
Tie: (1) the extracted model (bin/c05_model) against the repository's own Variable::calculate_flat_index
linked into harness/cpp/c05_flatidx.cpp, exhaustively on all shapes of 1-3 dimensions with extents 1..5 x
all index tuples in [-2, extent+2] plus indices around +-2^31 / +-2^32 / +-2^63 (through Variable::index_to_int); (2) generated Cb programs through
`main` for every access path (local / global / parameter array, struct member array, &a[i], p+-k, p++/p--,
p[k], *p, *(p+k), `checked`/`try`) x read/write, compared with the model's run of the same operation list
and with a Python shadow array keyed by index tuples (the property's own reading) - int elements everywhere, float / double
elements for element reads and writes on 2-D / 3-D named arrays (every tuple in [-2, extent+2]^rank, values k + 0.5); (3) Variable::calculate_flat_index itself is
re-translated from clang's AST of its current C++ text into coq/C05/Gen_FlatIndex.v on every run (translators/cxx_pure.py, for loop
over two std::vectors in the C++17 semantics of coq/Cxx/Cxx.v), and so are the copies of that loop that bypass it: the five
`array_dimensions` branches of ArrayManager::get/setMultidimensional*ArrayElement*, the struct-member read path
StructOperations::get_struct_member_multidim_array_element and the float/double read path of the typed evaluator (each cut out of
its function; the last one tests every index since fix 3f94fc1 and is proved equal to the model for element reads - what it lacks is a
test of the NUMBER of subscripts: proved refuted, known finding); coq/C05/Properties_C05_cxx.v proves -
by induction over the loop, for all extents >= 1 whose product fits an int (size_t for the read branch) and all int indices of any
number - that each generated function returns / throws exactly what the model calc_flat says and never reaches undefined behaviour;
when that breaks, harness/flatgen_tie.py searches a
concrete failing (extents, indices) by evaluating the generated function in Coq and replays it on the leaf driver.
"""
import itertools
import json
import os
import re

import common
import flatgen_tie
from common import rng_for

PROP = "C05"
LEVEL = "proof"
META = {
    "category": "proof",
    "technique": "Coq proofs (row-major bijection, per-site accept-iff-in-range for all integer indices, invariant + refinement of an "
                 "array/pointer machine to a tuple-keyed shadow array over all operation sequences) + Variable::calculate_flat_index "
                 "regenerated from clang's AST on every run and proved equal to the model (loop induction, UB-freedom) + extracted-model "
                 "differential run against Variable::index_to_int/calculate_flat_index (leaf, exhaustive) and against main (generated programs)",
    "text": "Machine-checked theorems about a site-by-site Gallina model of the interpreter's array index checks (mirroring /repo at the "
            "fixes ff8053c, 2bd3a28, f8c96b6, 4d44dbb, 3ecd7bc, 3f94fc1): calculate_flat_index accepts exactly the tuples with every index inside its dimension and is a "
            "bijection between those tuples and the flat buffer (row-major); every access site (local/global/parameter array, struct "
            "member array, read and write) accepts iff in range for every integer index (an index that does not fit an int is rejected "
            "by index_to_int); a rejected access leaves the state unchanged; an accepted write changes the cell of exactly one tuple; "
            "the pointer made by &a[i] never leaves the array under p+-k, p++/p--, for every offset; for every sequence of reads, writes "
            "and pointer operations the machine produces the results of a shadow array keyed by index tuples, without `checked` (run "
            "ends at the first rejection) and with it (Err exactly on the rejected accesses, run continues). The one law the code still breaks is proved "
            "refuted on the model with a witness and replayed on the real binary as a known finding (array_get/array_set know no extent). The model is tied to the code on every run: exhaustive "
            "small scopes against the repository's own index_to_int + calculate_flat_index and against main through every access path, "
            "indices around +-2^31/2^32/2^63 and pointer offsets around 2^59/2^61 at every site, plus random access sequences against "
            "a shadow array. For Variable::calculate_flat_index the tie is a proof: its C++ text is re-translated on every run (clang AST -> "
            "Gallina term of the C++17 fragment coq/Cxx/Cxx.v: std::vector reads, for loop run with fuel, int arithmetic with overflow = "
            "undefined behaviour) and Properties_C05_cxx.v shows for all extents >= 1 with product <= INT_MAX, any rank <= INT_MAX and all "
            "int index vectors that the generated function equals the model (value, which exception), never reaches undefined behaviour or "
            "runs out of fuel rank + 1, hence is the row-major bijection; a witness shows the overflow when the product exceeds INT_MAX. "
            "The same for the copies of the loop that bypass calculate_flat_index: ArrayManager's five array_dimensions branches "
            "(getMultidimensionalArrayElementTyped in size_t, setMultidimensionalArrayElement int64/double, "
            "get/setMultidimensionalStringArrayElement in int) and StructOperations::get_struct_member_multidim_array_element (int64 "
            "subscripts, size_t, dimension named in the message) and the float/double/quad read path of the typed evaluator (int64 subscripts, "
            "int through long; since fix 3f94fc1 it tests every index: equal to the model and free of undefined behaviour for every read with at "
            "least as many subscripts as dimensions; for ANY number of subscripts it is the model on the leading dimensions, and the missing test of "
            "that number is proved refuted with a witness = known finding, replayed on the binary). Float / double arrays are part of the program-level "
            "streams (reads in and out of range in every dimension of 2-D / 3-D arrays, exit class and exactly representable values).",
    "note": "Trusted: Coq kernel (vm_compute only for witnesses and examples), no axioms (Print Assumptions: closed; coqchk in the thorough "
            "tier); extraction via ExtrOcamlBasic+ExtrOcamlString, Z kept inductive; the model is hand-written and tied by differential "
            "testing, not by a proof about the C++ - except calculate_flat_index and the seven copies of its loop, whose terms are generated (trusted there: clang 14's AST dump, "
            "translators/cxx_pure.py, the C++17 reading coq/Cxx/Cxx.v). Hypotheses left in the theorems: declared extents fit an int (dims_fit), size < 2^31, "
            "the buffer does not wrap the address space. Not modelled: the flattened-struct synchronisation, pointers into struct member arrays and into parameter arrays (aliasing, C07), element types other than "
            "int (float / double: element reads and writes of named N-D arrays are run through main against the same model; not their struct members, pointers, `checked`), "
            "string/char indexing, dynamic arrays, int64 overflow of element_index + k.",
}

T31, T32, T61 = 2 ** 31, 2 ** 32, 2 ** 61
BASE = 4096


# ================================================================== shapes / tuples
def shapes(maxrank=3, maxext=5):
    for r in range(1, maxrank + 1):
        for d in itertools.product(range(1, maxext + 1), repeat=r):
            yield list(d)


def tuples_around(dims, lo=-2, hi=2):
    return itertools.product(*[range(lo, e + hi + 1) for e in dims])


def size(dims):
    n = 1
    for d in dims:
        n *= d
    return n


def row_major(dims, t):
    k = 0
    for d, i in zip(dims, t):
        k = k * d + i
    return k


def unflat(dims, k):
    out = []
    for d in reversed(dims):
        out.append(k % d)
        k //= d
    return list(reversed(out))


def in_range(dims, t):
    return len(dims) == len(t) and all(0 <= i < d for d, i in zip(dims, t))


def narrow32(z):
    return (z + T31) % T32 - T31


# ================================================================== operations
# op = tuple: ("R", idxs) ("W", idxs, v) ("A", idxs) ("P+", k) ("P-", k) ("P++",) ("P--",) ("PR", k)
#             ("PW", k, v) ("D",) ("DW", v) ("DA", k)
def op_text(o):
    t = o[0]
    if t in ("R", "A"):
        return "%s %s" % (t, ",".join(map(str, o[1])))
    if t == "W":
        return "W %s=%d" % (",".join(map(str, o[1])), o[2])
    if t in ("P+", "P-", "PR", "DA"):
        return "%s %d" % (t, o[1])
    if t == "PW":
        return "PW %d=%d" % (o[1], o[2])
    if t == "DW":
        return "DW %d" % o[1]
    return t


def kind_of(loc):
    return "M" if loc in ("mlocal", "mglobal") else "N"


def model_runs(cases):
    """cases: list of dict(mode, loc, dims, init, ops) -> list of (results list, cells, ptr)."""
    lines = []
    for c in cases:
        lines.append("run %s %s %s %d | %s | %s" % (
            c["mode"], kind_of(c["loc"]), ",".join(map(str, c["dims"])), BASE,
            ",".join(map(str, c["init"])), ";".join(op_text(o) for o in c["ops"])))
    out = common.run_model(PROP, "x", lines)
    res = []
    for l in out:
        if l.startswith("FAIL") or l == "?":
            raise RuntimeError("model driver: " + l)
        rs, cells, ptr = l.split("|")
        res.append(([r for r in rs.split(";") if r], [int(x) for x in cells.split(",") if x != ""],
                    None if ptr == "-" else int(ptr)))
    return res


def spec_run(c):
    """The property's own reading: shadow array keyed by index tuples, unbounded integers.
    Returns (results, cells) with results 'V n' | 'U' | 'E'. Pointer = flat position (C pointer arithmetic
    over the row-major sequence of cells)."""
    dims, n = c["dims"], size(c["dims"])
    sh = {tuple(unflat(dims, k)): v for k, v in enumerate(c["init"])}
    ptr = None
    out = []
    for o in c["ops"]:
        t = o[0]
        r = "E"
        if t == "R":
            if in_range(dims, o[1]):
                r = "V %d" % sh[tuple(o[1])]
        elif t == "W":
            if in_range(dims, o[1]):
                sh[tuple(o[1])] = o[2]
                r = "U"
        elif t == "A":
            if in_range(dims, o[1]):
                ptr = row_major(dims, o[1])
                r = "U"
        elif ptr is not None:
            if t in ("P+", "P-", "P++", "P--"):
                q = ptr + (o[1] if t == "P+" else -o[1] if t == "P-" else 1 if t == "P++" else -1)
                if 0 <= q < n:
                    ptr = q
                    r = "U"
            elif t in ("PR", "DA"):
                q = ptr + o[1]
                if 0 <= q < n:
                    r = "V %d" % sh[tuple(unflat(dims, q))]
            elif t == "PW":
                q = ptr + o[1]
                if 0 <= q < n:
                    sh[tuple(unflat(dims, q))] = o[2]
                    r = "U"
            elif t == "D":
                r = "V %d" % sh[tuple(unflat(dims, ptr))]
            elif t == "DW":
                sh[tuple(unflat(dims, ptr))] = o[1]
                r = "U"
        out.append(r)
        if r == "E" and c["mode"] == "plain":
            break
    return out, [sh[tuple(unflat(dims, k))] for k in range(n)]


# ------------------------------------------------------------------ avoidance predicates (known findings)
def trips_known(c):
    """Name of the known finding this case would trip (model and property differ there), else None."""
    dims, loc = c["dims"], c["loc"]
    member = loc in ("mlocal", "mglobal")
    for o in c["ops"]:
        t = o[0]
        if member and t not in ("R", "W"):
            return "C05-pointer-into-struct-member-incoherent"
        if loc == "param" and t not in ("R", "W"):
            return "C05-pointer-into-parameter-array-incoherent"
    if loc == "param" and len(dims) >= 2:
        wrote = False
        for o in c["ops"]:
            if o[0] == "W" and in_range(dims, o[1]):
                wrote = True
            elif o[0] == "R" and wrote:
                return "C05-parameter-nd-write-invisible-in-callee"
    return None


def well_formed(c):
    """A case the program generator can express: in `checked` mode only the accesses that have a checked form may be
    rejected (a rejected pointer move or N-D / member write would end the run); pointer ops need a pointer."""
    if trips_known(c):
        return False
    ops = c["ops"]
    first_ptr = next((i for i, o in enumerate(ops) if o[0] not in ("R", "W")), None)
    if first_ptr is not None and ops[first_ptr][0] != "A":
        return False
    sr, _ = spec_run(c)
    if c["mode"] == "checked":
        named1 = len(c["dims"]) == 1 and kind_of(c["loc"]) == "N"
        for o, r in zip(ops, sr):
            if r == "E" and not (o[0] in ("R", "PR", "PW", "DA", "D") or (o[0] == "W" and named1)):
                return False
    return True


# ================================================================== Cb program text
def ty(dims, elem="int"):
    return elem + "".join("[%d]" % d for d in dims)


FLOAT_ELEMS = ("float", "double")


def is_float(c):
    return c.get("elem", "int") in FLOAT_ELEMS


def val_text(c, v):
    """How the cell value v (an int in the model and in the shadow array) is written and printed in the program of case c: as it is for
    int elements; v + 0.5 for float / double elements (exactly representable in both, printed with one digit), an untouched cell 0.0."""
    if not is_float(c):
        return str(v)
    return "%d.5" % v if v > 0 else "0.0"


def lit(dims, vals):
    if len(dims) == 1:
        return "[" + ", ".join(map(str, vals)) + "]"
    step = size(dims[1:])
    return "[" + ", ".join(lit(dims[1:], vals[i * step:(i + 1) * step]) for i in range(dims[0])) + "]"


def sub(idxs):
    return "".join("[%d]" % i for i in idxs)


def num(k):
    return str(k) if k >= 0 else "(%d)" % k


SHOW = ('void show(Result<int, RuntimeError> r) {\n  match (r) {\n    Ok(v) => { println("Ok {v}"); }\n'
        '    Err(e) => { println("Err {e}"); }\n  }\n}\n')


def gen_program(c):
    """Cb text of one case. c: mode plain|checked, loc local|global|param|mlocal|mglobal, dims, init (cells,
    row-major), ops, use_literal (bool), ctx (read context selector)."""
    dims, loc, mode, ops = c["dims"], c["loc"], c["mode"], c["ops"]
    n, r = size(dims), len(dims)
    member = loc in ("mlocal", "mglobal")
    A = "s.m" if member else "a"
    elem = c.get("elem", "int")
    flt = elem in FLOAT_ELEMS           # float / double elements: plain mode, named arrays, element reads and writes only
    T = ty(dims, elem)
    args = ", ".join("long i%d" % k for k in range(r))
    isub = "".join("[i%d]" % k for k in range(r))
    top, pre, body = [], [], []
    if member:
        top.append("struct S { int k; %s m; };" % T)
    # ---- declaration + initial contents
    init_writes = []
    lit_ok = c.get("use_literal") and not member and not flt
    if not lit_ok:
        for k, v in enumerate(c["init"]):
            if v != 0:
                init_writes.append("  %s%s = %s;" % (A, sub(unflat(dims, k)), val_text(c, v)))
    decl = "%s a%s;" % (T, (" = " + lit(dims, c["init"])) if lit_ok else "")
    if loc == "global":
        top.append(decl)
    elif loc == "mglobal":
        top.append("S s;")
    # ---- checked helpers
    if mode == "checked":
        top.append(SHOW)
        if loc in ("global", "mglobal"):
            top.append("Result<int, RuntimeError> cr(%s) { return checked %s%s; }" % (args, A, isub))
            top.append("Result<int, RuntimeError> tr(%s) { return try %s%s; }" % (args, A, isub))
            if r == 1 and not member:
                top.append("Result<int, RuntimeError> cw(long i0, int v) { return checked (a[i0] = v); }")
            rcall = lambda nm, idxs: "%s(%s)" % (nm, ", ".join(map(str, idxs)))
            wcall = lambda i, v: "cw(%d, %d)" % (i, v)
        elif loc in ("local", "mlocal"):
            # since fix 982c54e a declaration initialised by try/checked receives the Result: used directly in main
            rcall = wcall = None
        else:
            top.append("Result<int, RuntimeError> cr(%s a, %s) { return checked a%s; }" % (T, args, isub))
            top.append("Result<int, RuntimeError> tr(%s a, %s) { return try a%s; }" % (T, args, isub))
            if r == 1:
                top.append("Result<int, RuntimeError> cw(%s a, long i0, int v) { return checked (a[i0] = v); }" % T)
            rcall = lambda nm, idxs: "%s(a, %s)" % (nm, ", ".join(map(str, idxs)))
            wcall = lambda i, v: "cw(a, %d, %d)" % (i, v)
        top.append("Result<int, RuntimeError> cp(int* p, long k) { return checked p[k]; }")
        top.append("Result<int, RuntimeError> cpw(int* p, long k, int v) { return checked (p[k] = v); }")
        top.append("Result<int, RuntimeError> cd(int* p) { return checked *p; }")
        top.append("Result<int, RuntimeError> cda(int* p, long k) { return checked *(p + k); }")
    # ---- the operations
    have_p = False
    for j, o in enumerate(ops):
        t = o[0]
        ctx = (c.get("ctx", 0) + j) % 3
        if t == "R":
            e = A + sub(o[1])
            if mode == "checked" and rcall is None:
                body.append("  Result<int, RuntimeError> q%d = %s %s; show(q%d);" % (j, "try" if ctx == 2 else "checked", e, j))
            elif mode == "checked":
                body.append("  show(%s);" % rcall("tr" if ctx == 2 else "cr", o[1]))
            elif ctx == 0:
                body.append("  println(%s);" % e)
            elif ctx == 1:
                body.append("  %s t%d = %s; println(t%d);" % (elem if flt else "long", j, e, j))
            else:
                body.append("  println(%s + %s);" % (e, "0.0" if flt else "0"))
        elif t == "W":
            if mode == "checked" and r == 1 and not member and wcall is None:
                body.append("  Result<int, RuntimeError> q%d = checked (a[%d] = %d); show(q%d);" % (j, o[1][0], o[2], j))
            elif mode == "checked" and r == 1 and not member:
                body.append("  show(%s);" % wcall(o[1][0], o[2]))
            else:
                body.append("  %s%s = %s; println(\"u\");" % (A, sub(o[1]), val_text(c, o[2])))
        elif t == "A":
            body.append("  %sp = &%s%s; println(\"u\");" % ("" if have_p else "int* ", A, sub(o[1])))
            have_p = True
        elif t == "P+":
            body.append("  p = p + %s; println(\"u\");" % num(o[1]))
        elif t == "P-":
            body.append("  p = p - %s; println(\"u\");" % num(o[1]))
        elif t == "P++":
            body.append("  p++; println(\"u\");")
        elif t == "P--":
            body.append("  p--; println(\"u\");")
        elif t == "PR":
            body.append("  show(cp(p, %d));" % o[1] if mode == "checked" else "  println(p[%d]);" % o[1])
        elif t == "PW":
            body.append("  show(cpw(p, %d, %d));" % (o[1], o[2]) if mode == "checked"
                        else "  p[%d] = %d; println(\"u\");" % (o[1], o[2]))
        elif t == "D":
            body.append("  show(cd(p));" if mode == "checked" else "  println(*p);")
        elif t == "DW":
            body.append("  *p = %d; println(\"u\");" % o[1])
        elif t == "DA":
            body.append("  show(cda(p, %d));" % o[1] if mode == "checked" else "  println(*(p + %s));" % num(o[1]))
    dump = ["  println(\"dump\");"] + ["  println(%s%s);" % (A, sub(unflat(dims, k))) for k in range(n)]
    src = "\n".join(top) + "\n"
    if loc == "param" and mode == "plain":
        src += "void body(%s a) {\n%s\n%s\n}\n" % (T, "\n".join(body), "\n".join(dump) if r == 1 else "")
        src += "void main() {\n  %s\n%s\n  body(a);\n%s\n}\n" % (decl, "\n".join(init_writes), "\n".join(dump))
    else:
        loc_decl = {"local": "  " + decl, "param": "  " + decl, "mlocal": "  S s;"}.get(loc, "")
        src += "void main() {\n%s\n%s\n%s\n%s\n}\n" % (loc_decl, "\n".join(init_writes), "\n".join(body), "\n".join(dump))
    return src


def expected_stdout(c, results, cells):
    """Lines the program must print if it behaves like (results, cells)."""
    out = []
    ended = False
    for o, r in zip(c["ops"], results):
        if r.startswith("E"):
            if c["mode"] == "plain":
                ended = True
                break
            out.append("Err " + ("bounds" if r == "E bounds" else "other" if r == "E other" else "?"))
        elif c["mode"] == "checked" and o[0] in ("R", "PR", "D", "DA"):
            out.append("Ok " + r[2:])
        elif c["mode"] == "checked" and o[0] == "PW":
            out.append("Ok %d" % o[2])
        elif c["mode"] == "checked" and o[0] == "W" and len(c["dims"]) == 1 and kind_of(c["loc"]) == "N":
            out.append("Ok %d" % o[2])
        elif r.startswith("V"):
            out.append(val_text(c, int(r[2:])))
        else:
            out.append("u")
    if not ended:
        out.append("dump")
        out += [val_text(c, v) for v in cells]
        if c["loc"] == "param" and c["mode"] == "plain" and len(c["dims"]) == 1:
            out.append("dump")
            out += [val_text(c, v) for v in cells]
    return out, ended


_ERRV = re.compile(r"^Err (\w+):")


def canon_stdout(text):
    out = []
    for l in text.split("\n"):
        if l == "":
            continue
        m = _ERRV.match(l)
        if m:
            out.append("Err " + ("bounds" if m.group(1) == "IndexOutOfBoundsError" else "other"))
        else:
            out.append(l)
    return out


def err_class(stderr):
    low = stderr.lower()
    if "error" not in low:
        return "none"
    return "bounds" if "bounds" in low else "other"


def run_case(impl_dir, c):
    src = gen_program(c)
    rc, o, e = common.run_cb(impl_dir, src, timeout=20)
    return {"rc": rc, "stdout": canon_stdout(o), "errclass": err_class(e) if rc != 0 else "none", "stderr": e[-300:]}


def observed(c, run):
    """Canonical observation of one run: (stdout lines, exit status, error class)."""
    return (run["stdout"], run["rc"], run["errclass"])


def predicted(c, results, cells, with_class=True):
    out, ended = expected_stdout(c, results, cells)
    cls = "none"
    if ended:
        last = results[-1]
        cls = "bounds" if last == "E bounds" else "other" if last == "E other" else "any"
    return (out, 1 if ended else 0, cls)


def spec_view(obs):
    """The property does not fix the RuntimeError variant: compare Err lines without their class."""
    return ([("Err" if l.startswith("Err ") else l) for l in obs[0]], obs[1], obs[2])


def spec_prediction(c):
    sr, sc = spec_run(c)
    p = predicted(c, ["E bounds" if r == "E" else r for r in sr], sc)
    return spec_view((p[0], p[1], "any" if p[1] else "none"))


def agree(obs, pred):
    return obs[0] == pred[0] and obs[1] == pred[1] and (pred[2] == "any" and obs[2] != "none" or obs[2] == pred[2])


# ================================================================== generators
def rand_tuple(rng, dims, p_bad):
    t = [rng.randrange(d) for d in dims]
    if rng.random() < p_bad:
        k = rng.randrange(len(dims))
        t[k] = rng.choice([-2, -1, dims[k], dims[k] + 1, dims[k] + 2, -dims[k], 2 * dims[k],
                           # indices that do not fit an int (truncated before fix ff8053c): low 32 bits in range
                           T32 + t[k], -T32 + t[k], 2 * T32 + t[k], T31, -T31 - 1, T31 + t[k], 2 ** 63 - 1, -(2 ** 63 - 1)])
    return t


def gen_ops(rng, c, nops):
    """Mostly valid random access sequence; in plain mode at most one rejected access, placed last."""
    dims, loc, mode = c["dims"], c["loc"], c["mode"]
    n, r = size(dims), len(dims)
    member = loc in ("mlocal", "mglobal")
    ptr_ok = not member and loc != "param"
    ops, ptr = [], None
    end_bad = mode == "plain" and rng.random() < 0.5
    for j in range(nops):
        last = j == nops - 1
        p_bad = (1.0 if (end_bad and last) else 0.0) if mode == "plain" else 0.3
        kinds = ["R", "R", "W", "W"]
        if ptr_ok:
            kinds += ["A"] if ptr is None else ["A", "P+", "P-", "P++", "P--", "D", "DW", "DA", "PR", "PW"]
        t = rng.choice(kinds)
        # element values of either sign (a negative element read as the left operand of +/- crashed before fix 7c216d9)
        v = rng.choice([rng.randint(-999, 999), rng.randint(-2 ** 31, 2 ** 31 - 1)]) if rng.random() < 0.3 else rng.randint(1, 99)
        if t in ("R", "W", "A"):
            bad_here = p_bad if t != "A" or mode == "plain" else 0.0
            idx = rand_tuple(rng, dims, bad_here)
            if mode == "checked" and t == "W" and not (r == 1 and not member) and not in_range(dims, idx):
                t = "R"                                                     # no checked form for this write: would end the run
            o = (t, idx) if t != "W" else (t, idx, v)
            if t == "A" and in_range(dims, idx):
                ptr = row_major(dims, idx)
        else:
            bad = rng.random() < p_bad and (mode == "plain" or t in ("PR", "PW", "DA"))
            if t in ("P+", "P-"):
                sgn = 1 if t == "P+" else -1
                # offsets whose product with 8 wrapped modulo 2^64 before fix 2bd3a28 land "inside" when wrapped
                q = rng.choice([-2, -1, n, n + 1, T61 + rng.randrange(n), -T61 + rng.randrange(n), 2 * T61 + rng.randrange(n),
                                2 ** 59 + 3, -2 ** 59 - 3]) if bad else rng.randrange(n)
                k = (q - ptr) * sgn
                o = (t, k)
                if 0 <= q < n:
                    ptr = q
            elif t in ("P++", "P--"):
                q = ptr + (1 if t == "P++" else -1)
                if not (0 <= q < n) and not bad:
                    t = "D"
                    o = (t,)
                else:
                    o = (t,)
                    if 0 <= q < n:
                        ptr = q
            elif t in ("PR", "PW", "DA"):
                q = rng.choice([-2, -1, n, n + 1, T32 + rng.randrange(n), -T32 + rng.randrange(n), T61 + rng.randrange(n)]) if bad else rng.randrange(n)
                o = (t, q - ptr) if t != "PW" else (t, q - ptr, v)
            elif t == "DW":
                o = (t, v)
            else:
                o = (t,)
        ops.append(o)
        sres, _ = spec_run(dict(c, ops=ops))
        if mode == "plain" and sres and sres[-1] == "E":
            break
    return ops


def rand_case(rng, tier):
    r = rng.choice([1, 1, 2, 2, 3])
    dims = [rng.randint(1, 5) for _ in range(r)]
    locs = ["local", "global", "param", "mlocal", "mglobal"]
    loc = rng.choice(locs)
    mode = rng.choice(["plain", "plain", "checked"])
    if mode == "checked" and loc in ("local", "mlocal") and rng.random() < 0.5:
        loc = "param" if loc == "local" else "mglobal"          # the other half: try/checked in a declaration (fix 982c54e)
    n = size(dims)
    init = [rng.randint(-99, 999) or 1 for _ in range(n)]
    c = {"mode": mode, "loc": loc, "dims": dims, "init": init, "use_literal": rng.random() < 0.5, "ctx": rng.randrange(3)}
    c["ops"] = gen_ops(rng, c, rng.randint(2, 14 if tier == "quick" else 24))
    if loc == "param" and r >= 2:
        # a callee does not see its own writes to an N-D parameter (known finding): reads first, then writes
        c["ops"] = [o for o in c["ops"] if o[0] == "R"] + [o for o in c["ops"] if o[0] != "R"]
        sres, _ = spec_run(c)
        c["ops"] = c["ops"][:len(sres)]
    return c


def single_case(loc, dims, t, rw, init=None, ctx=0, value=7, elem="int"):
    n = size(dims)
    init = init if init is not None else [k + 1 for k in range(n)]
    ops = [("R", list(t))] if rw == "R" else [("W", list(t), value), ("R", list(t))]
    if rw == "W" and loc == "param" and len(dims) >= 2:
        ops = ops[:1]                                   # read-back happens in the caller's dump
    c = {"mode": "plain", "loc": loc, "dims": list(dims), "init": init, "ops": ops, "use_literal": True, "ctx": ctx}
    if elem != "int":
        c["elem"] = elem
    return c


# ================================================================== float / double element arrays
def float_cases(seed, tier):
    """Element reads and writes on 2-D and 3-D arrays of float / double elements (local, global, parameter): every tuple in
    [-2, extent+2]^rank as a single read (in range: the value written to exactly that cell, exactly representable, e.g. 4.5;
    outside in any dimension: the run ends with a bounds error - the read path of these arrays had no per-dimension test before
    fix 3f94fc1), writes with read-back, indices outside int, and short random read / write sequences."""
    cases = []
    locs = ("local", "global", "param")
    if tier == "thorough":
        shp = [d for d in shapes(3, 4) if len(d) == 2] + [d for d in shapes(3, 3) if len(d) == 3]
    else:
        shp = [[2, 3], [3, 2], [1, 4], [2, 2], [2, 2, 2], [2, 3, 2], [3, 1, 2]]
    for si, dims in enumerate(shp):
        n = size(dims)
        init = [10 + 7 * k for k in range(n)]
        for k, t in enumerate(tuples_around(dims)):
            for ei, elem in enumerate(FLOAT_ELEMS):
                if tier == "quick" and len(dims) == 3 and (k + ei + seed) % 2:
                    continue
                loc = locs[(k + ei + si) % 3]
                cases.append(single_case(loc, dims, t, "R", init=init, ctx=(k + ei) % 3, elem=elem))
                if (k + si + seed) % 5 == 0:
                    cases.append(single_case(locs[(k + ei + si + 1) % 3], dims, t, "W", init=init, ctx=k % 3, value=900 + k % 90, elem=elem))
    for k in range(240 if tier == "quick" else 4000):
        rng = rng_for(seed, "c05-float", k)
        dims = [rng.randint(1, 4) for _ in range(rng.choice([2, 2, 3]))]
        n = size(dims)
        c = {"mode": "plain", "loc": rng.choice(locs), "dims": dims, "init": [rng.randint(1, 999) for _ in range(n)],
             "use_literal": False, "ctx": rng.randrange(3), "elem": rng.choice(FLOAT_ELEMS)}
        if k % 2:
            # one access with an index from the whole pool of rand_tuple (also outside int: the subscripts are compared as int64_t)
            t = rand_tuple(rng, dims, 0.85)
            c["ops"] = [("R", t)] if rng.random() < 0.6 else [("W", t, rng.randint(1, 999)), ("R", t)]
            if c["ops"][0][0] == "W" and c["loc"] == "param":
                c["ops"] = c["ops"][:1]
        else:
            ops = []
            for j in range(rng.randint(2, 8)):
                t = rand_tuple(rng, dims, 0.0)
                ops.append(("R", t) if rng.random() < 0.5 else ("W", t, rng.randint(1, 999)))
            if rng.random() < 0.5:
                ops.append(("R", rand_tuple(rng, dims, 1.0)))
            if c["loc"] == "param":
                ops = [o for o in ops if o[0] == "R"] + [o for o in ops if o[0] != "R"]
                sres, _ = spec_run(dict(c, ops=ops))
                ops = ops[:len(sres)]
            c["ops"] = ops
        cases.append(c)
    return [c for c in cases if not trips_known(c)]


# ================================================================== exhaustive program-level read matrices
def matrix_program(loc, dims):
    """One program: fill the array (element writes for every in-range tuple = all accepted writes), then
    `checked` reads over all tuples in [-2, extent+2]^rank through a helper (global: named global array;
    param: local array passed as a parameter; mglobal: member of a global struct)."""
    r, n = len(dims), size(dims)
    member = loc == "mglobal"
    A = "s.m" if member else "a"
    T = ty(dims)
    args = ", ".join("long i%d" % k for k in range(r))
    isub = "".join("[i%d]" % k for k in range(r))
    vals = {}
    top = [SHOW]
    if member:
        top += ["struct S { int k; %s m; };" % T, "S s;"]
    elif loc == "global":
        top.append("%s a;" % T)
    if loc == "param":
        top.append("Result<int, RuntimeError> cr(%s a, %s) { return checked a%s; }" % (T, args, isub))
        call = "cr(a, %s)" % ", ".join("i%d" % k for k in range(r))
    else:
        top.append("Result<int, RuntimeError> cr(%s) { return checked %s%s; }" % (args, A, isub))
        call = "cr(%s)" % ", ".join("i%d" % k for k in range(r))
    body = ["  %s a;" % T] if loc == "param" else []
    for k in range(n):
        v = 1000 + k * 7 % 997
        vals[tuple(unflat(dims, k))] = v
        if v:
            body.append("  %s%s = %d;" % (A, sub(unflat(dims, k)), v))
    for k in range(r):
        body.append("  " * (k + 1) + "for (long i%d = -2; i%d <= %d; i%d++) {" % (k, k, dims[k] + 2, k))
    ind = "  " * (r + 1)
    body.append(ind + "show(%s);" % call)
    for k in reversed(range(r)):
        body.append("  " * (k + 1) + "}")
    return "\n".join(top) + "\nvoid main() {\n" + "\n".join(body) + "\n}\n", vals


# ================================================================== exhaustive pointer matrices
def pointer_cases(tier):
    """Every start position x every offset in [-n-2, n+2] for p+k, p-k (one run each: a rejection ends the
    run), p++/p--, &a[i] for every i in [-2, n+2]; p[k], p[k]=v, *(p+k) batched through `checked`."""
    cases = []
    shp = [[n] for n in range(1, 6)] + ([[2, 2], [2, 3], [3, 2]] if tier == "quick" else
                                        [d for d in shapes(3, 3) if len(d) > 1 and size(d) <= 12])
    for dims in shp:
        n = size(dims)
        init = [10 + k for k in range(n)]
        for li, loc in enumerate(("local", "global")):
            base = {"mode": "plain", "loc": loc, "dims": dims, "init": init, "use_literal": li == 0, "ctx": 0}
            for t in tuples_around(dims):
                if (sum(t) + li) % 2 == 0 or tier == "thorough" or len(dims) == 1:
                    cases.append(dict(base, ops=[("A", list(t)), ("D",)] if in_range(dims, t) else [("A", list(t))]))
            for e in range(n):
                st = ("A", unflat(dims, e))
                if tier == "quick" and len(dims) > 1 and (e + li) % 2:
                    continue
                for k in range(-n - 2, n + 3):
                    cases.append(dict(base, ops=[st, ("P+", k), ("D",)]))
                    cases.append(dict(base, ops=[st, ("P-", k), ("D",)]))
                    if len(dims) > 1:
                        cases.append(dict(base, ops=[st, ("DA", k)]))
                cases.append(dict(base, ops=[st, ("P++",), ("D",)]))
                cases.append(dict(base, ops=[st, ("P--",), ("D",)]))
                cases.append(dict(base, ops=[st, ("DW", 77), ("D",), ("R", unflat(dims, e))]))
                if True:
                    ks = list(range(-n - 2, n + 3))
                    ops = [st] + [("PR", k) for k in ks] + [("DA", k) for k in ks] + \
                          [("PW", k, 500 + k) for k in ks] + [("PR", k) for k in ks] + [("D",)]
                    cases.append(dict(base, mode="checked", ops=ops))
                    for k in ks:
                        if not 0 <= e + k < n:
                            cases.append(dict(base, ops=[st, ("PR", k)]))
                            cases.append(dict(base, ops=[st, ("PW", k, 5)]))
                            cases.append(dict(base, ops=[st, ("DA", k)]))
    return cases


# ================================================================== shrinking
def shrink_case(impl_dir, c, still_bad):
    ops = list(c["ops"])
    changed = True
    while changed and len(ops) > 1:
        changed = False
        for k in range(len(ops)):
            cand = ops[:k] + ops[k + 1:]
            if any(o[0] not in ("R", "W", "A") for o in cand) and not any(o[0] == "A" for o in cand):
                continue
            first_ptr = next((i for i, o in enumerate(cand) if o[0] not in ("R", "W")), None)
            if first_ptr is not None and cand[first_ptr][0] != "A":
                continue
            c2 = dict(c, ops=cand)
            if well_formed(c2) and still_bad(c2):
                ops = cand
                changed = True
                break
    return dict(c, ops=ops)


# ================================================================== leaf stream
def leaf_lines(tier, seed):
    lines, origin = [], []
    for dims in shapes():
        ds = ",".join(map(str, dims))
        for t in tuples_around(dims):
            lines.append("flat %s | %s" % (ds, ",".join(map(str, t))))
            origin.append("exhaustive")
    n_exh = len(lines)
    bnd = []
    for s in (1, -1):
        for b in (T31, T32, 2 * T32, 2 ** 63 - 1 if s == 1 else 2 ** 63):
            for dlt in (-2, -1, 0, 1, 2):
                v = s * b + dlt
                if -2 ** 63 <= v < 2 ** 63:
                    bnd.append(v)
    sh = list(shapes())
    for k, dims in enumerate(sh):
        ds = ",".join(map(str, dims))
        rng = rng_for(seed, "c05-leafb", k)
        for pos in range(len(dims)):
            for b in bnd:
                for extra in (0, dims[pos] - 1, dims[pos]):
                    t = [rng.randrange(d) for d in dims]
                    t[pos] = b + extra if abs(b + extra) < 2 ** 63 else b
                    lines.append("flat %s | %s" % (ds, ",".join(map(str, t))))
                    origin.append("int-boundary")
    for k in range(300 if tier == "quick" else 5000):        # rank mismatch and larger extents
        rng = rng_for(seed, "c05-leafm", k)
        dims = [rng.randint(1, 9) for _ in range(rng.randint(1, 4))]
        t = [rng.randint(-1, 9) for _ in range(rng.randint(0, 5))]
        lines.append("flat %s | %s" % (",".join(map(str, dims)), ",".join(map(str, t))))
        origin.append("random-rank")
    return lines, origin, n_exh


def leaf_spec(line):
    d, t = line[5:].split("|")
    dims = [int(x) for x in d.split(",") if x.strip()]
    idx = [int(x) for x in t.split(",") if x.strip()]
    return str(row_major(dims, idx)) if in_range(dims, idx) else "ERR"


# ================================================================== main
def run(rep):
    seed, tier = rep.seed, rep.tier
    # Variable::calculate_flat_index: re-translate its current C++ text (coq/C05/Gen_FlatIndex.v), then re-check every obligation
    gen = flatgen_tie.regenerate(rep)
    cq = common.coq_check_props(PROP)
    common.proof_coverage(rep, cq)
    rep.coverage["trusted_base"] = rep.coverage.get("trusted_base", []) + [
        "generated calculate_flat_index: clang 14 AST dump (-ast-dump=json), translators/cxx_pure.py, coq/Cxx/Cxx.v (C++17 integer / "
        "std::vector-read / loop semantics)"]
    lines, origin, n_exh = leaf_lines(tier, seed)
    # translator failed / an obligation about a generated function broke: search a concrete failing (extents, indices)
    handled = False
    if gen[1] == "failed" or not cq["ok"]:
        impl0 = common.build_impl("plain")

        def program_replay(copy, dims, idxs):
            """A deviation of one of ArrayManager's branches as an element access through main: the first (location, access) on
            which the binary violates the property's own reading (shadow array)."""
            for rw in {"get_typed": ("R",), "set_int": ("W", "R"), "member_read": ("R",), "float_read": ("R",)}.get(copy, ()):
                for loc in ("mglobal", "global", "mlocal", "local", "param") if copy != "float_read" else ("global", "local", "param"):
                    c = single_case(loc, dims, idxs, rw, elem="double" if copy == "float_read" else "int")
                    if trips_known(c):
                        continue
                    rn = run_case(impl0, c)
                    if not agree(spec_view(observed(c, rn)), spec_prediction(c)):
                        sr, sc = spec_run(c)
                        return dict(c, kind="prog", program=gen_program(c), impl=rn, spec=[sr, sc])
            return None

        def program_sweep():
            """No model to point at an input: every element read and write around small 2-D / 3-D global and struct-member arrays."""
            cands = []
            for dims in ([2, 2], [2, 3], [3, 2], [2, 1, 2]):
                for t in tuples_around(dims, -1, 1):
                    for loc in ("global", "mglobal"):
                        for rw in ("R", "W"):
                            c = single_case(loc, dims, t, rw)
                            if not trips_known(c):
                                cands.append(c)
                    cands.append(single_case("global", dims, t, "R", elem="double"))
            runs = common.pmap(lambda c: run_case(impl0, c), cands)
            for c, rn in zip(cands, runs):
                if not agree(spec_view(observed(c, rn)), spec_prediction(c)):
                    sr, sc = spec_run(c)
                    return dict(c, kind="prog", program=gen_program(c), impl=rn, spec=[sr, sc])
            return None
        handled = flatgen_tie.after_check(rep, gen, cq, lines[:n_exh], program_replay, program_sweep)
    if not cq["ok"] and not handled:
        rep.violation("proof", {"theorem": cq["failed_theorem"], "log": cq["log"][-3000:]},
                      "proof obligation %s no longer checks" % cq["failed_theorem"], True)
    if tier == "thorough" and cq["ok"]:
        rc, o, e = common.sh(["coqchk", "-silent", "-o", "-Q", ".", "Cb", "Cb.C05.Properties_C05"], cwd=common.COQ, timeout=1200)
        txt = o + e
        ax = re.search(r"\* Axioms:\s*(.*?)\n\s*\n", txt, re.S)
        rep.coverage["coqchk"] = {"rc": rc, "axioms": ax.group(1).strip() if ax else "?"}
        if rc != 0:
            rep.violation("coqchk", {"log": txt[-3000:]}, "coqchk rejects the compiled C05 development", True)
    common.ensure_model(PROP)
    leaf = common.build_leaf("c05_flatidx", ["src/common/debug_impl.cpp", "src/common/debug_messages.cpp"])
    impl = common.build_impl("plain")
    hist, evaluations, nontrivial = {}, 0, set()
    samples = []

    def bump(k, n=1):
        hist[k] = hist.get(k, 0) + n

    # ---------------------------------------------------------------- (1) leaf: calculate_flat_index
    data = ("\n".join(lines) + "\n").encode()
    rc, mo, me = common.sh([common.model_bin(PROP), "x"], input=data, timeout=900)
    rc2, io, ie = common.sh([leaf], input=data, timeout=900)
    if rc != 0 or rc2 != 0:
        raise RuntimeError("leaf run failed: model rc=%d impl rc=%d %s %s" % (rc, rc2, me[-300:], ie[-300:]))
    mo, io = mo.split("\n")[:-1], io.split("\n")[:-1]
    if len(mo) != len(lines) or len(io) != len(lines):
        raise RuntimeError("leaf result count mismatch")
    leaf_bad = []
    for l, o, m, i in zip(lines, origin, mo, io):
        bump("leaf:" + o)
        if m != "ERR":
            nontrivial.add(l)
        if m != i:
            leaf_bad.append((l, o, m, i))
    evaluations += len(lines)
    samples.append({"leaf": lines[n_exh // 2], "model": mo[n_exh // 2], "impl": io[n_exh // 2]})
    samples.append({"leaf": lines[n_exh + 7], "model": mo[n_exh + 7], "impl": io[n_exh + 7]})
    leaf_bad.sort(key=lambda b: (leaf_spec(b[0]) == b[3], len(b[0])))
    for (l, o, m, i) in leaf_bad[:3]:
        sp = leaf_spec(l)
        concrete = sp != i
        rep.violation("leaf", {"kind": "leaf", "line": l, "model": m, "impl": i, "spec": sp, "origin": o,
                               "broken": "correspondence Model.calc_flat = Variable::calculate_flat_index"},
                      "calculate_flat_index and the proved model disagree on '%s': impl %s, model %s, property demands %s"
                      % (l, i, m, sp), no_failing_input=not concrete)
    rep.coverage["leaf_disagreements"] = len(leaf_bad)

    # ---------------------------------------------------------------- (2) exhaustive read matrices through main
    mshapes = list(shapes()) if tier == "thorough" else [d for d in shapes() if len(d) < 3 or max(d) <= 3 or sum(d) % 3 == seed % 3]
    jobs = []
    for dims in mshapes:
        for loc in ("global", "param", "mglobal"):
            jobs.append((loc, dims))

    def run_matrix(job):
        loc, dims = job
        src, vals = matrix_program(loc, dims)
        rc, o, e = common.run_cb(impl, src, timeout=60)
        return job, vals, rc, canon_stdout(o), e[-300:]

    mres = common.pmap(run_matrix, jobs)
    # model decisions for all tuples (one batch)
    qlines = []
    for loc, dims in jobs:
        for t in tuples_around(dims):
            qlines.append("res %s R %s | %s" % (kind_of(loc), ",".join(map(str, dims)), ",".join(map(str, t))))
    qout = common.run_model(PROP, "x", qlines)
    qi = 0
    mat_bad = 0
    for (job, vals, rc, out, err) in mres:
        loc, dims = job
        tl = list(tuples_around(dims))
        exp = []
        for t in tl:
            m = qout[qi]
            qi += 1
            exp.append("Ok %d" % vals[tuple(unflat(dims, int(m[3:])))] if m.startswith("OK") else
                       "Err " + m[4:])
        evaluations += len(tl)
        bump("matrix-read:" + loc, len(tl))
        nontrivial.add(("matrix", loc, tuple(dims)))
        if rc != 0 or out != exp:
            mat_bad += 1
            k = next((i for i, (a, b) in enumerate(zip(out, exp)) if a != b), min(len(out), len(exp)))
            t = list(tl[k]) if k < len(tl) else None
            if mat_bad <= 3 and t is not None:
                c = single_case({"param": "param", "global": "global", "mglobal": "mglobal"}[loc], dims, t, "R")
                c["mode"] = "checked"
                got = out[k] if k < len(out) else "(missing, rc=%d %s)" % (rc, err)
                spec = ("Ok %d" % vals[tuple(t)] if in_range(dims, t) else "Err")
                concrete = (got != spec) if spec.startswith("Ok") else not got.startswith("Err")
                rep.violation("matrix", dict(c, kind="prog", expected_model=exp[k], got=got, program=gen_program(c)),
                              "checked read %s%s on %s %s array: impl '%s', model '%s', property demands %s"
                              % ("a", sub(t), loc, ty(dims), got, exp[k], spec), no_failing_input=not concrete)
    rep.coverage["matrix_programs"] = len(jobs)
    rep.coverage["matrix_disagreements"] = mat_bad
    samples.append({"matrix": {"loc": jobs[3][0], "dims": jobs[3][1], "first_lines": mres[3][3][:6]}})

    # ---------------------------------------------------------------- (3) single accesses that end the run
    singles = []
    locs_named = ["local", "global", "param"]
    if tier == "thorough":
        for dims in shapes():
            locs = locs_named + ["mlocal", "mglobal"]
            for k, t in enumerate(tuples_around(dims)):
                if in_range(dims, t):
                    continue
                for j, rw in enumerate(("R", "W")):
                    singles.append(single_case(locs[(k + j + len(dims)) % len(locs)], dims, t, rw, ctx=k % 3))
        # every (location, rw) for rank <= 2 and extents <= 3
        for dims in shapes(2, 3):
            for t in tuples_around(dims):
                for loc in locs_named + ["mlocal", "mglobal"]:
                    for rw in ("R", "W"):
                        singles.append(single_case(loc, dims, t, rw, ctx=(t[0] + 9) % 3))
    else:
        allsh = list(shapes())
        for k in range(1400):
            rng = rng_for(seed, "c05-single", k)
            dims = rng.choice(allsh)
            locs = locs_named + ["mlocal", "mglobal"]
            t = rand_tuple(rng, dims, 0.85)
            singles.append(single_case(rng.choice(locs), dims, t, rng.choice(["R", "W"]), ctx=rng.randrange(3),
                                       value=rng.randint(1, 99)))
    singles = [c for c in singles if not trips_known(c)]

    # ---------------------------------------------------------------- (4) random access sequences
    n_seq = 700 if tier == "quick" else 25000
    seqs, avoided = [], 0
    corpus = os.path.join(common.VERIF, "corpus", "c05.json")
    if os.path.exists(corpus):
        for c in json.load(open(corpus)):
            seqs.append(c)
    for k in range(n_seq):
        c = rand_case(rng_for(seed, "c05-seq", k), tier)
        if not well_formed(c):
            avoided += 1
            continue
        seqs.append(c)

    def check_stream(cases, tag):
        nonlocal evaluations
        bad = []
        mres = model_runs(cases)
        runs = common.pmap(lambda c: run_case(impl, c), cases)
        for c, (mr, mc, mp), rn in zip(cases, mres, runs):
            evaluations += 1
            bump("%s:%s:%s:rank%d" % (tag, c["mode"], c["loc"], len(c["dims"])))
            sr, sc = spec_run(c)
            key = json.dumps([c["mode"], c["loc"], c["dims"], c["init"], c["ops"]])
            if any(r.startswith("E") for r in mr) or any(o[0] in ("W", "PW", "DW") for o in c["ops"]):
                nontrivial.add(key)
            if not agree(observed(c, rn), predicted(c, mr, mc)):
                bad.append((c, mr, mc, rn, sr, sc))
        return bad

    def report(bad, tag):
        bad.sort(key=lambda b: len(b[0]["ops"]))
        for (c, mr, mc, rn, sr, sc) in bad[:4]:
            def still_bad(c2):
                (mr2, mc2, _), = model_runs([c2])
                return not agree(observed(c2, run_case(impl, c2)), predicted(c2, mr2, mc2))
            c = shrink_case(impl, c, still_bad)
            (mr, mc, _), = model_runs([c])
            rn = run_case(impl, c)
            sr, sc = spec_run(c)
            concrete = not agree(spec_view(observed(c, rn)), spec_prediction(c))
            rep.violation(tag, dict(c, kind="prog", program=gen_program(c), model=[mr, mc], impl=rn, spec=[sr, sc],
                                    broken="correspondence Model.run_%s = main on the generated program" % c["mode"]),
                          "%s %s array %s, ops %s: impl stdout %s rc=%d, model predicts %s; property (shadow array) %s"
                          % (c["mode"], c["loc"], ty(c["dims"], c.get("elem", "int")), [op_text(o) for o in c["ops"]], rn["stdout"][:8], rn["rc"],
                             predicted(c, mr, mc)[0][:8], "is violated" if concrete else "still holds on this input"),
                          no_failing_input=not concrete)

    bad1 = check_stream(singles, "single")
    report(bad1, "single")
    pcases = [c for c in pointer_cases(tier) if not trips_known(c)]
    bad3 = check_stream(pcases, "pointer")
    report(bad3, "pointer")
    rep.coverage["pointer_matrix_programs"] = len(pcases)
    bad2 = check_stream(seqs, "seq")
    report(bad2, "seq")
    rep.coverage["single_access_programs"] = len(singles)
    rep.coverage["sequence_programs"] = len(seqs)
    rep.coverage["avoided_known_findings"] = avoided
    if seqs:
        samples.append({"sequence": {k: seqs[-1][k] for k in ("mode", "loc", "dims", "ops")}})
    if singles:
        samples.append({"single": {k: singles[0][k] for k in ("loc", "dims", "ops")}})

    # ---------------------------------------------------------------- (5) known findings: replay each entry
    for f in common.known_findings(PROP):
        still, fixed, broken = replay_finding(impl, f)
        if still:
            rep.known(f["id"], f["what_fails"])
        elif fixed:
            rep.notes.append("known finding %s no longer reproduces (fixed?): %s" % (f["id"], fixed))
        for b in broken:
            rep.violation("known-" + f["id"], b, "behaviour on the replay of %s matches neither the recorded defect nor the property" % f["id"], True)
        evaluations += 1

    # ---------------------------------------------------------------- (6) int-boundary stream through main
    # (indices around +-2^31 / +-2^32 at every site, pointer offsets around 2^59 / 2^61: since the fixes ff8053c and
    #  2bd3a28 the model and the property agree there, so this is part of the main stream)
    bcases = [c for c in boundary_cases(seed, tier) if well_formed(c)]
    bad4 = check_stream(bcases, "int-boundary")
    report(bad4, "int-boundary")
    rep.coverage["int_boundary_programs"] = len(bcases)

    # ---------------------------------------------------------------- (7) float / double element arrays through main
    # (part of the main stream since fix 3f94fc1: the read path of these arrays tests every index against its dimension)
    fcases = float_cases(seed, tier)
    bad5 = check_stream(fcases, "float")
    report(bad5, "float")
    rep.coverage["float_array_programs"] = len(fcases)

    rep.coverage.update({
        "evaluations": evaluations, "distinct_nontrivial": len(nontrivial),
        "rule": "leaf: every (shape, index tuple) line fed to /repo's calculate_flat_index and to the extracted model; program level: "
                "generated Cb programs run by main vs the model's run of the same operation list (stdout lines, exit status, error class); "
                "distinct = distinct input; non-trivial = accepted leaf tuple, or a program with a rejected access or a write",
        "exhaustive": True,
        "exhaustive_space": "leaf: all %d (shape, tuple) pairs for ranks 1-3, extents 1..5, indices in [-2, extent+2]; main: checked "
                            "reads over the same tuple space for %d (location, shape) pairs; pointers: every start x every offset in "
                            "[-n-2, n+2] for p+k, p-k, p[k], p[k]=v, *(p+k), p++, p--, &a[i] on 1-D arrays of 1..5 cells and small N-D shapes%s" % (
                                n_exh, len(jobs), "; every out-of-range tuple as a single read and write through rotating locations" if tier == "thorough" else ""),
        "input_distribution": hist, "samples": samples,
        "disagreements": len(leaf_bad) + mat_bad + len(bad1) + len(bad2) + len(bad3) + len(bad4) + len(bad5),
    })
    rep.assumptions += [
        "the Gallina model is hand-written from the named C++ sites and tied to them by differential runs, not by proof (except "
        "Variable::calculate_flat_index: generated from clang's AST and proved equal to the model under extents >= 1, product and rank <= INT_MAX)",
        "element type int (every stream) and float / double (2-D and 3-D named arrays: single reads over every tuple in [-2, extent+2]^rank, "
        "writes with read-back, short sequences; values k + 0.5, exactly representable); array extents 1..5 (leaf also up to 9); values within int range",
        "program-level runs observe stdout, exit status and the class of the first stderr error line only",
        "pointers are exercised on local and global named arrays only (pointer/parameter and pointer/struct-member aliasing belongs to C07)",
    ]


# ================================================================== boundary stream
def boundary_cases(seed, tier):
    cases = []
    big = [T32 + 1, -T32 + 1, T32, -T32, T31, -T31, T31 + 1, -T31 - 1, 2 * T32 + 1, T32 - 1, T31 - 1, 2 ** 63 - 1, -(2 ** 63 - 1)]
    k = 0
    for dims in ([4], [5], [2, 3], [3, 2], [2, 2, 2]):
        for loc in ["local", "global", "param", "mlocal", "mglobal"]:
            for pos in range(len(dims)):
                for b in big if tier == "thorough" else big[:8]:
                    for rw in ("R", "W"):
                        rng = rng_for(seed, "c05-bnd", k)
                        k += 1
                        t = [rng.randrange(1, d) if d > 1 else 0 for d in dims]
                        t[pos] = b
                        c = single_case(loc, dims, t, "R", ctx=k % 3)
                        if rw == "W":
                            c["ops"] = [("W", t, 77)]
                        cases.append(c)
    # pointers: &a[big], p[big], p[big] = v, p +- big
    for dims in ([4], [5], [2, 3]):
        for loc in ("local", "global"):
            for b in big[:6]:
                cases.append(dict(single_case(loc, dims, [0] * len(dims), "R"), ops=[("A", [b] + [0] * (len(dims) - 1))]))
                st0 = [0] * (len(dims) - 1) + [1]
                cases.append(dict(single_case(loc, dims, st0, "R"), ops=[("A", st0), ("PR", b)]))
                cases.append(dict(single_case(loc, dims, st0, "R"), ops=[("A", st0), ("PW", b, 55), ("R", [0] * (len(dims) - 1) + [2])]))
            for kk in (T61 + 1, T61, 2 * T61 + 2, -T61 + 1, T61 - 1, 2 ** 60, -(2 ** 60), 2 ** 59 - 1, 2 ** 59, -(2 ** 59), 2 ** 63 - 1):
                cases.append(dict(single_case(loc, dims, [0] * len(dims), "R"), ops=[("A", [0] * len(dims)), ("P+", kk), ("D",)]))
                cases.append(dict(single_case(loc, dims, [0] * len(dims), "R"),
                                  ops=[("A", [0] * (len(dims) - 1) + [1] if dims[-1] > 1 else [0] * len(dims)), ("P-", kk), ("D",)]))
                cases.append(dict(single_case(loc, dims, [0] * len(dims), "R"), ops=[("A", [0] * len(dims)), ("DA", kk)]))
    return cases


# ================================================================== known findings
def replay_finding(impl, f):
    """Returns (still_failing, fixed_text_or_None, list of broken payloads)."""
    rp = f["replay"]
    if "program" in rp:
        rc, o, e = common.run_cb(impl, rp["program"], timeout=20)
        got = {"rc": rc, "stdout": [l for l in o.split("\n") if l], "errclass": err_class(e) if rc != 0 else "none"}
        dem = rp["demanded"]
        ok_dem = (dem.get("rc") is None or dem["rc"] == rc) and (dem.get("stdout") is None or dem["stdout"] == got["stdout"]) \
            and (dem.get("stdout_prefix") is None or got["stdout"][:len(dem["stdout_prefix"])] == dem["stdout_prefix"])
        obs = rp["observed"]
        ok_obs = (obs.get("rc") is None or obs["rc"] == rc) and (obs.get("stdout") is None or obs["stdout"] == got["stdout"])
        if ok_dem:
            return False, "program now gives %s" % got, []
        if ok_obs:
            return True, None, []
        return True, None, [dict(kind="known", id=f["id"], program=rp["program"], got=got, recorded=obs, demanded=dem)]
    c = rp["case"]
    c = dict(c, ops=[tuple([o[0]] + [list(x) if isinstance(x, list) else x for x in o[1:]]) for o in c["ops"]])
    rn = run_case(impl, c)
    sr, sc = spec_run(c)
    spec_pred = spec_prediction(c)
    (mr, mc, _), = model_runs([c])
    obs = observed(c, rn)
    if agree(spec_view(obs), spec_pred):
        return False, "impl now matches the shadow array on %s" % [op_text(o) for o in c["ops"]], []
    if rp.get("model_mirrors", True) and not agree(obs, predicted(c, mr, mc)):
        return True, None, [dict(c, kind="prog", id=f["id"], program=gen_program(c), impl=rn, model=[mr, mc], spec=[sr, sc])]
    return True, None, []


# ================================================================== replay entry point
def replay(path):
    data = json.load(open(path))
    c = data["case"]
    common.ensure_model(PROP)
    if c.get("kind") == "leaf" and "line" in c:
        leaf = common.build_leaf("c05_flatidx", ["src/common/debug_impl.cpp", "src/common/debug_messages.cpp"])
        inp = (c["line"] + "\n").encode()
        _, m, _ = common.sh([common.model_bin(PROP), "x"], input=inp)
        _, i, _ = common.sh([leaf], input=inp)
        print("line: ", c["line"]); print("model:", m.strip()); print("impl: ", i.strip()); print("spec: ", leaf_spec(c["line"]))
        if (c.get("failing_input") or {}).get("build") == "ubsan":
            ub = common.build_leaf(flatgen_tie.LEAF[0], flatgen_tie.LEAF[1], flatgen_tie.UBSAN_FLAGS)
            rc, o, e = common.sh([ub], input=inp)
            print("ubsan:", o.strip(), "rc=%d" % rc); print(e[-600:])
            return 1 if ("runtime error" in e or rc != 0) else 0
        return 0 if m == i else 1
    impl = common.build_impl("plain")
    if c.get("kind") == "known":
        rc, o, e = common.run_cb(impl, c["program"], timeout=20)
        print(c["program"]); print("rc=%d" % rc); print(o); print(e[-400:])
        return 1
    if "ops" in c:
        c = dict(c, ops=[tuple([o[0]] + [list(x) if isinstance(x, list) else x for x in o[1:]]) for o in c["ops"]])
        src = gen_program(c)
        rn = run_case(impl, c)
        (mr, mc, _), = model_runs([c])
        sr, sc = spec_run(c)
        print(src)
        print("impl :", rn["stdout"], "rc=%d" % rn["rc"], rn["errclass"], rn["stderr"].strip()[-200:])
        print("model:", predicted(c, mr, mc))
        print("spec :", sr, sc)
        return 0 if agree(observed(c, rn), predicted(c, mr, mc)) else 1
    print(json.dumps(c, indent=1))
    return 1
