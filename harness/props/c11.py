"""C11 - generic code equals its hand-specialised copy; instantiations are independent.

Theorems: coq/C11/Properties_C11.v  (member tables regenerated from ast.h / generic_instantiation.cpp
by translators/clone_fields.py; clone = strip o prune; instantiate = monomorphise on every tree that
uses only copied children; textual type rewriting = structural substitution; cache key injective =>
instances independent; n-th use like the first).
Tie (every run):
  A. the extracted model (bin/c11_model) against the repository's own generic_instantiation.cpp +
     RecursiveParser linked into harness/cpp/c11_driver.cpp: instantiate / clone / substitute /
     cache key on (1) the parser's real ASTs of every generated generic function, (2) random trees
     over all child members and adversarial type-name spellings, (3) an exhaustive small scope of
     type-name strings;
  B. generated generic programs against their mechanically monomorphised twins, both run on `main`
     (functions, structs, enums, impl blocks; all type tuples; all call orders; repeated uses);
  C. the run-time type context of generic impl blocks (coq/C11/Context.v: TypeContext, the stack, find_impl_for_struct,
     the method-call path): call skeletons in which methods of one instantiation call methods on receivers of other
     instantiations of the same block / other blocks / through generic functions, nested, with early returns, methods of
     every return kind (int/long/bool/string/void/struct) and deferred statements (the user code that runs at scope exit,
     between the pops of the context and the end of the call) - extracted model trace (order of the code) vs generic
     program, extracted hand-specialised copy vs twin, generic vs twin wherever the two traces agree;
     TypeContext::resolve_complex_type (ast.h) vs the model.
"""
import itertools
import json
import os
import re
import shutil
import sys
import tempfile

import common
from common import rng_for

sys.path.insert(0, os.path.join(common.VERIF, "translators"))
import clone_fields  # noqa: E402

PROP = "C11"
LEVEL = "proof"
META = {
    "category": "proof",
    "technique": "Coq proofs over a rose-tree model of ASTNode (tables regenerated from the C++ text) + extracted-model differential "
                 "run against generic_instantiation.cpp/RecursiveParser + generic-vs-monomorphised twin runs on main",
    "text": "Machine-checked theorems about a function-by-function Gallina model of generic_instantiation.cpp whose member tables "
            "(children/scalars of ASTNode, what clone_ast_node copies, what substitute_type_parameters rewrites and visits) are re-extracted "
            "from the current C++ text on every run: clone = strip o prune and is the identity exactly on trees using copied members; "
            "instantiate_generic_function equals the hand-monomorphised copy for every function AST that uses only copied children "
            "(any size/depth/type arguments); substitute_generic_type_name on the spelling of any well-formed type expression is structural "
            "substitution and leaves no bound parameter; generate_cache_key is injective (names without '<', arguments without ',') hence "
            "after any call history a cache hit returns only the instance of the same function and tuple; n-th use equals first use on the "
            "live (cache-off) path. Generic impl blocks (one shared method AST, type parameters resolved at run time): a model of TypeContext, the "
            "type-context stack, find_impl_for_struct and the method-call path of call_impl.cpp, with the theorems: stack discipline (for every "
            "program of impl blocks, any nesting depth and history, every method body observes its type names under the context of the instance of "
            "its RECEIVER - a callee of another instantiation of the same block included - and the caller's context is restored after every "
            "non-failing callee), the pushed context is the instance of the receiver's struct type name, the instance registry is transparent after "
            "any call history (instances independent, n-th use like the first), the type arguments of Base<a1, .., ak> bind parameter i to ai, "
            "resolve_complex_type on flat type expressions is structural substitution; deferred statements: the stack semantics equals the "
            "fixed-context semantics in the order of the code for every program, and equals the hand-specialised copy for every program whose "
            "defers are run by the closing top-level return (impl_methods_equal_hand_copy_partial); refuted with witnesses (known findings): nested "
            "arguments, a local declared Box<T>, a deferred statement left pending by a nested return / void end / error (it runs after the pop). "
            "The model is tied to the code on every run "
            "by running the extracted model and the repository's own clone/substitute/instantiate/cache-key code on the parser's ASTs of all "
            "generated generic functions, on random trees and on an exhaustive small scope of type-name strings, and the property itself is "
            "checked end to end: every generated generic program must print exactly what its mechanically monomorphised twin prints; for impl "
            "blocks additionally the extracted model's trace of resolved type names (through a size table measured from main) must equal both.",
    "note": "Trusted: Coq kernel incl. vm_compute (table checks, witnesses), no axioms (Print Assumptions: closed); the regex translator "
            "translators/clone_fields.py (prints what it recognised into the evidence; unrecognised shape -> stale tables, correspondence only); "
            "extraction ExtrOcamlBasic+ExtrOcamlString; hand-written model; the Python monomorphiser that writes the twin (the property's own "
            "oracle). Partial: the interpreter's reading of the instantiated AST is not modelled - that the uncopied scalar members "
            "(original_type_name, literal_text, ...) are irrelevant to execution is tied by the twin runs only. The type-context model abstracts a "
            "method body to the statements that read or change the context (observation of a type name, struct local, method call, function call, "
            "early return, error, deferred observation, end of a void body); constructors/destructors of generic structs and the builtins sizeof_type/array_get/array_set are not modelled "
            "(twin runs of corpus programs only). parse_type_from_string is modelled with an empty typedef registry (generated programs have no typedef).",
}

# ====================================================================================== tree codec
CANON_KIDS = ["left", "right", "third", "condition", "init_expr", "update_expr", "body", "children", "parameters", "arguments",
              "statements", "array_index", "array_size_expr", "array_dimensions", "array_indices", "try_body", "catch_body",
              "finally_body", "throw_expr", "impl_static_variables", "switch_expr", "cases", "else_body", "case_values", "case_body",
              "match_expr", "match_arms", "range_start", "range_end", "default_value", "lambda_body", "lambda_params",
              "interpolation_segments", "cast_expr", "new_array_size", "delete_expr", "sizeof_expr"]
PTR_KIDS = ["left", "right", "third", "condition", "init_expr", "update_expr", "body", "array_index", "array_size_expr", "try_body",
            "catch_body", "finally_body", "throw_expr", "switch_expr", "else_body", "case_body", "match_expr", "range_start",
            "range_end", "default_value", "lambda_body", "cast_expr", "new_array_size", "delete_expr", "sizeof_expr"]
_KIDX = {f: i for i, f in enumerate(CANON_KIDS)}


# members of a MatchArm pseudo node (kind 9998) and the values a default-constructed arm has
ARM_DEFAULTS = {"pattern_type": "0", "variant_name": "", "bindings": "", "enum_type_name": ""}


def enc(s):
    out = ["="]
    for ch in s.encode("utf-8", "surrogateescape"):
        if ch <= 0x20 or ch in (0x25, 0x28, 0x29) or ch >= 0x7f:
            out.append("%%%02X" % ch)
        else:
            out.append(chr(ch))
    return "".join(out)


def dec(t):
    if t.startswith("="):
        t = t[1:]
    b = bytearray()
    i = 0
    while i < len(t):
        if t[i] == "%" and i + 2 < len(t):
            b.append(int(t[i + 1:i + 3], 16))
            i += 3
        else:
            b.extend(t[i].encode("utf-8", "surrogateescape"))
            i += 1
    return b.decode("utf-8", "surrogateescape")


def parse_tree(toks, i=0):
    """toks: list of tokens; returns (tree, next index). tree = (kind, [(f, v)], [(f, tree)])."""
    assert toks[i] == "(", toks[i:i + 5]
    kind = int(toks[i + 1])
    ns = int(toks[i + 2])
    i += 3
    sc = []
    for _ in range(ns):
        sc.append((toks[i], dec(toks[i + 1])))
        i += 2
    nk = int(toks[i])
    i += 1
    kids = []
    for _ in range(nk):
        f = toks[i]
        c, i = parse_tree(toks, i + 1)
        kids.append((f, c))
    assert toks[i] == ")", toks[i - 3:i + 3]
    return (kind, sc, kids), i + 1


def tree_of_line(line):
    t, _ = parse_tree(line.split())
    return t


def show_tree(t):
    kind, sc, kids = t
    out = ["(", str(kind), str(len(sc))]
    for f, v in sc:
        out += [f, enc(v)]
    out.append(str(len(kids)))
    for f, c in kids:
        out += [f, show_tree(c)]
    out.append(")")
    return " ".join(out)


def canon(t, defaults):
    """Canonical form: scalars as a sorted tuple without default-valued entries (last binding wins),
    children stably sorted into the declaration order of ASTNode."""
    kind, sc, kids = t
    d = {}
    for f, v in sc:
        d[f] = v
    items = tuple(sorted((f, v) for f, v in d.items() if defaults.get(f) != v))
    ks = sorted(enumerate(kids), key=lambda p: (_KIDX.get(p[1][0], 99), p[0]))
    return (kind, items, tuple((f, canon(c, defaults)) for _, (f, c) in ks))


def tree_size(t):
    return 1 + sum(tree_size(c) for _, c in t[2])


def walk(t):
    yield t
    for _, c in t[2]:
        yield from walk(c)


class Proc:
    """A line-protocol child process (model or leaf driver): one answer line per request line,
    except PARSE/FUNCS which answer several lines ending in END."""

    def __init__(self, argv):
        import subprocess
        self.p = subprocess.Popen(argv, stdin=subprocess.PIPE, stdout=subprocess.PIPE, stderr=subprocess.DEVNULL)

    def ask(self, line):
        self.p.stdin.write((line + "\n").encode("utf-8", "surrogateescape"))
        self.p.stdin.flush()
        r = self.p.stdout.readline()
        if not r:
            raise RuntimeError("child process died on: " + line[:200])
        return r.decode("utf-8", "surrogateescape").rstrip("\n")

    def ask_multi(self, line):
        self.p.stdin.write((line + "\n").encode("utf-8", "surrogateescape"))
        self.p.stdin.flush()
        out = []
        while True:
            r = self.p.stdout.readline()
            if not r:
                raise RuntimeError("child process died on: " + line[:200])
            r = r.decode("utf-8", "surrogateescape").rstrip("\n")
            if r == "END":
                return out
            if r.startswith("X "):
                # protocol / parser error: the terminating line for this request
                return out + [r]
            out.append(r)

    def close(self):
        try:
            self.p.stdin.close()
            self.p.wait(timeout=10)
        except Exception:
            self.p.kill()


def batch(argv, lines, timeout=900):
    rc, o, e = common.sh(argv, input=("\n".join(lines) + "\n").encode("utf-8", "surrogateescape"), timeout=timeout)
    if rc != 0:
        raise RuntimeError("%s failed rc=%d: %s" % (argv[0], rc, e[-500:]))
    return o.split("\n")[:-1]


LEAF_SOURCES = [
    "src/backend/interpreter/evaluator/functions/generic_instantiation.cpp",
    "src/backend/interpreter/core/error_handler.cpp",
    "src/common/type_alias.cpp", "src/common/debug_impl.cpp", "src/common/debug_messages.cpp", "src/common/ast.cpp",
    "src/common/array_type_info.cpp", "src/common/type_utils.cpp", "src/common/utf8_utils.cpp",
    "src/frontend/recursive_parser/recursive_lexer.cpp", "src/frontend/recursive_parser/recursive_parser.cpp",
]


def private_leaf():
    """build_leaf's cache directory is pruned by concurrent checks of other properties (it keeps the 30 newest
    directories): take a private copy of the driver right after building it, rebuild if it vanished in between."""
    last = None
    for _ in range(4):
        path = common.build_leaf("c11_driver", leaf_sources(), "-O0")
        fd, priv = tempfile.mkstemp(prefix="cbverif-c11-leaf-", dir=common.SCRATCH_ROOT)
        os.close(fd)
        try:
            shutil.copy2(path, priv)
            os.chmod(priv, 0o755)
            return priv
        except OSError as e:
            last = e
            try:
                os.unlink(priv)
            except OSError:
                pass
    raise common.BuildError("leaf driver c11_driver vanished from the shared cache repeatedly: %s" % last)


def leaf_sources():
    d = os.path.join(common.REPO, "src/frontend/recursive_parser/parsers")
    return LEAF_SOURCES + sorted("src/frontend/recursive_parser/parsers/" + f for f in os.listdir(d) if f.endswith(".cpp"))


# ====================================================================================== A: synthetic trees
NAME_POOL = ["T", "U", "int", "long", "string", "P", "Box<T>", "Box<U>", "Pair<T, U>", "Pair<U,T>", "Map<T, Box<U>>", "Box<Box<T>>",
             "T*", "T[3]", "Pair<T, U>*", "Box_T", "Pair_T_U", "my_T", "_T", "T_", "__T__U", "Opt<T>", "Res<T, string>",
             "Box< T >", "Box<T >", " T", "T ", "Box<>", "Box< >", "<T>", "<", ">", "T<", "T>", "a>b<T", "Box<T", "Box>T<",
             "T,U", "Box<T,,U>", "Box<T, >", "Box<\tT>", "", "x", "tiny", "short", "bool", "char", "void", "double",
             "Box<int>", "Vec<Pair<T, U>, T>", "F<T>>", "F<<T>", "G<T>_U", "T_U<T>"]
LOADABLE_SCALARS = {
    "bool": ["is_const", "is_static", "is_array", "is_pointer", "is_reference", "is_unsigned", "is_generic", "is_arrow_call",
             "is_float_literal", "is_pointer_const_qualifier", "is_pointee_const_qualifier", "has_default_value", "is_lambda",
             "is_interpolation_expr", "is_array_new", "is_exported", "is_async"],
    "int": ["pointer_depth", "int_value", "array_size", "first_default_param_index"],
    "typeinfo": ["type_info", "pointer_base_type", "literal_type", "cast_type_info", "new_type_info", "sizeof_type_info"],
    "string": ["name", "op", "str_value", "literal_text", "original_type_name", "enum_name", "enum_member", "struct_name",
               "exception_type", "lambda_return_type_name", "interpolation_format", "generic_base_name"],
    "tname": ["type_name", "return_type_name", "pointer_base_type_name", "sizeof_type_name", "cast_target_type", "new_type_name"],
    "strvec": ["type_parameters", "type_arguments", "member_chain"],
}


def rand_name(rng):
    r = rng.random()
    if r < 0.8:
        return rng.choice(NAME_POOL)
    return "".join(rng.choice(["T", "U", "<", ">", ",", " ", "_", "a", "*", "[", "]", "\t"]) for _ in range(rng.randint(0, 7)))


def rand_tree(rng, depth, fields_bias=None):
    kind = rng.choice([0, 1, 5, 7, 10, 17, 20, 28, 31, 32, 46, 48, 58, 60, 83, rng.randint(0, 100)])
    sc = []
    for _ in range(rng.randint(0, 6)):
        cat = rng.choice(["bool", "int", "typeinfo", "string", "tname", "tname", "tname", "strvec"])
        f = rng.choice(LOADABLE_SCALARS[cat])
        if any(f == g for g, _ in sc):
            continue
        if cat == "bool":
            v = "1"
        elif cat == "int":
            v = str(rng.choice([1, 2, -5, 7, 1 << 40] if f == "int_value" else [1, 2, -5, 7]))
        elif cat == "typeinfo":
            v = str(rng.choice([-1, 0, 1, 2, 4, 6, 12, 16, 19]))
        elif cat == "string":
            v = rng.choice(["a", "x1", "+", "T", "hello world", "P", "Box<T>"])
        elif cat == "tname":
            v = rand_name(rng)
        else:
            v = "\n".join(rng.choice(["T", "U", "int", "Box<T>", "x"]) for _ in range(rng.randint(1, 3)))
        if v != "" and not (f == "type_info" and v == "3") and not (f in ("pointer_base_type", "literal_type", "cast_type_info",
                                                                      "new_type_info", "sizeof_type_info") and v == "-1") \
                and not (f == "array_size" and v == "-1") and not (f == "first_default_param_index" and v == "-1"):
            sc.append((f, v))
    kids = []
    if depth > 0:
        used_ptr = set()
        for _ in range(rng.randint(0, 4)):
            f = rng.choice(fields_bias) if fields_bias and rng.random() < 0.6 else rng.choice(CANON_KIDS)
            if f in PTR_KIDS:
                if f in used_ptr:
                    continue
                used_ptr.add(f)
            sub = rand_tree(rng, depth - 1, fields_bias)
            if f == "match_arms":
                # a MatchArm: pseudo node 9998 with the arm's own members and at most one child "body"
                asc = []
                if rng.random() < 0.7:
                    asc.append(("variant_name", rng.choice(["Some", "None", "Ok", "Err"])))
                if rng.random() < 0.5:
                    asc.append(("bindings", "\n".join(rng.choice(["v", "e", "x"]) for _ in range(rng.randint(1, 2)))))
                if rng.random() < 0.7:
                    asc.append(("enum_type_name", rand_name(rng) or "Opt<T>"))
                if rng.random() < 0.2:
                    asc.append(("pattern_type", str(rng.randint(1, 2))))
                sub = (9998, [a for a in asc if a[1] != ""], [("body", sub)] if rng.random() < 0.9 else [])
            kids.append((f, sub))
        kids = [kc for _, kc in sorted(enumerate(kids), key=lambda p: (_KIDX[p[1][0]], p[0]))]
    return (kind, sc, kids)


def rand_generic_root(rng, depth):
    k, sc, kids = rand_tree(rng, depth, ["body", "statements", "parameters", "left", "right", "arguments", "condition", "init_expr"])
    sc = [(f, v) for f, v in sc if f not in ("is_generic", "type_parameters")]
    r = rng.random()
    tps = rng.choice([["T"], ["T", "U"], ["U", "T"], ["T", "T"], ["A", "B", "C"], ["T"], ["T", "U"]])
    if r < 0.9:
        sc.append(("is_generic", "1"))
    if rng.random() < 0.95:
        sc.append(("type_parameters", "\n".join(tps)))
    n = len(tps) if rng.random() < 0.9 else rng.randint(0, 3)
    targs = [rng.choice(["int", "long", "string", "tiny", "P", "Box<int>", "Pair<int, long>", "U", "T", "x_y", "short", "bool", "char"])
             for _ in range(n)]
    return (31, sc, kids), targs


def tree_requests(seed, n, tier):
    """Synthetic requests for both the leaf driver and the model: list of (kind, request line)."""
    reqs = []
    for k in range(n):
        rng = rng_for(seed, "c11-tree", k)
        r = rng.random()
        depth = rng.randint(0, 4 if tier == "quick" else 6)
        if r < 0.45:
            t, targs = rand_generic_root(rng, depth)
            reqs.append(("inst", "INST %d %s %s" % (len(targs), " ".join(enc(a) for a in targs), show_tree(t))))
        elif r < 0.65:
            reqs.append(("clone", "CLONE " + show_tree(rand_tree(rng, depth))))
        elif r < 0.9:
            m = [(rng.choice(["T", "U", "A", "B", "x", "int"]), rng.choice(["int", "long", "string", "P", "Box<int>", "U", "T", "a_b", ""]))
                 for _ in range(rng.randint(0, 3))]
            reqs.append(("subst", "SUBST %d %s %s" % (len(m), " ".join(enc(a) + " " + enc(b) for a, b in m), show_tree(rand_tree(rng, depth)))))
        else:
            fn = rng.choice(["f", "max", "Box<int>::get", "a,b", "f<", "", "g"])
            targs = [rng.choice(["int", "long", "a,b", "Pair<int, long>", "", ">", "<", "x"]) for _ in range(rng.randint(0, 4))]
            reqs.append(("key", "KEY %s %d %s" % (enc(fn), len(targs), " ".join(enc(a) for a in targs))))
    return reqs


def name_scope_requests(maxlen):
    """Exhaustive small scope for the textual rewriting: every string over a 7-letter alphabet up to
    maxlen, as type_name (3-way dispatch + type_info recompute) and sizeof_type_name (plain)."""
    alpha = ["T", "<", ">", ",", " ", "_", "a"]
    reqs = []
    for n in range(1, maxlen + 1):
        for tup in itertools.product(alpha, repeat=n):
            s = "".join(tup)
            t = (28, [("type_name", s), ("sizeof_type_name", s), ("new_type_name", s), ("type_arguments", s + "\n" + s)], [])
            reqs.append(("name", "SUBST 2 %s %s %s %s %s" % (enc("T"), enc("int"), enc("a"), enc("Q<T>"), show_tree(t))))
    return reqs


def compare_lines(kind, req, mo, io, defaults):
    """True when model and implementation answers agree after canonicalisation."""
    if mo[:2] != io[:2]:
        return False
    if mo.startswith("T "):
        try:
            return canon(tree_of_line(mo[2:]), defaults) == canon(tree_of_line(io[2:]), defaults)
        except Exception:
            return False
    return mo == io


def shrink_tree_request(req, differs):
    """Greedy: delete children / scalars of the tree in a request while model and implementation
    still disagree. req = 'CMD args... <tree>'."""
    i = req.index("( ")
    head, t = req[:i], tree_of_line(req[i:])

    def rebuild(t):
        return head + show_tree(t)

    def variants(t):
        kind, sc, kids = t
        for j in range(len(kids)):
            yield (kind, sc, kids[:j] + kids[j + 1:])
        for j in range(len(sc)):
            if sc[j][0] in ("is_generic", "type_parameters"):
                continue
            yield (kind, sc[:j] + sc[j + 1:], kids)
        for j, (f, c) in enumerate(kids):
            for c2 in variants(c):
                yield (kind, sc, kids[:j] + [(f, c2)] + kids[j + 1:])
    changed, budget = True, 400
    while changed and budget > 0:
        changed = False
        for v in variants(t):
            budget -= 1
            if budget <= 0:
                break
            if differs(rebuild(v)):
                t = v
                changed = True
                break
    return rebuild(t)


# ====================================================================================== B: programs and twins
TP = ["TT", "UU"]                      # type parameter names (used for nothing else in generated text)
NUM_TYPES = ["tiny", "short", "int", "long"]
ALL_TYPES = ["tiny", "short", "int", "long", "bool", "char", "string", "P"]
PLAIN_DEFS = ("struct P { int x; int y; };\n"
              "enum Color { RED = 1, GREEN = 5, BLUE = 9 };\n"
              "int twice(int x) { return x * 2; }\n"
              "long lsum(long x, long y) { return x + y; }\n")


def mangle(name, args):
    return name + "__" + "__".join(re.sub(r"[^A-Za-z0-9_]", "", a.replace("<", "_").replace(",", "_")) for a in args)


def split_top(s):
    out, cur, d = [], "", 0
    for ch in s:
        if ch == "<":
            d += 1
        elif ch == ">":
            d -= 1
        if ch == "," and d == 0:
            out.append(cur.strip())
            cur = ""
        else:
            cur += ch
    if cur.strip():
        out.append(cur.strip())
    return out


class Program:
    """A generic program: plain (non-generic) definitions, generic structs / enums / impls /
    functions, and main.  `generic_text()` is the program given to the implementation;
    `twin_text()` is its mechanical monomorphisation (the hand-specialised copy)."""

    def __init__(self):
        self.structs = {}      # name -> (tparams, [(type, field)])
        self.enums = {}        # name -> (tparams, [(variant, payload or None)])
        self.ifaces = {}       # iface name -> (tparams, [method signature text])
        self.impls = []        # (iface or None, struct, tparams, [method text])
        self.fns = {}          # name -> (tparams, ret, params, body)
        self.fn_order = []
        self.plain = PLAIN_DEFS
        self.main = ""
        self.meta = {}

    # ---------------------------------------------------------------- generic text
    def generic_text(self):
        out = [self.plain]
        for n, (tps, fields) in self.structs.items():
            out.append("struct %s<%s> { %s };\n" % (n, ", ".join(tps), " ".join("%s %s;" % f for f in fields)))
        for n, (tps, vs) in self.enums.items():
            out.append("enum %s<%s> { %s };\n" % (n, ", ".join(tps), ", ".join(v if p is None else "%s(%s)" % (v, p) for v, p in vs)))
        for n, (tps, sigs) in self.ifaces.items():
            out.append("interface %s<%s> { %s }\n" % (n, ", ".join(tps), " ".join(s + ";" for s in sigs)))
        for iface, st, tps, methods in self.impls:
            head = ("impl %s<%s> for %s<%s>" % (iface, ", ".join(tps), st, ", ".join(tps))) if iface else \
                ("impl %s<%s>" % (st, ", ".join(tps)))
            out.append(head + " {\n" + "\n".join(methods) + "\n}\n")
        for n in self.fn_order:
            tps, ret, params, body = self.fns[n]
            out.append("%s %s<%s>(%s) {\n%s\n}\n" % (ret, n, ", ".join(tps), params, body))
        out.append(self.main)
        return "".join(out)

    # ---------------------------------------------------------------- twin
    def _subst(self, text, tps, args):
        for p, a in zip(tps, args):
            text = re.sub(r"\b%s\b" % p, a, text)
        return text

    def _mono_text(self, text, need):
        """Replace every use of a generic struct/enum/interface/function at concrete arguments by its
        mangled name, innermost first; record the instances in `need`."""
        names = list(self.structs) + list(self.enums) + list(self.ifaces)
        rx_t = re.compile(r"\b(%s)<([^<>]*)>" % "|".join(map(re.escape, names))) if names else None
        rx_f = re.compile(r"\b(%s)<([^<>()]*)>\s*\(" % "|".join(map(re.escape, self.fns))) if self.fns else None
        changed = True
        while changed:
            changed = False
            if rx_t:
                def rt(m):
                    args = tuple(split_top(m.group(2)))
                    need.append(("type", m.group(1), args))
                    return mangle(m.group(1), args)
                text2 = rx_t.sub(rt, text)
                if text2 != text:
                    text, changed = text2, True
            if rx_f:
                def rf(m):
                    args = tuple(split_top(m.group(2)))
                    need.append(("fn", m.group(1), args))
                    return mangle(m.group(1), args) + "("
                text2 = rx_f.sub(rf, text)
                if text2 != text:
                    text, changed = text2, True
        return text

    def twin_text(self):
        need = []
        main = self._mono_text(self.main, need)
        done, tdefs, fdefs = set(), [], []
        i = 0
        while i < len(need):
            kind, name, args = need[i]
            i += 1
            if (kind, name, args) in done:
                continue
            done.add((kind, name, args))
            if kind == "type" and name in self.structs:
                tps, fields = self.structs[name]
                body = " ".join("%s %s;" % (self._mono_text(self._subst(t, tps, args), need), f) for t, f in fields)
                txt = "struct %s { %s };\n" % (mangle(name, args), body)
                for iface, st, itps, methods in self.impls:
                    if st != name:
                        continue
                    ms = "\n".join(self._mono_text(self._subst(m, itps, args), need) for m in methods)
                    if iface:
                        need.append(("type", iface, args))
                        txt += "@IMPL@impl %s for %s {\n%s\n}\n" % (mangle(iface, args), mangle(name, args), ms)
                    else:
                        txt += "@IMPL@impl %s {\n%s\n}\n" % (mangle(name, args), ms)
                tdefs.append(txt)
            elif kind == "type" and name in self.enums:
                tps, vs = self.enums[name]
                tdefs.append("enum %s { %s };\n" % (mangle(name, args), ", ".join(
                    v if p is None else "%s(%s)" % (v, self._mono_text(self._subst(p, tps, args), need)) for v, p in vs)))
            elif kind == "type" and name in self.ifaces:
                tps, sigs = self.ifaces[name]
                tdefs.append("interface %s { %s }\n" % (mangle(name, args), " ".join(
                    self._mono_text(self._subst(s, tps, args), need) + ";" for s in sigs)))
            elif kind == "fn":
                tps, ret, params, body = self.fns[name]
                sub = lambda s: self._mono_text(self._subst(s, tps, args), need)
                fdefs.append((self.fn_order.index(name), "%s %s(%s) {\n%s\n}\n" % (sub(ret), mangle(name, args), sub(params), sub(body))))
        # order: interface / struct / enum definitions with every definition after the ones it mentions, impls, functions, main
        structs = [t.split("@IMPL@")[0] for t in tdefs]
        impls = ["".join(t.split("@IMPL@")[1:]) for t in tdefs]
        names = [re.match(r"(?:struct|enum|interface)\s+(\w+)", d).group(1) for d in structs]
        placed, order = set(), []
        pending = list(range(len(structs)))
        while pending:
            progress = False
            for i in list(pending):
                deps = [j for j in range(len(structs)) if j != i and re.search(r"\b%s\b" % re.escape(names[j]), structs[i])]
                if all(j in placed for j in deps):
                    order.append(i)
                    placed.add(i)
                    pending.remove(i)
                    progress = True
            if not progress:
                order += pending
                break
        structs = [structs[i] for i in order]
        # struct / enum definitions first: an interface signature may mention a struct instance (Cell__long o)
        ifaces_first = [s for s in structs if not s.startswith("interface")] + [s for s in structs if s.startswith("interface")]
        fdefs.sort(key=lambda p: p[0])
        return self.plain + "".join(ifaces_first) + "".join(impls) + "".join(f for _, f in fdefs) + main


# ---------------------------------------------------------------------------------------- body generator
SAFE_KINDS = ["decl", "const_decl", "assign", "compound", "incdec", "if", "ifelse", "elseif", "while", "break", "continue",
              "println", "println_multi", "defer", "block", "assert", "cast", "sizeof", "pointer", "call_helper", "bitops", "logic",
              "unary_minus", "shl"]
RISKY_KINDS = ["ternary", "for", "switch", "array", "array_lit", "struct_local", "enum_access", "interp", "multi_decl", "new_delete",
               "match", "static_decl", "shr", "nested_generic", "lambda", "arrow", "member_compound", "string_local", "array_int"]
ALL_KINDS = SAFE_KINDS + RISKY_KINDS


class Body:
    """Statement generator for a function/method body whose parameters are `a`, `b` (numeric, of
    the type-parameter type `ty` or a concrete type) and `n` (int, 0..4).  Everything is text."""

    def __init__(self, rng, ty, kinds, self_field=None, in_fn=True, inner_generic=None):
        self.rng, self.ty, self.kinds = rng, ty, list(kinds)
        self.vars = ["a", "b"]            # numeric variables of type ty
        self.ivars = ["n"]                # int variables
        self.used = []
        self.uid = 0
        self.self_field = self_field      # e.g. "self.v" (numeric, type ty) inside impl methods
        self.in_fn = in_fn
        self.inner_generic = inner_generic
        self.arrays = []
        self.loop_depth = 0

    def fresh(self, p="v"):
        self.uid += 1
        return "%s%d" % (p, self.uid)

    def use(self, k):
        self.used.append(k)

    def can(self, k):
        return k in self.kinds

    def lit(self):
        return str(self.rng.randint(0, 6))

    def atom(self):
        r = self.rng.random()
        if r < 0.35:
            return self.lit()
        if r < 0.85 or not self.ivars:
            pool = self.vars + ([self.self_field] if self.self_field else [])
            return self.rng.choice(pool)
        return self.rng.choice(self.ivars)

    def expr(self, d=2):
        """numeric expression (small magnitudes)"""
        rng = self.rng
        if d <= 0 or rng.random() < 0.3:
            return self.atom()
        ks = ["add", "sub", "mul", "div", "mod"]
        for k in ("ternary", "cast", "call_helper", "bitops", "unary_minus", "shl", "shr", "sizeof", "enum_access", "array", "nested_generic"):
            if self.can(k):
                ks.append(k)
        k = rng.choice(ks)
        x, y = self.expr(d - 1), self.expr(d - 1)
        if k == "add":
            return "(%s + %s)" % (x, y)
        if k == "sub":
            return "(%s - %s)" % (x, y)
        if k == "mul":
            return "(%s * %s)" % (x, rng.randint(0, 3))
        if k == "div":
            return "(%s / %d)" % (x, rng.randint(1, 4))
        if k == "mod":
            return "(%s %% %d)" % (x, rng.randint(1, 5))
        self.use(k)
        if k == "ternary":
            if not self.in_fn:
                # a T-typed variable as the selected branch behaves differently in a generic impl method and in
                # its twin (C01 #39 fires only in the twin): int-typed branches only (known finding C11-impl-locals-int)
                x, y = rng.choice(["n", self.lit(), "twice(n)"]), rng.choice(["n", self.lit(), "(n + 1)"])
            return "(%s ? %s : %s)" % (self.cond(d - 1), x, y)
        if k == "cast":
            # `(type)(identifier)` trips the parser (DESIGN section 7 #36): an atom is cast without parentheses
            # a cast to the type parameter inside a generic impl method does not parse (known finding C11-impl-cast-to-T)
            return "((%s)%s)" % (rng.choice(["long", "int", self.ty] if self.in_fn else ["long", "int"]), x)
        if k == "call_helper":
            return "twice(%s)" % self.atom()
        if k == "bitops":
            return "(%s %s %s)" % (x, rng.choice(["&", "|", "^"]), y)
        if k == "unary_minus":
            return "(-%s)" % x
        if k == "shl":
            return "(%s << %d)" % (self.atom(), rng.randint(0, 2))
        if k == "shr":
            return "(%s >> %d)" % (x, rng.randint(0, 2))
        if k == "sizeof":
            # sizeof of a T-typed variable inside a generic impl method is a known finding (always 4)
            return "sizeof(%s)" % rng.choice([self.ty, "int", "a"] if self.in_fn else [self.ty, "int", "long"])
        if k == "enum_access":
            return "Color::%s" % rng.choice(["RED", "GREEN", "BLUE"])
        if k == "array" and self.arrays:
            return "%s[%s]" % (rng.choice(self.arrays), rng.choice(["0", "1", "2", "(n % 3)"]))
        if k == "nested_generic" and self.inner_generic:
            return "%s<%s>(%s)" % (self.inner_generic, self.ty, self.atom())
        return x

    @staticmethod
    def cmp(x, op, y):
        """`ident < ...` trips the parser's generic-call look-ahead (DESIGN section 7 #37): the
        generator never writes '<' / '<=' as an operator, it writes the flipped comparison"""
        if op == "<":
            return "(%s > %s)" % (y, x)
        if op == "<=":
            return "(%s >= %s)" % (y, x)
        return "(%s %s %s)" % (x, op, y)

    def cond(self, d=1):
        rng = self.rng
        c = self.cmp(self.expr(d), rng.choice(["<", ">", "<=", ">=", "==", "!="]), self.expr(d))
        if self.can("logic") and rng.random() < 0.35:
            self.use("logic")
            c2 = self.cmp(self.atom(), rng.choice(["<", ">", "==", "!="]), self.atom())
            c = rng.choice(["(%s && %s)", "(%s || %s)", "(!%s && %s)"]) % (c, c2)
        return c

    def stmts(self, count, ind="  "):
        """a nested statement list: declarations made inside are not visible after it"""
        saved = (list(self.vars), list(self.ivars), list(self.arrays))
        out = []
        self.nest = getattr(self, "nest", 0) + 1
        for _ in range(count):
            out += self.stmt(ind)
        self.nest -= 1
        self.vars, self.ivars, self.arrays = saved
        return out

    def top(self, count, ind="  "):
        out = []
        for _ in range(count):
            out += self.stmt(ind)
        return out

    def stmt(self, ind):
        rng = self.rng
        ks = [k for k in self.kinds if k in (
            "decl", "const_decl", "static_decl", "assign", "compound", "incdec", "if", "ifelse", "elseif", "while", "for", "break",
            "continue", "println", "println_multi", "interp", "defer", "block", "assert", "switch", "array", "array_lit", "struct_local",
            "multi_decl", "new_delete", "pointer", "match", "lambda", "arrow", "member_compound", "string_local", "array_int")]
        k = rng.choice(ks + ["assign", "decl"])
        if getattr(self, "nest", 0) >= 3 and k in ("if", "ifelse", "elseif", "while", "for", "block", "switch"):
            k = "assign"
        ty = self.ty
        if k in ("break", "continue") and self.loop_depth == 0:
            k = "assign"
        self.use(k)
        if k == "decl":
            v = self.fresh()
            s = ["%s%s %s = %s;" % (ind, ty, v, self.expr())]
            self.vars.append(v)
            return s
        if k == "const_decl":
            v = self.fresh("c")
            s = ["%sconst %s %s = %s;" % (ind, ty, v, self.expr())]
            self.vars.append(v)
            return s
        if k == "static_decl":
            v = self.fresh("st")
            self.ivars.append(v)
            return ["%sstatic int %s = 0;" % (ind, v), "%s%s = %s + 1;" % (ind, v, v)]
        if k == "assign":
            tgt = rng.choice([v for v in self.vars if not v.startswith("c")] + ([self.self_field] if self.self_field else []))
            return ["%s%s = %s;" % (ind, tgt, self.expr())]
        if k == "compound":
            tgt = rng.choice([v for v in self.vars if not v.startswith("c")])
            return ["%s%s %s %s;" % (ind, tgt, rng.choice(["+=", "-=", "*="]), rng.choice([self.lit(), self.atom()]))]
        if k == "incdec":
            tgt = rng.choice([v for v in self.vars if not v.startswith("c")])
            return [ind + rng.choice(["%s++;", "++%s;", "%s--;", "--%s;"]) % tgt]
        if k in ("if", "ifelse", "elseif"):
            s = ["%sif %s {" % (ind, self.cond())] + self.stmts(rng.randint(1, 2), ind + "  ")
            if k == "elseif":
                s += ["%s} else if %s {" % (ind, self.cond())] + self.stmts(1, ind + "  ")
            if k != "if":
                s += ["%s} else {" % ind] + self.stmts(rng.randint(1, 2), ind + "  ")
            return s + [ind + "}"]
        if k == "while":
            i = self.fresh("i")
            self.loop_depth += 1
            body = self.stmts(rng.randint(1, 2), ind + "  ")
            self.loop_depth -= 1
            return ["%sint %s = 0;" % (ind, i), "%swhile (%s > %s) {" % (ind, rng.choice(["n", "3", "2"]), i),
                    "%s  %s = %s + 1;" % (ind, i, i)] + body + [ind + "}"]
        if k == "for":
            i = self.fresh("k")
            self.loop_depth += 1
            body = self.stmts(rng.randint(1, 2), ind + "  ")
            self.loop_depth -= 1
            cty = rng.choice(["int", ty])
            return ["%sfor (%s %s = 0; %s > %s; %s++) {" % (ind, cty, i, rng.choice(["n", "3"]), i, i)] + body + [ind + "}"]
        if k == "break":
            return ["%sif %s { break; }" % (ind, self.cond())]
        if k == "continue":
            return ["%sif %s { continue; }" % (ind, self.cond())]
        if k == "println":
            return ["%sprintln(%s);" % (ind, self.expr(1))]
        if k == "println_multi":
            return ['%sprintln("t", %s, %s);' % (ind, self.atom(), self.expr(1))]
        if k == "interp":
            v = rng.choice(self.vars)
            return ['%sprintln("i={%s} n={n}");' % (ind, v)]
        if k == "defer":
            return ['%sdefer println("d%d", %s);' % (ind, self.uid, rng.choice(self.vars))]
        if k == "block":
            return [ind + "{"] + self.stmts(rng.randint(1, 2), ind + "  ") + [ind + "}"]
        if k == "assert":
            return ["%sassert(n >= 0);" % ind]
        if k == "switch":
            s = ["%sswitch (%s) {" % (ind, rng.choice(["n", self.atom()]))]
            s += ["%s  case (%d) {" % (ind, rng.randint(0, 2))] + self.stmts(1, ind + "    ") + [ind + "  }"]
            s += ["%s  case (%s) {" % (ind, rng.choice(["3 || 4", "3...4"]))] + self.stmts(1, ind + "    ") + [ind + "  }"]
            s += ["%s  else {" % ind] + self.stmts(1, ind + "    ") + [ind + "  }", ind + "}"]
            return s
        if k == "array":
            arr = self.fresh("ar")
            s = ["%s%s[3] %s;" % (ind, ty, arr)] + ["%s%s[%d] = %s;" % (ind, arr, j, self.expr(1)) for j in range(3)]
            self.arrays.append(arr)
            return s
        if k == "array_lit":
            arr = self.fresh("al")
            s = ["%s%s[3] %s = [%s, %s, %s];" % (ind, ty, arr, self.atom(), self.atom(), self.atom())]
            self.arrays.append(arr)
            return s
        if k == "array_int":
            arr = self.fresh("ai")
            s = ["%sint[3] %s = [1, 2, 3];" % (ind, arr), "%s%s[1] = n;" % (ind, arr)]
            self.arrays.append(arr)
            return s
        if k == "struct_local":
            p = self.fresh("p")
            v = self.fresh()
            s = ["%sP %s;" % (ind, p), "%s%s.x = n;" % (ind, p), "%s%s.y = %s.x + 2;" % (ind, p, p),
                 "%s%s %s = %s.y;" % (ind, ty, v, p)]
            self.vars.append(v)
            return s
        if k == "member_compound":
            p = self.fresh("q")
            return ["%sP %s;" % (ind, p), "%s%s.x = 1;" % (ind, p), "%s%s.x += n;" % (ind, p), "%sprintln(%s.x);" % (ind, p)]
        if k == "arrow":
            p = self.fresh("pp")
            return ["%sP %s;" % (ind, p), "%s%s.x = n;" % (ind, p), "%sP* %sq = &%s;" % (ind, p, p), "%s%sq->y = 4;" % (ind, p),
                    "%sprintln(%sq->x, %s.y);" % (ind, p, p)]
        if k == "string_local":
            v = self.fresh("s")
            return ['%sstring %s = "x";' % (ind, v), '%s%s = %s + "y";' % (ind, v, v), "%sprintln(%s);" % (ind, v)]
        if k == "multi_decl":
            v, w = self.fresh(), self.fresh()
            s = ["%s%s %s = %s, %s = %s;" % (ind, ty, v, self.atom(), w, self.lit())]
            self.vars += [v, w]
            return s
        if k == "new_delete":
            p = self.fresh("h")
            v = self.fresh()
            s = ["%s%s* %s = new %s;" % (ind, ty, p, ty), "%s*%s = %s;" % (ind, p, self.atom()), "%s%s %s = *%s;" % (ind, ty, v, p),
                 "%sdelete %s;" % (ind, p)]
            self.vars.append(v)
            return s
        if k == "pointer":
            x, p = self.fresh(), self.fresh("ptr")
            s = ["%s%s %s = %s;" % (ind, ty, x, self.atom()), "%s%s* %s = &%s;" % (ind, ty, p, x), "%s*%s = %s;" % (ind, p, self.expr(1))]
            self.vars.append(x)
            return s
        if k == "match":
            o = self.fresh("o")
            v = self.fresh()
            s = ["%sOpt<%s> %s = Opt<%s>::Some(%s);" % (ind, ty, o, ty, self.atom()), "%s%s %s = 0;" % (ind, ty, v),
                 "%smatch (%s) { Some(mv) => { %s = mv; } None => { %s = 1; } }" % (ind, o, v, v)]
            self.vars.append(v)
            return s
        if k == "lambda":
            g = self.fresh("lam")
            return ["%sint %s = int func(int z) { return z * 2; };" % (ind, g), "%sprintln(%s(n));" % (ind, g)]
        return ["%s%s = %s;" % (ind, self.vars[-1], self.expr())]


def small_vals(rng, ty, k=2):
    return [str(rng.randint(1, 6)) for _ in range(k)]


VAL_POOL = {
    "tiny": ["1", "5", "-3", "100", "127", "-128"], "short": ["7", "300", "-2", "32767"], "int": ["3", "70000", "-9", "2147483647"],
    "long": ["5", "3000000000", "-4", "9000000000000"], "bool": ["true", "false"], "char": ["'a'", "'z'", "'Q'"],
    "string": ['"s1"', '"hello"', '""', '"a b"'],
}


def value_of(rng, ty, pvars):
    if ty == "P":
        return rng.choice(pvars)
    return rng.choice(VAL_POOL[ty])


def print_of(ty, e):
    return "println(%s.x, %s.y);" % (e, e) if ty == "P" else "println(%s);" % e


P_SETUP = "  P p1; p1.x = 1; p1.y = 2;\n  P p2; p2.x = 10; p2.y = 20;\n"


def gen_fn_program(rng, mode):
    """One generic numeric function (plus optionally an opaque one and a two-parameter one), called from
    main at several type tuples, in several orders, several times each."""
    pr = Program()
    kinds = list(SAFE_KINDS) if mode == "safe" else list(ALL_KINDS)
    if mode == "full":
        # draw a subset so that a body is not always disqualified by the same construct
        extra = rng.sample(RISKY_KINDS, rng.randint(1, 3))
        kinds = SAFE_KINDS + extra
    if "shr" in kinds and rng.random() < 0.7:
        kinds.remove("shr")
    inner = None
    if "nested_generic" in kinds:
        pr.fns["inner1"] = (["TT"], "TT", "TT x", "  TT y = x;\n  return y + 1;")
        pr.fn_order.append("inner1")
        inner = "inner1"
    if "match" in kinds:
        pr.enums["Opt"] = (["T"], [("Some", "T"), ("None", None)])
    b = Body(rng, "TT", kinds, inner_generic=inner)
    body = b.top(rng.randint(2, 6)) + ["  return %s;" % b.expr(1)]
    pr.fns["gnum"] = (["TT"], "TT", "TT a, TT b, int n", "\n".join(body))
    pr.fn_order.append("gnum")
    calls = []
    pool = NUM_TYPES if not re.search(r"sizeof\(TT\)|new TT", "\n".join(body)) else [t for t in NUM_TYPES if t != "tiny"]
    tys = rng.sample(pool, rng.randint(2, len(pool)))
    for ty in tys:
        for _ in range(rng.randint(1, 3)):
            a, c = small_vals(rng, ty)
            calls.append("  println(gnum<%s>(%s, %s, %d));" % (ty, a, c, rng.randint(0, 4)))
    # opaque function over all 8 types
    if rng.random() < 0.7:
        ob = ["  TT r = a;", "  int i = 0;", "  while (n > i) {", "    i = i + 1;", "    TT t = r;", "    if (i %% %d == 0) { r = b; } else { r = t; }" % rng.randint(1, 3),
              "  }", "  return r;"]
        pr.fns["pick"] = (["TT"], "TT", "TT a, TT b, int n", "\n".join(ob))
        pr.fn_order.append("pick")
        pr.fns["choose"] = (["TT"], "TT", "TT a, TT b, int n", "  if (n > 1) { return b; }\n  return a;")
        pr.fn_order.append("choose")
        for ty in rng.sample(ALL_TYPES, rng.randint(2, 5)):
            for _ in range(rng.randint(1, 2)):
                va, vb = value_of(rng, ty, ["p1", "p2"]), value_of(rng, ty, ["p1", "p2"])
                if ty == "P":
                    r = "r%d" % len(calls)
                    calls.append("  P %s = %s<P>(%s, %s, %d); %s" % (r, rng.choice(["choose", "pick"]), va, vb, rng.randint(0, 3),
                                                               print_of("P", r)))
                else:
                    calls.append("  println(pick<%s>(%s, %s, %d));" % (ty, va, vb, rng.randint(0, 3)))
    # two type parameters, used at (X, Y) and (Y, X)
    if rng.random() < 0.7:
        tb = ["  TT x = a;", "  UU y = b;", "  int i = 0;", "  while (n > i) { i = i + 1; x = a; y = b; }", "  println(i);", "  return y;"]
        pr.fns["second"] = (["TT", "UU"], "UU", "TT a, UU b, int n", "\n".join(tb))
        tb2 = ["  TT x = a;", "  if (n > 1) { x = a; }", "  return x;"]
        pr.fns["first"] = (["TT", "UU"], "TT", "TT a, UU b, int n", "\n".join(tb2))
        pr.fn_order += ["second", "first"]
        prim = [t for t in ALL_TYPES if t != "P"]
        for _ in range(rng.randint(1, 3)):
            x, y = rng.sample(prim, 2)
            for (u, v) in ((x, y), (y, x)):
                fn = rng.choice(["second", "first"])
                calls.append("  println(%s<%s, %s>(%s, %s, %d));" % (fn, u, v, value_of(rng, u, []), value_of(rng, v, []), rng.randint(0, 3)))
    rng.shuffle(calls)
    pr.main = "void main() {\n" + P_SETUP + "\n".join(calls) + "\n}\n"
    pr.meta = {"family": "fn-" + mode, "kinds": sorted(set(b.used)), "fns": list(pr.fn_order)}
    return pr


def gen_struct_program(rng):
    """Generic structs / enums at several tuples, interleaved: instances must not share layout or values."""
    pr = Program()
    pr.structs["Box"] = (["T"], [("T", "v"), ("int", "tag")])
    pr.structs["Pair"] = (["A", "B"], [("A", "first"), ("B", "second")])
    pr.enums["Opt"] = (["T"], [("Some", "T"), ("None", None)])
    pr.fns["unbox"] = (["TT"], "TT", "Box<TT> bx", "  return bx.v;")
    pr.fns["mk"] = (["TT"], "Box<TT>", "TT x, int t", "  Box<TT> bx;\n  bx.v = x;\n  bx.tag = t;\n  return bx;")
    pr.fns["swapped"] = (["TT", "UU"], "Pair<UU, TT>", "Pair<TT, UU> pq",
                         "  Pair<UU, TT> r;\n  r.first = pq.second;\n  r.second = pq.first;\n  return r;")
    pr.fns["wrap"] = (["TT", "UU"], "int", "TT a, UU b",
                      "  Pair<TT, UU> pq;\n  pq.first = a;\n  pq.second = b;\n  Box<Pair<TT, UU>> w;\n  w.v = pq;\n  w.tag = 3;\n"
                      "  println(w.v.first, w.v.second);\n  return w.tag;")
    pr.fn_order = ["unbox", "mk", "swapped", "wrap"]
    lines, k = [], 0
    prim = [t for t in ALL_TYPES if t != "P"]
    tys = rng.sample(ALL_TYPES, rng.randint(2, 5))
    boxes = []
    for ty in tys:
        for _ in range(rng.randint(1, 2)):
            k += 1
            nm = "b%d" % k
            lines.append("  Box<%s> %s; %s.v = %s; %s.tag = %d;" % (ty, nm, nm, value_of(rng, ty, ["p1", "p2"]), nm, k))
            boxes.append((nm, ty))
    acts = []
    for nm, ty in boxes:
        acts.append("  " + print_of(ty, nm + ".v") + " println(%s.tag);" % nm)
        if rng.random() < 0.5:
            acts.append("  %s.v = %s; %s" % (nm, value_of(rng, ty, ["p1", "p2"]), print_of(ty, nm + ".v")))
        if rng.random() < 0.5:
            if ty == "P":
                acts.append("  P u%s = unbox<P>(%s); %s" % (nm, nm, print_of("P", "u" + nm)))
            else:
                acts.append("  println(unbox<%s>(%s));" % (ty, nm))
        if rng.random() < 0.4:
            acts.append("  Box<%s> c%s = %s; c%s.tag = 99; println(%s.tag, c%s.tag);" % (ty, nm, nm, nm, nm, nm))
        if rng.random() < 0.4:
            acts.append("  Box<%s> m%s = mk<%s>(%s, 7); println(m%s.tag); %s" % (ty, nm, ty, value_of(rng, ty, ["p1", "p2"]), nm,
                                                                           print_of(ty, "m%s.v" % nm)))
    for _ in range(rng.randint(1, 3)):
        x, y = rng.sample(prim, 2)
        k += 1
        g = "  Pair<%s, %s> q%d; q%d.first = %s; q%d.second = %s; println(q%d.first, q%d.second);" % (
            x, y, k, k, value_of(rng, x, []), k, value_of(rng, y, []), k, k)
        g += "\n  Pair<%s, %s> r%d; r%d.first = %s; r%d.second = %s; println(r%d.first, r%d.second);" % (
            y, x, k, k, value_of(rng, y, []), k, value_of(rng, x, []), k, k)
        if rng.random() < 0.5:
            g += "\n  Pair<%s, %s> w%d = swapped<%s, %s>(q%d); println(w%d.first, w%d.second);" % (y, x, k, x, y, k, k, k)
        if rng.random() < 0.5:
            # the struct instances a generic function needs must occur in the source text (known finding
            # C11-struct-instance-only-in-generic-fn): they are declared here first
            g += "\n  Box<Pair<%s, %s>> z%d; println(wrap<%s, %s>(%s, %s));" % (x, y, k, x, y, value_of(rng, x, []), value_of(rng, y, []))
        acts.append(g)
    for ty in rng.sample([t for t in prim if t != "string"], rng.randint(1, 3)):
        k += 1
        g = "  Opt<%s> o%d = Opt<%s>::Some(%s);" % (ty, k, ty, VAL_POOL[ty][0])
        g += "\n  match (o%d) { Some(mv) => { println(\"some\", mv); } None => { println(\"none\"); } }" % k
        if rng.random() < 0.5:
            g += "\n  Opt<%s> e%d = Opt<%s>::None;" % (ty, k, ty)
            g += "\n  match (e%d) { Some(mv) => { println(\"some\", mv); } None => { println(\"none\"); } }" % k
        acts.append(g)
    rng.shuffle(acts)
    pr.main = "void main() {\n" + P_SETUP + "\n".join(lines + acts) + "\n}\n"
    pr.meta = {"family": "struct-enum", "kinds": ["generic_struct", "generic_enum", "struct_param", "struct_return"], "fns": list(pr.fn_order)}
    return pr


IMPL_KINDS = [k for k in ALL_KINDS if k not in ("array", "array_lit", "nested_generic", "match", "static_decl", "lambda")]


def gen_impl_program(rng):
    """A generic struct with an interface impl and a constructor impl whose method bodies are drawn from
    the full statement grammar (impl blocks are resolved at run time, not through clone_ast_node)."""
    pr = Program()
    pr.structs["Acc"] = (["T"], [("T", "v"), ("int", "cnt")])
    kinds = SAFE_KINDS + rng.sample([k for k in IMPL_KINDS if k not in SAFE_KINDS], rng.randint(2, 6))
    b1 = Body(rng, "T", kinds, self_field="self.v", in_fn=False)
    m1 = ["  T step(T a, T b, int n) {"] + b1.top(rng.randint(2, 5), "    ") + ["    self.cnt = self.cnt + 1;", "    return %s;" % b1.expr(1), "  }"]
    b2 = Body(rng, "T", kinds, self_field="self.v", in_fn=False)
    m2 = ["  T peek(T a, T b, int n) {"] + b2.top(rng.randint(1, 3), "    ") + ["    return self.v;", "  }"]
    pr.ifaces["Stepper"] = (["T"], ["T step(T a, T b, int n)", "T peek(T a, T b, int n)"])
    pr.impls.append(("Stepper", "Acc", ["T"], ["\n".join(m1), "\n".join(m2)]))
    lines, acts, k = [], [], 0
    pool = NUM_TYPES if not re.search(r"sizeof\(T\)|new T\b", "\n".join(m1 + m2)) else [t for t in NUM_TYPES if t != "tiny"]
    tys = rng.sample(pool, rng.randint(2, len(pool)))
    for ty in tys:
        k += 1
        lines.append("  Acc<%s> s%d; s%d.v = %s; s%d.cnt = 0;" % (ty, k, k, small_vals(rng, ty, 1)[0], k))
        for _ in range(rng.randint(1, 3)):
            a, c = small_vals(rng, ty)
            acts.append("  println(s%d.%s(%s, %s, %d)); println(s%d.v, s%d.cnt);" % (k, rng.choice(["step", "step", "peek"]), a, c,
                                                                                rng.randint(0, 4), k, k))
    rng.shuffle(acts)
    pr.main = "void main() {\n" + "\n".join(lines + acts) + "\n}\n"
    pr.meta = {"family": "impl", "kinds": sorted(set(b1.used + b2.used)), "fns": []}
    return pr


def gen_program(seed, k):
    rng = rng_for(seed, "c11-prog", k)
    r = rng.random()
    if r < 0.35:
        return gen_fn_program(rng, "safe")
    if r < 0.55:
        return gen_fn_program(rng, "full")
    if r < 0.80:
        return gen_struct_program(rng)
    return gen_impl_program(rng)


# ====================================================================================== running and shrinking
def run_pair(impl_dir, pr, timeout=6):
    g = common.run_cb(impl_dir, pr.generic_text(), timeout=timeout)
    t = common.run_cb(impl_dir, pr.twin_text(), timeout=timeout)
    return g, t


def verdict(g, t):
    """the property's oracle: exit status and standard output of the generic program equal those of
    its monomorphised twin"""
    return (g[0], g[1]) == (t[0], t[1])


def _deletions(lines):
    """candidate deletions: single brace-neutral lines, and whole brace-balanced groups (an `if` chain,
    a loop, a block, a switch) starting at a line that opens more than it closes"""
    n = len(lines)
    for i in range(n):
        l = lines[i]
        o, c = l.count("{"), l.count("}")
        if o == c:
            yield i, i + 1
        elif o > c and not l.strip().startswith("}"):
            d = 0
            for j in range(i, n):
                d += lines[j].count("{") - lines[j].count("}")
                if d == 0:
                    yield i, j + 1
                    break


def shrink_program(pr, bad, budget=250):
    """Greedy deletion of statements / calls while `bad(program)` stays true."""
    import copy
    cur = copy.deepcopy(pr)

    def containers(p):
        yield ("main", None)
        for n in p.fn_order:
            yield ("fn", n)
        for i in range(len(p.impls)):
            for j in range(len(p.impls[i][3])):
                yield ("impl", (i, j))

    def get(p, c):
        if c[0] == "main":
            return p.main.split("\n")
        if c[0] == "fn":
            return p.fns[c[1]][3].split("\n")
        i, j = c[1]
        return p.impls[i][3][j].split("\n")

    def put(p, c, lines):
        if c[0] == "main":
            p.main = "\n".join(lines)
        elif c[0] == "fn":
            tps, ret, params, _ = p.fns[c[1]]
            p.fns[c[1]] = (tps, ret, params, "\n".join(lines))
        else:
            i, j = c[1]
            p.impls[i][3][j] = "\n".join(lines)
    changed = True
    while changed and budget > 0:
        changed = False
        for c in list(containers(cur)):
            lines = get(cur, c)
            lo = 1 if c[0] in ("main", "impl") else 0           # keep the header line
            hi = len(lines) - (2 if c[0] == "main" else 1 if c[0] == "impl" else 0)
            for (a, b) in sorted(_deletions(lines[lo:hi]), key=lambda ab: ab[0] - ab[1]):
                if budget <= 0:
                    break
                cand = copy.deepcopy(cur)
                put(cand, c, lines[:lo + a] + lines[lo + b:])
                budget -= 1
                try:
                    ok = bad(cand)
                except Exception:
                    ok = False
                if ok:
                    cur = cand
                    changed = True
                    break
            if changed:
                break
    # drop generic functions that are no longer called
    for n in list(cur.fn_order):
        used = any(re.search(r"\b%s<" % n, txt) for txt in [cur.main] + [cur.fns[m][3] for m in cur.fn_order if m != n])
        if not used:
            cand = copy.deepcopy(cur)
            cand.fn_order.remove(n)
            del cand.fns[n]
            try:
                if bad(cand):
                    cur = cand
            except Exception:
                pass
    return cur


# ====================================================================================== classification of generic functions
def pinned_lists():
    """The recorded (pinned) lists of coq/C11/Pinned.v - single source of truth for what counts as the
    known clone_ast_node finding."""
    txt = common.strip_coq_comments(open(os.path.join(common.COQ, "C11", "Pinned.v")).read())
    out = {}
    for m in re.finditer(r"Definition\s+(\w+)\s*:\s*list string\s*:=\s*\[(.*?)\]\s*\.", txt, re.S):
        out[m.group(1)] = re.findall(r'"([^"]*)"', m.group(2))
    return out


# scalar members clone_ast_node does not copy whose loss was never observed to change behaviour
# (present in the parser's AST of every clone-safe construct the generator knows)
HARMLESS_SCALARS = {"original_type_name", "literal_type", "literal_text", "quad_value", "return_types", "pointer_base_type",
                    "location", "is_exported"}
TYPE_SCALARS = ["type_name", "return_type_name", "pointer_base_type_name", "sizeof_type_name", "cast_target_type", "type_arguments",
                "new_type_name"]
BASIC = {"void", "tiny", "short", "int", "long", "string", "char", "bool"}


def classify_instance(o_tree, t_model, tparams, targs, pinned, multi_tuple, fn_names=()):
    """Why a generic function instantiation is outside what the theorems promise (empty list = inside:
    the twin run is demanded to agree).  Decided on the PARSER's tree and the recorded lists of Pinned.v only,
    never on the current tables or the current model output: a member that is newly not copied / not
    rewritten must not be excused."""
    why = []
    rec_children = set(pinned.get("recorded_missing_ptr", []) + pinned.get("recorded_missing_vec", []) +
                       pinned.get("recorded_missing_indirect", []))
    rec_scalars = set(pinned.get("recorded_missing_scalar", []))
    kids_used, scal_used = set(), set()
    for n in walk(o_tree):
        kids_used.update(f for f, _ in n[2])
        scal_used.update(f for f, _ in n[1])
    ch = sorted(kids_used & rec_children)
    if ch:
        why.append("clone-children:" + ",".join(ch))
    sc = sorted((scal_used & rec_scalars) - HARMLESS_SCALARS)
    if sc:
        why.append("clone-scalars:" + ",".join(sc))
    # a type parameter the recorded rewriting cannot reach: the members in recorded_unrewritten, and spellings that
    # are not a plain type expression (T[3], Pair<A, B>*) - except `T* p`, where the base type name, which is what
    # is read, is a plain T
    rx = re.compile(r"\b(%s)\b" % "|".join(map(re.escape, tparams))) if tparams else None
    if rx:
        for n in walk(o_tree):
            d = dict(n[1])
            hit = None
            for f in pinned["recorded_unrewritten"]:
                if f != "original_type_name" and f in d and rx.search(d[f]):
                    hit = "unrewritten:%s=%s" % (f, d[f])
            for f in pinned["recorded_subst_strings"]:
                v = d.get(f, "")
                if rx.search(v) and re.search(r"[*\[\]&_]|^\s|\s$", rx.sub("", v)):
                    if f == "type_name" and d.get("is_pointer") == "1" and re.fullmatch(r"[A-Za-z]\w*\**", v.strip()) \
                            and "*" not in d.get("pointer_base_type_name", ""):
                        continue
                    hit = "unrewritten:%s=%s" % (f, v)
            if hit:
                why.append(hit)
                break
    if multi_tuple and any(dict(n[1]).get("is_static") == "1" for n in walk(o_tree)):
        why.append("static-shared")
    # `T[3] x;` in a generic function body is parsed as the expression T[3] followed by the expression x
    # (known finding C11-generic-fn-local-array-of-T): a VARIABLE node named like a type parameter
    if any(n[0] == 1 and dict(n[1]).get("name") in tparams for n in walk(o_tree)):
        why.append("parser:type parameter parsed as a variable (T[n] local)")
    return why


# ====================================================================================== systematic programs
def gen_kind_program(seed, kind, family, j):
    """A body built around ONE statement/expression kind (plus the basic ones), so that every kind
    appears in a generic function body and in a generic impl method body on every run."""
    rng = rng_for(seed, "c11-kind", kind, family, j)
    base = ["decl", "assign", "if", "println"]
    if family == "fn":
        pr = Program()
        inner = None
        if kind == "nested_generic":
            pr.fns["inner1"] = (["TT"], "TT", "TT x", "  TT y = x;\n  return y + 1;")
            pr.fn_order.append("inner1")
            inner = "inner1"
        if kind == "match":
            pr.enums["Opt"] = (["T"], [("Some", "T"), ("None", None)])
        b = Body(rng, "TT", base + [kind] * 3, inner_generic=inner)
        body = b.top(4) + ["  return %s;" % b.expr(2)]
        pr.fns["gnum"] = (["TT"], "TT", "TT a, TT b, int n", "\n".join(body))
        pr.fn_order.append("gnum")
        pool = NUM_TYPES if not re.search(r"sizeof\(TT\)|new TT", "\n".join(body)) else [t for t in NUM_TYPES if t != "tiny"]
        calls = ["  println(gnum<%s>(%s, %s, %d));" % (ty, rng.randint(1, 6), rng.randint(1, 6), rng.randint(0, 4))
                 for ty in pool for _ in range(2)]
        pr.main = "void main() {\n" + "\n".join(calls) + "\n}\n"
        pr.meta = {"family": "fn-kind", "kinds": sorted(set(b.used)), "fns": list(pr.fn_order), "kind": kind}
        return pr
    pr = Program()
    pr.structs["Acc"] = (["T"], [("T", "v"), ("int", "cnt")])
    b = Body(rng, "T", base + [kind] * 3, self_field="self.v", in_fn=False)
    m1 = ["  T step(T a, T b, int n) {"] + b.top(4, "    ") + ["    self.cnt = self.cnt + 1;", "    return %s;" % b.expr(2), "  }"]
    pr.ifaces["Stepper"] = (["T"], ["T step(T a, T b, int n)"])
    pr.impls.append(("Stepper", "Acc", ["T"], ["\n".join(m1)]))
    pool = NUM_TYPES if not re.search(r"sizeof\(T\)|new T\b", "\n".join(m1)) else [t for t in NUM_TYPES if t != "tiny"]
    lines, acts = [], []
    for i, ty in enumerate(pool):
        lines.append("  Acc<%s> s%d; s%d.v = %d; s%d.cnt = 0;" % (ty, i, i, rng.randint(1, 5), i))
        for _ in range(2):
            acts.append("  println(s%d.step(%d, %d, %d)); println(s%d.v, s%d.cnt);" % (i, rng.randint(1, 6), rng.randint(1, 6),
                                                                              rng.randint(0, 4), i, i))
    pr.main = "void main() {\n" + "\n".join(lines + acts) + "\n}\n"
    pr.meta = {"family": "impl-kind", "kinds": sorted(set(b.used)), "fns": [], "kind": kind}
    return pr


def gen_tuple_program(x, y):
    """f<X,Y> against f<Y,X>, Box<X> against Box<Y>, first use against n-th use, for one ordered pair of types."""
    pr = Program()
    pr.structs["Box"] = (["T"], [("T", "v"), ("int", "tag")])
    pr.structs["Pair"] = (["A", "B"], [("A", "first"), ("B", "second")])
    pr.fns["second"] = (["TT", "UU"], "UU", "TT a, UU b", "  TT x = a;\n  UU y = b;\n  return y;")
    pr.fns["first"] = (["TT", "UU"], "TT", "TT a, UU b", "  if (1 > 0) { return a; }\n  return a;")
    pr.fns["choose"] = (["TT"], "TT", "TT a, TT b, int n", "  if (n > 1) { return b; }\n  return a;")
    pr.fns["unbox"] = (["TT"], "TT", "Box<TT> bx", "  return bx.v;")
    pr.fn_order = ["second", "first", "choose", "unbox"]

    def val(t, i):
        return ["p1", "p2"][i % 2] if t == "P" else VAL_POOL[t][i % len(VAL_POOL[t])]

    def show(t, e, tmp):
        if t == "P":
            return "P %s = %s; println(%s.x, %s.y);" % (tmp, e, tmp, tmp)
        return "println(%s);" % e
    m = [P_SETUP.rstrip("\n")]
    m.append("  Box<%s> bx; bx.v = %s; bx.tag = 1;" % (x, val(x, 0)))
    m.append("  Box<%s> by; by.v = %s; by.tag = 2;" % (y, val(y, 0)))
    m.append("  " + show(x, "second<%s, %s>(%s, %s)" % (y, x, val(y, 1), val(x, 1)), "t1"))
    m.append("  " + show(y, "second<%s, %s>(%s, %s)" % (x, y, val(x, 1), val(y, 1)), "t2"))
    m.append("  " + show(x, "first<%s, %s>(%s, %s)" % (x, y, val(x, 2), val(y, 2)), "t3"))
    m.append("  " + show(y, "first<%s, %s>(%s, %s)" % (y, x, val(y, 2), val(x, 2)), "t4"))
    m.append("  " + show(x, "unbox<%s>(bx)" % x, "t5"))
    m.append("  " + show(y, "unbox<%s>(by)" % y, "t6"))
    m.append("  bx.v = %s; by.v = %s;" % (val(x, 3), val(y, 3)))
    m.append("  " + show(x, "unbox<%s>(bx)" % x, "t7"))
    # a struct-typed MEMBER passed directly to a struct parameter fails in non-generic code too: go through a local
    m.append("  %s tv = by.v;" % y)
    m.append("  " + show(y, "choose<%s>(%s, tv, 2)" % (y, val(y, 1)), "t8"))
    m.append("  " + show(x, "second<%s, %s>(%s, %s)" % (y, x, val(y, 1), val(x, 1)), "t9"))       # n-th use like the first
    m.append("  Pair<%s, %s> pq; pq.first = %s; pq.second = %s;" % (x, y, val(x, 0), val(y, 1)))
    m.append("  Pair<%s, %s> qp; qp.first = %s; qp.second = %s;" % (y, x, val(y, 0), val(x, 1)))
    m.append("  " + show(x, "pq.first", "t10") + " " + show(y, "pq.second", "t11"))
    m.append("  " + show(y, "qp.first", "t12") + " " + show(x, "qp.second", "t13"))
    m.append("  println(bx.tag, by.tag);")
    # tuples that differ in ONE position only (a cache key / instance key that ignores an argument): f<X,Y> vs f<X,Z>, f<Y,X> vs f<Z,X>
    z = [t for t in ALL_TYPES if t not in (x, y)][(ALL_TYPES.index(x) + ALL_TYPES.index(y)) % (len(ALL_TYPES) - 2)]
    m.append("  " + show(y, "second<%s, %s>(%s, %s)" % (x, y, val(x, 1), val(y, 2)), "t14"))
    m.append("  " + show(z, "second<%s, %s>(%s, %s)" % (x, z, val(x, 1), val(z, 2)), "t15"))
    m.append("  " + show(y, "first<%s, %s>(%s, %s)" % (y, x, val(y, 3), val(x, 0)), "t16"))
    m.append("  " + show(z, "first<%s, %s>(%s, %s)" % (z, x, val(z, 3), val(x, 0)), "t17"))
    m.append("  " + show(y, "second<%s, %s>(%s, %s)" % (x, y, val(x, 0), val(y, 3)), "t18"))
    m.append("  Pair<%s, %s> pz; pz.first = %s; pz.second = %s;" % (x, z, val(x, 2), val(z, 1)))
    m.append("  " + show(x, "pz.first", "t19") + " " + show(z, "pz.second", "t20") + " " + show(y, "pq.second", "t21"))
    pr.main = "void main() {\n" + "\n".join(m) + "\n}\n"
    pr.meta = {"family": "tuple-pair", "kinds": ["f<X,Y> vs f<Y,X>", "f<X,Y> vs f<X,Z>", "Box<X> vs Box<Y>", "nth-use"], "fns": list(pr.fn_order), "pair": [x, y]}
    return pr


# ====================================================================================== C: run-time type context
# Generic impl blocks are not instantiated by clone + substitute: all instantiations share ONE method AST and the type
# parameters are resolved while the method runs, through the TypeContext stack (coq/C11/Context.v).  The programs below are
# call skeletons over several generic impl blocks: every method observes type names that mention its block's parameters
# (sizeof(T), sizeof(Box<T>), `Cell<T> c;` ...), before and after calling methods on receivers of OTHER instantiations of
# the same block (and of other blocks), at any nesting depth, through generic functions in between, with early returns.
# Three outputs are compared: the model's trace (bin/c11_model CTX, mapped through a measured size table), the generic
# program on main, the monomorphised twin on main.
CTX_TYPES = ["char", "short", "int", "long", "long", "int", "short", "bool", "string", "P", "Box<long>", "Duo<int, long>", "Duo<short, long>"]
CTX_BLOCKS = {
    # base -> (type parameters, interface name, fields)
    "Cell": (["T"], "Sized", [("T", "value"), ("int", "tag")]),
    "Duo": (["A", "B"], "Sz2", [("A", "first"), ("B", "second"), ("int", "tag")]),
    "Box": (["E"], "Bsz", [("E", "v"), ("int", "tag")]),
}


CTX_LIT = {"short": "7", "int": "70000", "long": "3000000000", "string": '"s"', "bool": "true"}
CTX_LIT_OUT = {"short": "7", "int": "70000", "long": "3000000000", "string": "s", "bool": "1"}


# return kinds of generated methods: every exit path of the method-call protocol pops the type context at its own place
# (normal end of a void method, ReturnException handler for int / long / bool, re-thrown string and struct results)
CTX_RETS = ["int", "int", "int", "long", "bool", "string", "void", "P"]


def ctx_ret_value(ret, k):
    return {"int": str(k), "long": str(k), "bool": "true" if k % 2 else "false", "string": '"r%d"' % k, "void": "", "P": "rp0"}[ret]


def ctx_inst_name(base, args):
    return "%s<%s>" % (base, ", ".join(args))


class CtxProgram:
    """blocks: base -> list of methods {name, sparams [(pname, ptype)], acts}; fns: name -> {sparams, acts, tt_decl}
    (generic functions with ONE type parameter TT); calls: main calls (var, rty, method, n, [arg vars])."""

    def __init__(self):
        self.blocks = {}
        self.fns = {}
        self.universe = []
        self.calls = []
        self.main_vars = {}      # type text -> variable name
        self.meta = {}

    # ------------------------------------------------------------ rendering
    def _ret_of(self, base, m):
        if m in ("fail", "put"):
            return "int"
        return [x for x in self.blocks[base] if x["name"] == m][0].get("ret", "int")

    def _render_body(self, params, sparams, acts, is_method, ret="int"):
        """Cb text of a body and, in parallel, the model's act list (strings for the CTX protocol)."""
        lines, macts = [], []
        if ret == "P":
            lines.append("    P rp0; rp0.x = n; rp0.y = 0;")
        env = [(pn, pt) for pn, pt in sparams]          # declared type text of every variable in scope (static)
        uid = [0]
        rx = re.compile(r"\b(%s)\b" % "|".join(map(re.escape, params + ["TT"]))) if True else None

        def fresh(p):
            uid[0] += 1
            return "%s%d" % (p, uid[0])

        def var_of_type(ty):
            for v, t in env:
                if t == ty:
                    return v
            v = fresh("t")
            lines.append("    %s %s; %s.tag = 0;" % (ty, v, v))
            macts.append("D %s %s" % (enc(v), enc(ty)))
            env.append((v, ty))
            return v
        for a in acts:
            if a[0] == "O":
                ty, var = a[1], a[2]
                if var == 0:
                    lines.append("    println(sizeof(%s));" % ty)
                elif var == 1:
                    v = fresh("s")
                    lines.append("    int %s = sizeof(%s) + n; println(%s - n);" % (v, ty, v))
                elif var == 2:
                    lines.append("    println(twice(sizeof(%s)) / 2);" % ty)
                else:
                    v = fresh("s")
                    lines.append("    int %s = 0; if (n >= 0) { %s = sizeof(%s); } println(%s);" % (v, v, ty, v))
                macts.append("O %s" % enc(ty))
            elif a[0] == "D":
                v, ty = a[1], a[2]
                lines.append("    %s %s; %s.tag = n;" % (ty, v, v))
                macts.append("D %s %s" % (enc(v), enc(ty)))
                env.append((v, ty))
            elif a[0] in ("C", "Y"):
                # Y: `try v.m(...)` - a run-time error of the callee (any depth below) is caught here and the body goes on
                v, base, m = a[1], a[2], a[3]
                sp = [] if m == "fail" else [x for x in self.blocks[base] if x["name"] == m][0]["sparams"]
                args = [var_of_type(pt) for _, pt in sp]
                r = fresh("r")
                crt = self._ret_of(base, m)
                if a[0] == "C" and crt == "void":
                    lines.append("    %s.%s(%s);" % (v, m, ", ".join(["n - 1"] + args)))
                elif a[0] == "C":
                    lines.append("    %s %s = %s.%s(%s);" % (crt, r, v, m, ", ".join(["n - 1"] + args)))
                else:
                    lines.append("    Result<%s, RuntimeError> %s = try %s.%s(%s);" % (
                        "int" if crt == "void" else crt, r, v, m, ", ".join(["n - 1"] + args)))
                macts.append("%s %s %s" % (a[0], enc(v), enc(m)))
            elif a[0] == "P":
                # v.put(n - 1, <literal of the receiver's first type argument>, ...): the T-typed parameters of `put` are
                # resolved from the RECEIVER's instantiation (call_impl.cpp: impl.type_parameter_map of the receiver's struct type)
                v, targs = a[1], a[2]
                r = fresh("r")
                lines.append("    int %s = %s.put(%s);" % (r, v, ", ".join(["n - 1"] + [CTX_LIT[t] for t in targs])))
                macts.append("O %s" % enc("#" + " ".join(CTX_LIT_OUT[t] for t in targs)))
                macts.append("C %s %s" % (enc(v), enc("put")))
            elif a[0] == "G":
                g, targ = a[1], a[2]
                fd = self.fns[g]
                args = [var_of_type(re.sub(r"\bTT\b", targ, pt)) for _, pt in fd["sparams"]]
                r = fresh("r")
                lines.append("    int %s = %s<%s>(%s);" % (r, g, targ, ", ".join(["n - 1"] + args)))
                macts.append("G %s" % enc("%s<%s>" % (g, targ)))
            elif a[0] == "R":
                lines.append("    if (%d >= n) { return%s; }" % (a[1], (" " + ctx_ret_value(ret, a[1])) if ret != "void" else ""))
                macts.append("R %d" % a[1])
            elif a[0] == "L":
                # a deferred observation, at the top level of the body: it runs when the method's scope is left
                lines.append("    defer println(sizeof(%s));" % a[1])
                macts.append("L %s" % enc(a[1]))
        if ret == "void":
            macts.append("Z")             # the body falls off its end
        else:
            lines.append("    return %s;" % ctx_ret_value(ret, 9))
        return lines, macts

    def to_program(self):
        """the generic program as a Program (so that the monomorphiser writes the twin), and the CTX request"""
        pr = Program()
        mblocks = []
        used_fn_insts = []
        for base, (params, iface, fields) in CTX_BLOCKS.items():
            pr.structs[base] = (params, fields)
        for base, methods in self.blocks.items():
            params, iface, fields = CTX_BLOCKS[base]
            sigs, texts, mm = [], [], []
            for md in methods:
                sig = "%s %s(%s)" % (md.get("ret", "int"), md["name"], ", ".join(["int n"] + ["%s %s" % (pt, pn) for pn, pt in md["sparams"]]))
                lines, macts = self._render_body(params, md["sparams"], md["acts"], True, md.get("ret", "int"))
                sigs.append(sig)
                texts.append("  %s {\n%s\n  }" % (sig, "\n".join(lines)))
                mm.append((md["name"], md["sparams"], macts))
            psig = "int put(%s)" % ", ".join(["int n"] + ["%s x%d" % (p_, i) for i, p_ in enumerate(params)])
            sigs.append(psig)
            texts.append("  %s {\n    println(%s);\n    println(sizeof(%s));\n    return n;\n  }" % (
                psig, ", ".join("x%d" % i for i in range(len(params))), params[0]))
            mm.append(("put", [], ["O %s" % enc(params[0])]))
            # a method that always ends in a run-time error (division by zero) after observing its own parameter
            fsig = "int fail(int n)"
            sigs.append(fsig)
            texts.append("  %s {\n    println(sizeof(%s));\n    int z = 10 / (n - n);\n    return z;\n  }" % (fsig, params[-1]))
            mm.append(("fail", [], ["O %s" % enc(params[-1]), "F"]))
            pr.ifaces[iface] = (params, sigs)
            pr.impls.append((iface, base, params, texts))
            mblocks.append((base, params, mm))
        for g, fd in self.fns.items():
            lines, macts = self._render_body([], fd["sparams"], fd["acts"], False)
            pr.fns[g] = (["TT"], "int", ", ".join(["int n"] + ["%s %s" % (pt, pn) for pn, pt in fd["sparams"]]), "\n".join(lines))
            pr.fn_order.append(g)
            fd["_macts"] = macts
        # function instances the model needs: closure of the G acts
        work = []
        for _, _, mm in mblocks:
            for _, _, macts in mm:
                work += [dec(x.split()[1]) for x in macts if x.startswith("G ")]
        seen = []
        while work:
            inst = work.pop()
            if inst in seen:
                continue
            seen.append(inst)
            g, targ = inst.split("<", 1)[0], inst.split("<", 1)[1][:-1]
            fd = self.fns[g]
            macts = []
            for x in fd["_macts"]:
                toks = x.split()
                toks = [toks[0]] + [t if not t.startswith("=") else enc(re.sub(r"\bTT\b", targ, dec(t))) for t in toks[1:]]
                macts.append(" ".join(toks))
                if toks[0] == "G":
                    work.append(dec(toks[1]))
            sp = [(pn, re.sub(r"\bTT\b", targ, pt)) for pn, pt in fd["sparams"]]
            mblocks.append((inst, [], [("()", sp, macts)]))
        m = [P_SETUP.rstrip("\n")]
        for ty, v in self.main_vars.items():
            m.append("  %s %s; %s.tag = 1;" % (ty, v, v))
        for i, (v, rty, meth, n, args) in enumerate(self.calls):
            crt = self._ret_of(rty.split("<")[0], meth)
            m.append("  Result<%s, RuntimeError> q%d = try %s.%s(%s);" % ("int" if crt == "void" else crt, i, v, meth, ", ".join([str(n)] + args)))
            m.append('  println("--");')
        pr.main = "void main() {\n" + "\n".join(m) + "\n}\n"
        pr.meta = dict(self.meta)
        req = ["CTX", "4000", str(len(mblocks))]
        for base, params, mm in mblocks:
            req += [enc(base), str(len(params))] + [enc(p) for p in params] + [str(len(mm))]
            for name, sp, macts in mm:
                req += [enc(name), str(len(sp))]
                for pn, pt in sp:
                    req += [enc(pn), enc(pt)]
                req += [str(len(macts))] + macts
        req.append(str(len(self.calls)))
        for v, rty, meth, n, args in self.calls:
            req += [enc(rty), enc(meth), str(n)]
        pr.ctx_request = " ".join(req)
        return pr


def gen_ctx_program(seed, k, shape=None):
    rng = rng_for(seed, "c11-ctx", k)
    cp = CtxProgram()
    shape = shape or rng.choice(["one-block", "one-block", "two-blocks", "duo", "with-fns", "all", "defers", "defers-two"])
    bases = {"one-block": ["Cell"], "two-blocks": ["Cell", "Box"], "duo": ["Duo", "Cell"], "with-fns": ["Cell"],
             "all": ["Cell", "Duo", "Box"], "defers": ["Cell"], "defers-two": ["Cell", "Duo"]}[shape]
    # scope-exit statements: `defer println(sizeof(T));` at the top level of a method body runs when the method's scope is left -
    # the one piece of user code that executes between the pops of the type context and the end of the call.  Dense in the
    # "defers" shapes (every return kind present), sprinkled elsewhere.
    dense = shape.startswith("defers")
    p_defer = 0.30 if dense else 0.07
    pool = [t for t in CTX_TYPES]
    uni = []
    while len(uni) < rng.randint(2, 3):
        t = rng.choice(pool)
        if t not in uni:
            uni.append(t)
    # at least two types of different size, so that a wrong binding is visible
    if not ({"short", "char", "bool"} & set(uni) and {"long", "string", "P", "Box<long>", "int"} & set(uni)):
        uni = ["short", "long"] + [u for u in uni if u not in ("short", "long")][:1]
    cp.universe = uni

    flat = [u for u in uni if "<" not in u]       # a nested instance cannot be spelled in a parameter list or in sizeof(...)

    def insts_of(base, pool=None):
        n = len(CTX_BLOCKS[base][0])
        return [ctx_inst_name(base, list(t)) for t in itertools.product(pool or uni, repeat=n)]
    # every instance type is spelled in main (a struct instance needed only inside generic code is a known finding)
    need_struct = set()
    for b in ["Cell", "Box", "Duo"]:
        for it in insts_of(b):
            if b in bases or b == "Box":
                need_struct.add(it)
    nm = {b: rng.randint(3, 4) for b in bases}
    if dense:
        nm = {b: rng.randint(5, 6) for b in bases}
    for b in bases:
        cp.blocks[b] = [{"name": "m%d" % j, "sparams": [], "acts": []} for j in range(nm[b])]
        kinds = ["int", "void", "long", "string", "bool", "P"]
        rng.shuffle(kinds)
        for j, md in enumerate(cp.blocks[b]):
            md["ret"] = kinds[j % len(kinds)] if dense else rng.choice(CTX_RETS)
    with_fns = shape in ("with-fns", "all")
    if with_fns:
        cp.fns["gobs"] = {"sparams": [], "acts": [], "tt_decl": False}
        cp.fns["gvia"] = {"sparams": [("pgc", "Cell<TT>")], "acts": [], "tt_decl": True}
    # struct parameters (concrete instantiations only: a parameter spelled Cell<T> is a known finding)
    # parameter names are unique in the whole program: the interpreter evaluates an argument expression after the
    # callee's earlier parameters are bound, so `o.m(t1, p0)` would read the CALLEE's p0 (not a C11 matter)
    for b in bases:
        for mi, md in enumerate(cp.blocks[b]):
            for j in range(rng.choice([0, 1, 1, 2])):
                ob = rng.choice(bases)
                md["sparams"].append(("p%s%d%d" % (b[0].lower(), mi, j), rng.choice(insts_of(ob, flat))))

    def type_forms(params):
        out = []
        for p in params:
            out += [p, p, p, "Box<%s>" % p, "%s*" % p, "Duo<%s, long>" % p, "Cell<%s>" % p, "Duo<%s, %s>" % (rng.choice(flat), p)]
        if len(params) == 2:
            out += ["Duo<%s, %s>" % (params[1], params[0]), "Duo<%s, %s>" % (params[0], params[1])]
        out += [rng.choice(flat), ctx_inst_name("Cell", [rng.choice(flat)])]
        return out

    def body(params, sparams, depth_guard, own_base):
        acts = [("R", 0)]
        env = [("self", own_base, None)] if own_base else []
        env += [(pn, pt.split("<")[0], pt) for pn, pt in sparams]
        lc = [0]
        for _ in range(rng.randint(3, 7)):
            if params and rng.random() < p_defer:
                # bare parameters and concrete flat types only: what a late defer leaves unresolved (T) is measurable from main
                acts.append(("L", rng.choice(list(params) * 3 + [rng.choice(flat)])))
                continue
            r = rng.random()
            if r < 0.38:
                acts.append(("O", rng.choice(type_forms(params)), rng.randint(0, 3)))
            elif r < 0.50:
                lc[0] += 1
                v = "l%d" % lc[0]
                ob = rng.choice(bases)
                ops = CTX_BLOCKS[ob][0]
                if params and own_base in cp.blocks and rng.random() < 0.35:
                    # a local of the block's own generic spelling (Cell<T> inside impl ... for Cell<T>): its struct type name
                    # stays "Cell<T>", find_impl_for_struct answers the generic impl itself, nothing is pushed and the callee
                    # runs under the caller's context - the right one.  Any other spelling over the parameters (Box<T>,
                    # Duo<B, A>) is known finding C11-impl-local-struct-of-T.
                    ob, ops, args = own_base, params, list(params)
                else:
                    args = [rng.choice(uni) for _ in ops]
                acts.append(("D", v, ctx_inst_name(ob, args)))
                env.append((v, ob, ctx_inst_name(ob, args)))
            elif r < 0.85 and env:
                v, ob, vty = rng.choice(env)
                targs = split_top(vty[vty.index("<") + 1:-1]) if vty else []
                if ob in cp.blocks and targs and all(t in CTX_LIT for t in targs) and rng.random() < 0.3:
                    acts.append(("P", v, targs))
                elif ob in cp.blocks:
                    q = rng.random()
                    if q < 0.10:
                        acts.append(("Y", v, ob, "fail"))                                   # the error is caught right here
                    elif q < 0.22:
                        acts.append(("Y", v, ob, rng.choice(cp.blocks[ob])["name"]))        # ... or comes from deeper frames
                    elif q < 0.25:
                        acts.append(("C", v, ob, "fail"))                                   # ... and passes this frame
                    else:
                        acts.append(("C", v, ob, rng.choice(cp.blocks[ob])["name"]))
                    if rng.random() < 0.7:
                        acts.append(("O", rng.choice(type_forms(params)), rng.randint(0, 3)))
            elif r < 0.93 and with_fns:
                g = rng.choice(list(cp.fns))
                if params and not cp.fns[g]["tt_decl"] and rng.random() < 0.4:
                    targ = rng.choice(params)
                else:
                    targ = rng.choice(flat)
                acts.append(("G", g, targ))
                acts.append(("O", rng.choice(type_forms(params)), 0))
            else:
                acts.append(("R", rng.randint(1, 2)))
        return acts
    for b in bases:
        for md in cp.blocks[b]:
            md["acts"] = body(CTX_BLOCKS[b][0], md["sparams"], 0, b)
    if with_fns:
        # generic functions that call other instantiations of themselves and methods on receivers built from TT
        cp.fns["gobs"]["acts"] = [("R", 0), ("O", "TT", 0), ("L", "TT"), ("G", "gobs", rng.choice(flat)), ("O", "TT", 1),
                                  ("O", "Box<TT>", 0)]
        cp.fns["gvia"]["acts"] = [("R", 0), ("O", "TT", 0), ("C", "pgc", "Cell", rng.choice(cp.blocks["Cell"])["name"]), ("O", "TT", 0),
                                  ("D", "lc", "Cell<%s>" % rng.choice(flat)), ("C", "lc", "Cell", rng.choice(cp.blocks["Cell"])["name"]),
                                  ("G", "gvia", rng.choice(flat)), ("O", "Cell<TT>", 0)]
    for it in sorted(need_struct):
        cp.main_vars[it] = "g_" + re.sub(r"[^A-Za-z0-9]+", "_", it).strip("_")
    # calls from main: every instantiation of every block, in a shuffled order, some twice (n-th use)
    calls = []
    for b in bases:
        for it in insts_of(b):
            for _ in range(rng.choice([1, 1, 2])):
                md = rng.choice(cp.blocks[b])
                calls.append((cp.main_vars[it], it, md["name"], rng.randint(2, 4), [cp.main_vars[pt] for _, pt in md["sparams"]]))
    rng.shuffle(calls)
    cp.calls = calls[:10]
    cp.meta = {"family": "ctx-" + shape, "kinds": ["cross-instantiation method calls", "type context stack"], "fns": list(cp.fns),
               "universe": uni}
    return cp


def ctx_size_program(names):
    """a program that prints sizeof of every resolved type name from main (no type context involved); run as its twin,
    where nested instances have plain names"""
    pr = Program()
    for base, (params, iface, fields) in CTX_BLOCKS.items():
        pr.structs[base] = (params, fields)
    pr.main = "void main() {\n" + "\n".join("  println(sizeof(%s));" % n for n in names) + "\n}\n"
    return pr


def resolve_requests(seed, n, maxlen):
    """TypeContext::resolve_complex_type, model vs ast.h: random adversarial names and an exhaustive small scope"""
    reqs = []
    for k in range(n):
        rng = rng_for(seed, "c11-resolve", k)
        m = [(rng.choice(["T", "U", "A", "B", "a", "int", ""]), rng.choice(["int", "long", "string", "P", "Box<int>", "U", "T", "a b", ""]))
             for _ in range(rng.randint(0, 3))]
        name = rand_name(rng) if rng.random() < 0.7 else rng.choice(
            ["Duo<T, U>", "Duo<T,U>", "Duo< T , U >", "Box<T>*", "T*", "T**", "T[3]", "T[]", "Duo<U, T>[2]", "Box<Cell<T>>", "Duo<T, Box<U>>",
             "T *", " T", "Map<T, T>", "Box<T>>", "Box<,T>", "Box<T,>", "Box< >", "Q<T>*x", "a[T]", "T<U>"])
        reqs.append(("resolve", "RESOLVE %d %s %s" % (len(m), " ".join(enc(a) + " " + enc(b) for a, b in m), enc(name))))
    alpha = ["T", "<", ">", ",", " ", "*", "[", "a"]
    for ln in range(0, maxlen + 1):
        for tup in itertools.product(alpha, repeat=ln):
            reqs.append(("resolve", "RESOLVE 2 %s %s %s %s %s" % (enc("T"), enc("int"), enc("a"), enc("Q<T>"), enc("".join(tup)))))
    return reqs


# ====================================================================================== run
def fn_specs(pr):
    """every (generic function, type-argument tuple) the program instantiates, including those reached
    through other instantiations"""
    pr.twin_text()
    need = []
    work = [pr.main]
    seen = []
    while work:
        txt = work.pop()
        loc = []
        pr._mono_text(txt, loc)
        for kind, n, a in loc:
            if kind == "fn" and (n, a) not in seen:
                seen.append((n, a))
                tps, ret, params, body = pr.fns[n]
                work.append(pr._subst(ret + " " + params + " " + body, tps, a))
    return seen


def known_signature(pr, g, t):
    """a main-stream failure that is an instance of a recorded finding (matched by signature)"""
    fam = pr.meta["family"]
    if fam.startswith("impl") and g[0] == 0 and t[0] == 1 and "Type range error" in t[2]:
        return "C11-impl-locals-int"
    return None


def ctx_groups(line):
    """model answer to a CTX request -> (groups of Context.run, groups of Context.run_calls_mono = the hand-specialised copy)"""
    mech, _, spec = line.partition(" || ")
    f = lambda part: [g.split() for g in part.split(" ; ")] if part.strip() else []
    return f(mech), f(spec)


def ctx_predict(gs, table):
    """the stdout the groups stand for: every observed name printed as its size (measured from main), `--` after each call"""
    ok = all(x[0] in ("N", "R", "E") and x[1] == "0" for x in gs) and all(dec(y) in table or dec(y).startswith("#") for x in gs for y in x[2:])
    txt = "".join("".join((dec(y)[1:] if dec(y).startswith("#") else table.get(dec(y), "?")) + "\n" for y in x[2:]) + "--\n" for x in gs)
    return ok, txt


def ctx_size_table(impl_dir, names):
    table = {}
    # sizes measured from main (no context), in chunks so that one unmeasurable name does not spoil the table
    chunks = [names[i:i + 40] for i in range(0, len(names), 40)]
    for ch, r in zip(chunks, common.pmap(lambda ch: common.run_cb(impl_dir, ctx_size_program(ch).twin_text(), timeout=6), chunks)):
        vals = r[1].split("\n")[:-1]
        if r[0] == 0 and len(vals) == len(ch):
            table.update(dict(zip(ch, vals)))
    return table


def ctx_model_differs(cp, impl_dir, mbin, table):
    """the generic program of a call skeleton runs (rc 0) and prints something else than the model's trace stands for"""
    pr = cp.to_program()
    gs, _ = ctx_groups(batch([mbin], [pr.ctx_request])[0])
    missing = sorted({dec(y) for x in gs for y in x[2:] if not dec(y).startswith("#") and dec(y) not in table})
    if missing:
        table.update(ctx_size_table(impl_dir, missing))
    ok, pred = ctx_predict(gs, table)
    g = common.run_cb(impl_dir, pr.generic_text(), timeout=10)
    return ok and g[0] == 0 and g[1] != pred


def shrink_ctx_model(cp, impl_dir, mbin, table, budget=160):
    """Greedy reduction of a call skeleton on which interpreter and model disagree: calls from main, then statements of
    the method bodies (a declaration stays while a later statement uses its variable), the disagreement kept."""
    import copy
    cur = copy.deepcopy(cp)
    left = [budget]

    def still(c):
        if left[0] <= 0:
            return False
        left[0] -= 1
        try:
            return ctx_model_differs(c, impl_dir, mbin, table)
        except Exception:
            return False
    if not still(cur):
        return cp
    for one in list(cur.calls):                 # one call from main is usually enough
        c = copy.deepcopy(cur)
        c.calls = [one]
        if still(c):
            cur = c
            break
    else:
        i = 0
        while i < len(cur.calls) and len(cur.calls) > 1:
            c = copy.deepcopy(cur)
            del c.calls[i]
            if still(c):
                cur = c
            else:
                i += 1
    changed = True
    while changed and left[0] > 0:
        changed = False
        for b in list(cur.blocks):
            for mi in range(len(cur.blocks[b])):
                acts = cur.blocks[b][mi]["acts"]
                for ai in range(len(acts) - 1, -1, -1):
                    a = acts[ai]
                    if a[0] == "D" and any(x[0] in ("C", "Y", "P") and x[1] == a[1] for x in acts[ai + 1:]):
                        continue
                    c = copy.deepcopy(cur)
                    del c.blocks[b][mi]["acts"][ai]
                    if still(c):
                        cur = c
                        changed = True
                        break
                if changed:
                    break
            if changed:
                break
    return cur


CTX_SHAPES = ["one-block", "two-blocks", "duo", "with-fns", "all", "defers", "defers-two", "defers", "defers-two", "defers"]


def run_ctx_stage(rep, seed, seeds, quick, impl_dir, mbin, hist, proof_broken):
    """C: generic impl blocks at several instantiations calling each other; model trace vs generic program vs twin."""
    n = 150 if quick else 2400
    shapes = CTX_SHAPES
    cps = []
    for sd in seeds:
        for k in range(n // len(seeds)):
            cps.append(gen_ctx_program(sd, k, shapes[k] if k < len(shapes) else None))
    prs = [cp.to_program() for cp in cps]
    mo = batch([mbin], [pr.ctx_request for pr in prs])
    both = [ctx_groups(line) for line in mo]
    names = sorted({dec(x) for pair in both for gs in pair for g in gs for x in g[2:] if not dec(x).startswith("#")})
    table = ctx_size_table(impl_dir, names)
    results = common.pmap(lambda pr: run_pair(impl_dir, pr, timeout=10), prs)
    out = {"violations_with_input": 0, "programs": len(prs), "distinct": 0}
    twin_bad, model_bad, spec_bad, calls, nested_calls, cross_obs = [], [], [], 0, 0, 0
    late_progs = late_differs = defer_acts = 0
    ret_hist = {}
    distinct = set()
    for cp, pr, (gs, ms), (g, t) in zip(cps, prs, both, results):
        fam = pr.meta["family"]
        hist["prog-" + fam] = hist.get("prog-" + fam, 0) + 1
        calls += len(gs)
        cross_obs += sum(len(x) - 2 for x in gs)
        for mds in cp.blocks.values():
            for md in mds:
                ret_hist[md.get("ret", "int")] = ret_hist.get(md.get("ret", "int"), 0) + 1
                defer_acts += sum(1 for a in md["acts"] if a[0] == "L")
        pred_ok, pred = ctx_predict(gs, table)
        spec_ok, spec = ctx_predict(ms, table)
        # outside the hypotheses of impl_methods_equal_hand_copy_partial, decided by the proved model itself: the order of the
        # code and the hand-specialised copy observe different names (a deferred statement ran after the pop of its context:
        # known finding C11-impl-defer-after-context-pop).  There the twin is demanded to follow the copy, the interpreter the code.
        late = [x[2:] for x in gs] != [x[2:] for x in ms]
        if t[0] == 0 and t[1].strip():
            distinct.add(t[1])
        if late:
            late_progs += 1
            late_differs += 0 if verdict(g, t) else 1
        if not late and not verdict(g, t):
            twin_bad.append((cp, pr, g, t))
        elif not pred_ok or g[1] != pred:
            model_bad.append((cp, pr, g, pred, gs, late))
        elif t[0] == 0 and (not spec_ok or t[1] != spec):
            spec_bad.append((cp, pr, t, spec, ms))
    out["distinct"] = len(distinct)

    def shrink_ctx(pr):
        decls = [l for l in pr.main.split("\n") if re.match(r"\s*(Cell|Box|Duo)<", l)]

        def bad(p):
            if not all(d in p.main for d in decls):
                return False
            g, t = run_pair(impl_dir, p, timeout=10)
            return t[0] == 0 and not verdict(g, t)
        if "defer " in pr.generic_text():
            # deleting statements around a defer (the closing return, say) would drift into known finding
            # C11-impl-defer-after-context-pop: shrink the program without its defers, or not at all
            import copy
            q = copy.deepcopy(pr)
            for i in range(len(q.impls)):
                for j in range(len(q.impls[i][3])):
                    q.impls[i][3][j] = "\n".join(l for l in q.impls[i][3][j].split("\n") if not l.strip().startswith("defer "))
            for n_ in q.fn_order:
                tps, ret, params, body = q.fns[n_]
                q.fns[n_] = (tps, ret, params, "\n".join(l for l in body.split("\n") if not l.strip().startswith("defer ")))
            if not bad(q):
                return pr
            pr = q
        return shrink_program(pr, bad, budget=300)
    twin_bad.sort(key=lambda f: len(f[1].generic_text()))
    for cp, pr, g, t in twin_bad[:3]:
        small = shrink_ctx(pr) if t[0] == 0 else pr
        g2, t2 = run_pair(impl_dir, small, timeout=10)
        out["violations_with_input"] += 1
        rep.violation("twin-ctx", {"generic_program": small.generic_text(), "twin_program": small.twin_text(),
                                   "generic": {"rc": g2[0], "stdout": g2[1][-1500:], "stderr": g2[2][-500:]},
                                   "twin": {"rc": t2[0], "stdout": t2[1][-1500:], "stderr": t2[2][-500:]},
                                   "family": pr.meta["family"], "universe": pr.meta.get("universe"), "broken_theorem": proof_broken,
                                   "law": "impl_context_stack_discipline: every method body runs under the type context of the instance of its "
                                          "receiver, whoever calls it"},
                      "generic impl blocks: a method called across instantiations behaves unlike its hand-specialised copy (%s): generic rc=%d %r, "
                      "twin rc=%d %r" % (pr.meta["family"], g2[0], g2[1][-60:], t2[0], t2[1][-60:]))
    model_bad.sort(key=lambda f: len(f[1].generic_text()))
    for cp, pr, g, pred, gs, late in model_bad[:2]:
        if g[0] == 0:
            cp = shrink_ctx_model(cp, impl_dir, mbin, table)
            pr = cp.to_program()
            g = common.run_cb(impl_dir, pr.generic_text(), timeout=10)
            gs = ctx_groups(batch([mbin], [pr.ctx_request])[0])[0]
            pred = ctx_predict(gs, table)[1]
        gl, pl = g[1].split("\n"), pred.split("\n")
        first = next((i for i in range(max(len(gl), len(pl))) if (gl[i] if i < len(gl) else None) != (pl[i] if i < len(pl) else None)), -1)
        rep.violation("corr-ctx", {"request": pr.ctx_request, "program": pr.generic_text(), "model_flags": [x[:2] for x in gs],
                                   "first_difference_line": first, "size_table": {k_: table[k_] for k_ in sorted(table)[:60]},
                                   "impl_stdout": g[1][-1500:], "model_stdout": pred[-1500:], "impl_rc": g[0], "impl_stderr": g[2][-300:],
                                   "impl_line": gl[first] if 0 <= first < len(gl) else None, "model_line": pl[first] if 0 <= first < len(pl) else None,
                                   "deferred_statements_run_late": late,
                                   "broken": "correspondence Context.run = the type-context stack of the interpreter (carrier of impl_context_stack_discipline)"},
                      "the interpreter and the proved model of the type-context stack disagree on a generated impl-block program (%s): output line %d "
                      "is %r, the model says %r" % (
                          "with deferred statements that run after the pop of their method's context - the place of that pop is what differs"
                          if late else "its twin agrees with the interpreter", first + 1,
                          gl[first] if 0 <= first < len(gl) else None, pl[first] if 0 <= first < len(pl) else None), no_failing_input=True)
    for cp, pr, t, spec, ms in spec_bad[:2]:
        rep.violation("corr-ctx-spec", {"request": pr.ctx_request, "twin_program": pr.twin_text(), "twin_stdout": t[1][-1500:],
                                        "spec_stdout": spec[-1500:],
                                        "broken": "Context.run_mono false (the Spec of impl_methods_equal_hand_copy_partial) = the monomorphised twin"},
                      "the hand-monomorphised twin of a generated impl-block program and the proved model's hand-specialised copy (run_mono) disagree",
                      no_failing_input=True)
    out["coverage"] = {"programs": len(prs), "calls_from_main": calls, "observations": cross_obs, "size_table": len(table),
                       "resolved_names": len(names), "twin_disagreements": len(twin_bad), "model_disagreements": len(model_bad),
                       "spec_disagreements": len(spec_bad), "method_return_kinds": ret_hist, "defer_statements": defer_acts,
                       "programs_with_late_defers": late_progs, "late_defer_programs_differing_from_twin": late_differs,
                       "sample_request": prs[0].ctx_request[:400], "sample_model": mo[0][:200]}
    return out


def run(rep):
    import time as _time
    _t0 = [_time.time()]

    def lap(what):
        common.log("[c11] %-28s %.1fs" % (what, _time.time() - _t0[0]))
        _t0[0] = _time.time()
    seed, tier = rep.seed, rep.tier
    quick = tier == "quick"
    # ---- (1) tables regenerated from the current C++ text
    status, msg, tab = clone_fields.regenerate(common.REPO, common.COQ)
    rep.coverage["translator"] = {"status": status, "message": msg, "table": clone_fields.summary(tab) if tab else None}
    if status == "stale":
        rep.notes.append("translator: stale (%s); table theorems speak about the last generated table, correspondence alone ties the code" % msg)
    pinned = pinned_lists()
    new_missing = []
    if tab:
        rec = set(pinned.get("recorded_missing_ptr", []) + pinned.get("recorded_missing_vec", []) +
                  pinned.get("recorded_missing_indirect", []))
        cur = tab["missing"]["ptr"] + tab["missing"]["vec"] + tab["missing"]["indirect"]
        new_missing = [f for f in cur if f not in rec]
        fixed = sorted(rec - set(cur))
        if fixed:
            rep.notes.append("clone_ast_node now copies recorded-missing children %s (finding C11-clone-incomplete partly repaired)" % fixed)
        rep.coverage["clone_missing_children_now"] = cur
        rep.coverage["clone_missing_children_new"] = new_missing
    # ---- (2) proofs
    cq = common.coq_check_props(PROP)
    common.proof_coverage(rep, cq)
    proof_broken = None
    if not cq["ok"]:
        proof_broken = cq["failed_theorem"] or "a lemma the theorems depend on"
        m = re.search(r'File "\./(C11/\w+\.v)", line (\d+)', cq["log"])
        if m and not m.group(1).endswith("Properties_C11.v"):
            try:
                src = open(os.path.join(common.COQ, m.group(1))).read().split("\n")[:int(m.group(2))]
                names = [mm.group(1) for l in src for mm in [re.match(r"\s*(?:Lemma|Theorem)\s+([A-Za-z0-9_']+)", l)] if mm]
                if names:
                    proof_broken = re.sub(r"_l$", "", names[-1]) + " (lemma %s in %s)" % (names[-1], m.group(1))
            except OSError:
                pass
    common.ensure_model(PROP)
    leaf = private_leaf()
    try:
        _run_body(rep, seed, tier, quick, lap, cq, proof_broken, new_missing, pinned, leaf)
    finally:
        try:
            os.unlink(leaf)
        except OSError:
            pass


def _run_body(rep, seed, tier, quick, lap, cq, proof_broken, new_missing, pinned, leaf):
    impl_dir = common.build_impl("plain")
    d = batch([leaf], ["DEFAULTS"])[0].split()[1:]
    defaults = {d[i]: dec(d[i + 1]) for i in range(0, len(d), 2)}
    defaults.update(ARM_DEFAULTS)
    mbin = common.model_bin(PROP)
    violations_with_input = 0
    lap("proofs+builds")

    # ---- (3) A: synthetic trees + exhaustive small scope of names, model vs repository code
    n_tree = 6000 if quick else 60000
    scope = 4 if quick else 5
    reqs = []
    corpus = os.path.join(common.VERIF, "corpus", "c11.json")
    if os.path.exists(corpus):
        for c in json.load(open(corpus)):
            if "request" in c:
                reqs.append(("corpus", c["request"]))
    seeds = [seed] if quick else [seed, seed * 1000 + 1, seed * 1000 + 2]
    for sd in seeds:
        reqs += tree_requests(sd, n_tree // len(seeds), tier)
    for sd in seeds:
        reqs += resolve_requests(sd, (1500 if quick else 15000) // len(seeds), 0)
    n_scope0 = len(reqs)
    reqs += name_scope_requests(scope)
    reqs += resolve_requests(seed, 0, scope)
    lines = [r for _, r in reqs]
    mo = batch([mbin], lines)
    io = batch([leaf], lines)
    hist = {}
    nontrivial = set()
    bad_tree = []
    for (kind, r), m, i in zip(reqs, mo, io):
        hist["tree-" + kind] = hist.get("tree-" + kind, 0) + 1
        if not compare_lines(kind, r, m, i, defaults):
            bad_tree.append((kind, r, m, i))
        elif kind == "resolve":
            if m.startswith("R ") and m[2:] != r.split()[-1]:
                nontrivial.add(r)
        elif m.startswith(("T ", "K ")):
            # non-trivial: the answer differs from the input tree (something was dropped or rewritten)
            if kind == "key" or m[2:].split() != r[r.index("( "):].split():
                nontrivial.add(r)
    tree_samples = [{"request": reqs[5][1][:300], "model": mo[5][:300], "impl": io[5][:300]},
                    {"request": reqs[n_scope0 + 700][1][:300], "model": mo[n_scope0 + 700][:300], "impl": io[n_scope0 + 700][:300]}]

    def tree_differs(req):
        m = batch([mbin], [req])[0]
        i = batch([leaf], [req])[0]
        return not compare_lines("x", req, m, i, defaults)
    key_collision = None
    if any(kind == "key" for kind, _, _, _ in bad_tree):
        # turn a cache-key disagreement into its consequence: two different tuples with one key
        cands = [("f", ["int", "long"]), ("f", ["int", "string"]), ("f", ["long", "int"]), ("f", ["int"]), ("g", ["int", "long"]),
                 ("f", ["long", "long"])]
        ks = batch([leaf], ["KEY %s %d %s" % (enc(f), len(a), " ".join(enc(x) for x in a)) for f, a in cands])
        for (c1, k1), (c2, k2) in itertools.combinations(zip(cands, ks), 2):
            if k1 == k2:
                key_collision = "%s<%s> and %s<%s> get the same cache key %s" % (c1[0], ",".join(c1[1]), c2[0], ",".join(c2[1]), dec(k1[2:]))
                break
    for kind, r, m, i in bad_tree[:3]:
        small = shrink_tree_request(r, tree_differs) if kind in ("inst", "clone", "subst", "name", "corpus") else r
        m2, i2 = batch([mbin], [small])[0], batch([leaf], [small])[0]
        rep.violation("corr-tree", {"request": small, "model": m2, "impl": i2, "origin": kind,
                                    "broken": "correspondence Model.{instantiate,clone,subst_node,generate_cache_key} = generic_instantiation.cpp "
                                              "(carrier of every C11 theorem)"},
                      ("TypeContext::resolve_complex_type (ast.h) and the proved model disagree on a %s request (%d tokens)%s" if kind == "resolve" else
                       "generic_instantiation.cpp and the proved model disagree on a %s request (%d tokens)%s") % (
                          kind, len(small.split()),
                          ("; " + key_collision + " (instances are shared as soon as the cache in call_impl.cpp is switched on; while it is "
                           "off no program shows it)") if kind == "key" and key_collision else ""),
                      no_failing_input=True)
    rep.coverage["tree_disagreements"] = len(bad_tree)
    lap("A synthetic trees")

    # ---- (4) B: programs
    progs = []
    kinds_js = 1 if quick else 3
    for kind in ALL_KINDS:
        for j in range(kinds_js):
            progs.append(gen_kind_program(seed, kind, "fn", j))
            if kind in IMPL_KINDS:
                progs.append(gen_kind_program(seed, kind, "impl", j))
    pairs = [(x, y) for x in ALL_TYPES for y in ALL_TYPES if x != y]
    if quick:
        prng = rng_for(seed, "c11-pairs")
        pairs = prng.sample(pairs, 20)
    for x, y in pairs:
        progs.append(gen_tuple_program(x, y))
    n_rand = 420 if quick else 6000
    for sd in seeds:
        for k in range(n_rand // len(seeds)):
            progs.append(gen_program(sd, k))

    lap("program generation")
    # corpus: the minimised inputs of repaired findings stay in every run (demanded)
    if os.path.exists(corpus):
        for c in json.load(open(corpus)):
            if "generic" in c:
                g = common.run_cb(impl_dir, c["generic"], timeout=6)
                t = common.run_cb(impl_dir, c["twin"], timeout=6)
                hist["corpus-programs"] = hist.get("corpus-programs", 0) + 1
                if (g[0], g[1]) != (t[0], t[1]):
                    violations_with_input += 1
                    rep.violation("corpus", {"id": c.get("id"), "generic_program": c["generic"], "twin_program": c["twin"],
                                             "generic": {"rc": g[0], "stdout": g[1][-800:], "stderr": g[2][-300:]},
                                             "twin": {"rc": t[0], "stdout": t[1][-800:]}, "fixed_by": c.get("fixed_by")},
                                  "%s %s: generic rc=%d %r, twin rc=%d %r" % (
                                      "repaired finding" if c.get("fixed_by") else "corpus program", c.get("id") +
                                      (" is back" if c.get("fixed_by") else " differs from its hand-specialised twin (%s)" % c.get("note", "")),
                                      g[0], (g[1] or g[2])[-80:], t[0], t[1][-80:]))
    # A1 + classification on the parser's ASTs of every generic function instance
    tmpd = tempfile.mkdtemp(prefix="cbverif-c11-", dir=common.SCRATCH_ROOT)
    real_inst = real_bad = 0
    real_bad_cases = []
    outside = {}
    kind_bucket = {}
    L = Proc([leaf])
    M = Proc([mbin])
    try:
        for idx, pr in enumerate(progs):
            pr.why = []
            if not pr.fn_order:
                continue
            specs = fn_specs(pr)
            path = os.path.join(tmpd, "g%d.cb" % idx)
            with open(path, "w") as fh:
                fh.write(pr.generic_text())
            req = "PARSE %s %d %s" % (enc(path), len(specs), " ".join(
                "%s %d %s" % (enc(n), len(a), " ".join(enc(x) for x in a)) for n, a in specs))
            out = L.ask_multi(req)
            if out and out[-1].startswith("X "):
                pr.why = ["parse:" + dec(out[-1][2:])[:60]]
                continue
            tuples = {}
            for n, a in specs:
                tuples.setdefault(n, set()).add(a)
            fn_names = set(re.findall(r"\b(\w+)\s*\(", pr.plain)) | set(pr.fns)
            for (n, a), i in zip(specs, range(0, len(out), 2)):
                o, t = out[i], out[i + 1]
                inst_req = "INST %d %s %s" % (len(a), " ".join(enc(x) for x in a), o[2:])
                mres = M.ask(inst_req)
                real_inst += 1
                if not compare_lines("inst", inst_req, mres, t, defaults):
                    real_bad += 1
                    real_bad_cases.append((inst_req, mres, t, pr))
                tm = tree_of_line(mres[2:]) if mres.startswith("T ") else None
                pr.why += classify_instance(tree_of_line(o[2:]), tm, pr.fns[n][0], list(a), pinned, len(tuples[n]) > 1, fn_names)
    finally:
        L.close()
        M.close()
        shutil.rmtree(tmpd, ignore_errors=True)
    hist["real-ast-instantiations"] = real_inst
    for inst_req, mres, t, pr in real_bad_cases[:2]:
        small = shrink_tree_request(inst_req, tree_differs)
        rep.violation("corr-real-ast", {"request": small, "model": batch([mbin], [small])[0], "impl": batch([leaf], [small])[0],
                                        "program": pr.generic_text(),
                                        "broken": "correspondence Model.instantiate = instantiate_generic_function on the parser's AST"},
                      "instantiate_generic_function and the proved model disagree on the AST of a generated generic function",
                      no_failing_input=True)

    lap("A real ASTs + classification")
    # which programs are demanded to agree with their twin
    demanded = [pr for pr in progs if not pr.why]
    skipped = [pr for pr in progs if pr.why]
    def reason_key(x):
        if x.startswith("unrewritten"):
            return x.split("=")[0]
        parts = x.split(":")
        return parts[0] if len(parts) == 1 else parts[0] + ":" + parts[1].split(",")[0]
    for pr in skipped:
        for w in sorted(set(reason_key(x) for x in pr.why)):
            outside[w] = outside.get(w, 0) + 1
    for pr in progs:
        if "kind" in pr.meta:
            kind_bucket.setdefault(pr.meta["family"] + "/" + pr.meta["kind"], []).append("demanded" if not pr.why else pr.why[0][:50])

    results = common.pmap(lambda pr: run_pair(impl_dir, pr), demanded)
    fam_hist, failures, known_main = {}, [], {}
    distinct = set()
    for pr, (g, t) in zip(demanded, results):
        fam = pr.meta["family"]
        fam_hist[fam] = fam_hist.get(fam, 0) + 1
        if t[0] == 0 and t[1].strip():
            distinct.add(t[1])
        if verdict(g, t):
            continue
        sig = known_signature(pr, g, t)
        if sig:
            known_main[sig] = known_main.get(sig, 0) + 1
            continue
        failures.append((pr, g, t))
    lap("B twin runs")
    # a sample of the programs outside the hypotheses (never demanded; those with a dropped for-update hang)
    sample = [pr for pr in skipped if not any("update_expr" in w for w in pr.why)][:24 if quick else 120]
    sres = common.pmap(lambda pr: run_pair(impl_dir, pr, timeout=4), sample)
    outside_diff = sum(1 for (g, t) in sres if not verdict(g, t))

    lap("outside sample")

    def bad(p):
        g, t = run_pair(impl_dir, p)
        return t[0] == 0 and not verdict(g, t)
    failures.sort(key=lambda f: len(f[0].generic_text()))
    for pr, g, t in failures[:4]:
        small = shrink_program(pr, bad) if t[0] == 0 else pr
        g2, t2 = run_pair(impl_dir, small)
        violations_with_input += 1
        rep.violation("twin", {"generic_program": small.generic_text(), "twin_program": small.twin_text(),
                               "generic": {"rc": g2[0], "stdout": g2[1][-1500:], "stderr": g2[2][-500:]},
                               "twin": {"rc": t2[0], "stdout": t2[1][-1500:], "stderr": t2[2][-500:]},
                               "family": pr.meta["family"], "kinds": pr.meta.get("kinds"),
                               "broken_theorem": proof_broken, "new_missing_children": new_missing},
                      "generic program and its hand-monomorphised twin differ (%s): generic rc=%d %r, twin rc=%d %r" % (
                          pr.meta["family"], g2[0], g2[1][-80:], t2[0], t2[1][-80:]))
    if proof_broken is not None:
        rep.violation("proof", {"theorem": proof_broken, "log": cq["log"][-3000:], "translator": rep.coverage["translator"],
                                "new_missing_children": new_missing},
                      "proof obligation %s no longer checks%s" % (
                          proof_broken, (" (clone_ast_node newly fails to copy %s)" % new_missing) if new_missing else ""),
                      no_failing_input=(violations_with_input == 0))

    # ---- (4c) C: the run-time type context of generic impl blocks (cross-instantiation calls)
    ctx = run_ctx_stage(rep, seed, seeds, quick, impl_dir, mbin, hist, proof_broken)
    violations_with_input += ctx["violations_with_input"]
    lap("C type-context programs")

    # ---- (5) known findings: replay each stored input
    for f in common.known_findings(PROP):
        r = f["replay"]
        g = common.run_cb(impl_dir, r["generic"], timeout=6)
        t = common.run_cb(impl_dir, r["twin"], timeout=6)
        if (g[0], g[1]) != (t[0], t[1]):
            rep.known(f["id"], f["what_fails"])
        else:
            rep.notes.append("known finding %s no longer reproduces (fixed?)" % f["id"])
    for sig, cnt in known_main.items():
        rep.notes.append("%d main-stream programs matched the signature of known finding %s" % (cnt, sig))

    if not quick and cq["ok"]:
        with common.Lock("coq"):
            rc, o, e = common.sh(["coqchk", "-silent", "-o", "-Q", ".", "Cb", "Cb.C11.Properties_C11"], cwd=common.COQ, timeout=1200)
        m = re.search(r"\* Axioms:\s*(.*?)\n\s*\n", o + "\n" + e + "\n\n", re.S)
        rep.coverage["coqchk"] = {"rc": rc, "axioms": (m.group(1).strip() if m else "?")}
        if rc != 0:
            rep.violation("coqchk", {"log": (o + e)[-2000:]}, "coqchk rejects the compiled closure of Properties_C11", True)
        lap("coqchk")
    hist.update({"prog-" + k: v for k, v in fam_hist.items()})
    rep.coverage.update({
        "evaluations": len(reqs) + real_inst + 2 * len(demanded) + 2 * len(sample) + 3 * ctx["programs"],
        "distinct_nontrivial": len(nontrivial) + len(distinct) + ctx["distinct"],
        "rule": "A: extracted Coq model vs the repository's generic_instantiation.cpp (+RecursiveParser) on the same requests: "
                "instantiate/clone/substitute/cache-key on random trees, on every string over {T < > , space _ a} up to length %d as a type "
                "name, and on the parser's AST of every generated generic function instance; non-trivial = the answer differs from the input "
                "tree. B: generic program vs its mechanically monomorphised twin on main (exit status + stdout equal), demanded for every "
                "program whose generic functions use no recorded-missing member; distinct = distinct twin outputs. C: call skeletons over "
                "generic impl blocks (methods of one instantiation calling methods on receivers of other instantiations of the same block, of "
                "other blocks, through generic functions, nested, with early returns, methods of every return kind, deferred statements): the "
                "extracted Context.run trace (resolved type names, mapped through a size table measured from main) = the generic program, the "
                "extracted Context.run_mono false trace = its twin, generic = twin whenever the two traces agree (they differ exactly on known "
                "finding C11-impl-defer-after-context-pop); TypeContext::"
                "resolve_complex_type of ast.h vs the model on random names and on every string over {T < > , space * [ a} up to length %d" % (scope, scope),
        "exhaustive": True,
        "exhaustive_space": "type-name strings over a 7-letter alphabet up to length %d (%d), as type_name and sizeof_type_name; "
                            "every statement kind x {generic fn, generic impl}; %s ordered type pairs" % (
                                scope, len(reqs) - n_scope0, "all 56" if not quick else "20 of 56"),
        "input_distribution": hist,
        "programs_demanded": len(demanded), "programs_outside_hypotheses": len(skipped), "outside_reasons": outside,
        "outside_sample_run": len(sample), "outside_sample_differs_from_twin": outside_diff,
        "kind_coverage": kind_bucket,
        "real_ast_instantiations": real_inst, "real_ast_disagreements": real_bad,
        "twin_disagreements": len(failures), "known_signature_hits": known_main,
        "type_context": ctx["coverage"],
        "samples": tree_samples + [{"generic": demanded[0].generic_text()[-600:], "twin_stdout": results[0][1][1][-200:]}],
    })
    rep.assumptions += [
        "the interpreter's execution of the instantiated AST is not modelled: that the uncopied scalar members %s do not matter is tied by the "
        "twin runs only" % sorted(HARMLESS_SCALARS),
        "generic impl blocks: the model of the type-context stack sees a method body as its context-relevant statements; what an observation prints is "
        "the size of the resolved name, measured from main on the same binary; constructors/destructors and sizeof_type/array_get/array_set are outside the model",
        "generated impl-block programs avoid the recorded findings: parameters spelled over T (Cell<T> o), locals over T other than the block's own "
        "spelling, default constructors, constructor/destructor impls with parameters not called T, impl statics; late deferred statements are NOT "
        "avoided: such programs are demanded to follow the model (order of the code), their twins the model's hand-specialised copy",
        "deferred statements are `defer println(sizeof(ty));` at the top level of a method body over bare parameters / concrete types; defers inside "
        "nested blocks, deferred calls and destructors of locals (call_destructor pushes a context of its own) are outside the model",
        "parse_type_from_string is modelled with an empty typedef registry (generated programs contain no typedef)",
        "the monomorphiser that writes the twin (textual substitution of the type parameters, name mangling) is the property's oracle and is trusted",
        "generated programs avoid `ident <` comparisons and `(type)(ident)` casts (parser findings #36/#37 of C02/C10), string payloads in generic enums (C13)",
    ]


def replay(path):
    data = json.load(open(path))
    c = data["case"]
    if "generic_program" in c:
        impl_dir = common.build_impl("plain")
        g = common.run_cb(impl_dir, c["generic_program"], timeout=6)
        t = common.run_cb(impl_dir, c["twin_program"], timeout=6)
        print("generic: rc=%d stdout=%r stderr=%r" % (g[0], g[1][-400:], g[2][-200:]))
        print("twin:    rc=%d stdout=%r stderr=%r" % (t[0], t[1][-400:], t[2][-200:]))
        return 0 if (g[0], g[1]) == (t[0], t[1]) else 1
    if "request" in c and c["request"].startswith("CTX ") and "program" in c:
        # model of the type-context stack vs the interpreter on a call skeleton
        common.ensure_model(PROP)
        impl_dir = common.build_impl("plain")
        gs, ms = ctx_groups(batch([common.model_bin(PROP)], [c["request"]])[0])
        names = sorted({dec(y) for x in gs for y in x[2:] if not dec(y).startswith("#")})
        table = ctx_size_table(impl_dir, names)
        ok, pred = ctx_predict(gs, table)
        g = common.run_cb(impl_dir, c["program"], timeout=10)
        print("model: %r" % pred[-600:])
        print("impl:  rc=%d stdout=%r stderr=%r" % (g[0], g[1][-600:], g[2][-200:]))
        return 0 if ok and g[0] == 0 and g[1] == pred else 1
    if "request" in c:
        common.ensure_model(PROP)
        leaf = private_leaf()
        try:
            d = batch([leaf], ["DEFAULTS"])[0].split()[1:]
            defaults = {d[i]: dec(d[i + 1]) for i in range(0, len(d), 2)}
            defaults.update(ARM_DEFAULTS)
            m = batch([common.model_bin(PROP)], [c["request"]])[0]
            i = batch([leaf], [c["request"]])[0]
        finally:
            os.unlink(leaf)
        print("model:", m[:1500])
        print("impl: ", i[:1500])
        return 0 if compare_lines("x", c["request"], m, i, defaults) else 1
    print(json.dumps(c, indent=1)[:3000])
    return 1
