"""C14 - each async task runs its body once, in order; await returns exactly its result.

Theorems: coq/C14/Properties_C14.v (resumable executor = sequential run for every body whose yields and
loops sit at top level, every step count; index monotone; positions empty between steps in the fragment;
await data path delivers int/string/struct/Option/Result unchanged; refutations for the nested shapes).
Tie: generated task sets are printed as Cb programs and as S-expressions; the real interpreter is run
with CB_VERIF_SCHED_TRACE=1, stdout unbuffered and merged with the trace, so every println is attributed
to the task step that produced it; the per-task step sequences (exec index, printed lines, yield/return
event) and the awaited values must equal those of the extracted Mech model; Spec (body run alone) is the
property's oracle that classifies a disagreement.
"""
import itertools
import json
import os
import re
import shutil
import sys

import common
from common import rng_for

PROP = "C14"
LEVEL = "proof"
META = {
    "category": "proof",
    "technique": "Coq refinement proof (resumable executor = sequential run on the top-level fragment, any step count) and trace invariant by induction over step grants (statements entered once, in index order, for every body) + extracted-model "
                 "differential run against main with the scheduler trace",
    "text": "Machine-checked theorems about a function-by-function Gallina model of execute_one_step / execute_compound_statement / "
            "execute_if|while|for_statement with statement_positions, YieldException.is_from_loop, current_statement_index, auto_yield and "
            "the task-scope copy: for every body whose yields and loops sit at the top level of the body (loop bodies and branches free of "
            "yields and loops, except one trailing yield in a while body; loop variables are not parameters), every argument list, every await oracle and every number of step grants, the "
            "concatenated step outputs, the result and the locals equal the body run alone; the statement index never decreases and moves "
            "by at most one; the resume table is empty between steps; the await data path returns int/long/bool, string and struct/Option/"
            "Result values unchanged. The general law is refuted on the faithful model by four witnesses (yield in a block, yield in a loop "
            "body, loop in a branch, nested loops) and the enum data path by a fifth (the reused-loop-variable defect was repaired in /repo, "
            "fix 4fa4431, and the model mirrors the repair); all are confirmed on the binary "
            "and recorded as known findings. The model is tied to the code on every run: generated task sets (1-4 roots, nested awaits, "
            "yields/awaits/returns at every position of nested blocks, branches and loops, exhaustive small skeletons + random) are run on "
            "the real interpreter with the scheduler trace, and every task's step sequence and every awaited value must equal the extracted model.",
    "note": "Trusted: Coq kernel (vm_compute only for the refutation witnesses and examples), no axioms (Print Assumptions: closed); extraction "
            "via ExtrOcamlBasic+ExtrOcamlString; hand-written model; scheduler (which task gets the next step) is C15's and is not modelled "
            "here - tasks are attributed through the trace; isolation between tasks (dynamic scoping) is tested, not proved; "
            "acyclic_awaits_terminate is not proved (tested: every generated program terminates with all awaited tasks complete); "
            "stdbuf (coreutils) is used to unbuffer stdout.",
}

NPARAM = 3
FUEL = 40
MAXSTEPS = 300

# ------------------------------------------------------------------ AST helpers (tuples)
# expr: ("c", z) ("v", x) ("+", a, b) ("-", a, b) ("<", a, b) ("=", a, b)
# stmt: ("emit", k, e) ("set", x, e) ("await", x, c, e) ("yield",) ("ret", e) ("blk", [s]) ("if", e, [s], [s])
#       ("while", e, [s]) ("for", x, i, c, u, [s])


def sx_expr(e):
    if e[0] in ("c", "v"):
        return "(%s %d)" % (e[0], e[1])
    return "(%s %s %s)" % (e[0], sx_expr(e[1]), sx_expr(e[2]))


def sx_stmt(s):
    k = s[0]
    if k == "emit":
        return "(emit %d %s)" % (s[1], sx_expr(s[2]))
    if k == "set":
        return "(set %d %s)" % (s[1], sx_expr(s[2]))
    if k == "await":
        return "(await %d %d %s)" % (s[1], s[2], sx_expr(s[3]))
    if k == "yield":
        return "(yield)"
    if k == "ret":
        return "(ret %s)" % sx_expr(s[1])
    if k == "blk":
        return "(blk %s)" % " ".join(map(sx_stmt, s[1]))
    if k == "if":
        return "(if %s (%s) (%s))" % (sx_expr(s[1]), " ".join(map(sx_stmt, s[2])), " ".join(map(sx_stmt, s[3])))
    if k == "while":
        return "(while %s (%s))" % (sx_expr(s[1]), " ".join(map(sx_stmt, s[2])))
    if k == "for":
        return "(for %d %s %s %s (%s))" % (s[1], sx_expr(s[2]), sx_expr(s[3]), sx_expr(s[4]), " ".join(map(sx_stmt, s[5])))
    raise ValueError(s)


def sx_case(case):
    return "(case %d %d (defs %s) (roots %s))" % (
        FUEL, MAXSTEPS, " ".join("(def %s)" % " ".join(map(sx_stmt, d)) for d in case["defs"]),
        " ".join("(%d %s)" % (r[0], " ".join(map(str, r[1]))) for r in case["roots"]))


def vname(x):
    return "v%d" % x if x < 100 else "i%d" % x


def cb_expr(e, top=True):
    if e[0] == "c":
        return str(e[1]) if e[1] >= 0 else "(0 - %d)" % (-e[1])
    if e[0] == "v":
        return vname(e[1])
    op = {"+": "+", "-": "-", "<": "<", "=": "=="}[e[0]]
    s = "%s %s %s" % (cb_expr(e[1], False), op, cb_expr(e[2], False))
    return s if top else "(" + s + ")"


def cb_block(ss, d, ind):
    return "".join(cb_stmt(s, d, ind) for s in ss)


def cb_stmt(s, d, ind):
    p = "    " * ind
    k = s[0]
    if k == "emit":
        return '%sprintln("T%d", tk, %d, %s);\n' % (p, d, s[1], cb_expr(s[2]))
    if k == "set":
        return "%s%s = %s;\n" % (p, vname(s[1]), cb_expr(s[2]))
    if k == "await":
        return "%s%s = await t%d(tk, %s, 0, 0);\n" % (p, vname(s[1]), s[2], cb_expr(s[3]))
    if k == "yield":
        return p + "yield;\n"
    if k == "ret":
        return "%sreturn %s;\n" % (p, cb_expr(s[1]))
    if k == "blk":
        return "%s{\n%s%s}\n" % (p, cb_block(s[1], d, ind + 1), p)
    if k == "if":
        r = "%sif (%s) {\n%s%s}" % (p, cb_expr(s[1]), cb_block(s[2], d, ind + 1), p)
        if s[3]:
            r += " else {\n%s%s}" % (cb_block(s[3], d, ind + 1), p)
        return r + "\n"
    if k == "while":
        return "%swhile (%s) {\n%s%s}\n" % (p, cb_expr(s[1]), cb_block(s[2], d, ind + 1), p)
    if k == "for":
        x = vname(s[1])
        return "%sfor (int %s = %s; %s; %s = %s) {\n%s%s}\n" % (
            p, x, cb_expr(s[2]), cb_expr(s[3]), x, cb_expr(s[4]), cb_block(s[5], d, ind + 1), p)
    raise ValueError(s)


def cb_program(case):
    out = []
    for d, body in enumerate(case["defs"]):
        out.append("async int t%d(int tk, int v0, int v1, int v2) {\n%s}\n" % (d, cb_block(body, d, 1)))
    m = ["void main() {\n"]
    for i, (d, args) in enumerate(case["roots"]):
        m.append("    Future<int> f%d = t%d(%d, %s);\n" % (i, d, i + 1, ", ".join(map(str, args))))
    n = 0
    for i in case["awaits"]:
        m.append("    int r%d = await f%d;\n    println(\"R\", %d, r%d);\n" % (n, i, i, n))
        n += 1
    m.append("}\n")
    return "".join(out) + "".join(m)


# ------------------------------------------------------------------ shape predicates (known findings)
def walk(ss, inloop=False, inblock=False):
    """yield (stmt, inloop, inblock, is_last_of_loop_body) for every statement, pre-order"""
    for s in ss:
        yield s, inloop, inblock
        k = s[0]
        if k == "blk":
            yield from walk(s[1], inloop, True)
        elif k == "if":
            yield from walk(s[2], inloop, True)
            yield from walk(s[3], inloop, True)
        elif k == "while":
            yield from walk(s[2], True, True)
        elif k == "for":
            yield from walk(s[5], True, True)


def contains(ss, kinds):
    return any(s[0] in kinds for s, _, _ in walk(ss))


def shape_flags(body):
    """Which known-defect shapes a body has (syntactic; see known_findings/C14.json)."""
    fl = set()
    for s in body:
        k = s[0]
        if k in ("blk", "if"):
            subs = [s[1]] if k == "blk" else [s[2], s[3]]
            for b in subs:
                if contains(b, ("yield",)):
                    fl.add("yield-in-block")
                if contains(b, ("while", "for")):
                    fl.add("loop-in-branch")
        elif k in ("while", "for"):
            b = s[2] if k == "while" else s[5]
            if contains(b, ("yield",)):
                fl.add("yield-in-loop")
            if contains(b, ("while", "for")):
                fl.add("nested-loop")
    return fl


# ------------------------------------------------------------------ generators
def gen_expr(rng, vars_, small=True):
    r = rng.random()
    if r < 0.35:
        return ("v", rng.choice(vars_))
    if r < 0.55:
        return ("c", rng.randint(0, 5))
    a = ("v", rng.choice(vars_))
    b = ("c", rng.randint(0, 3)) if rng.random() < 0.7 else ("v", rng.choice(vars_))
    return (rng.choice(["+", "-", "+"]), a, b)


def gen_cond(rng, vars_):
    a = ("v", rng.choice(vars_))
    if rng.random() < 0.6:
        return ("<", a, ("c", rng.randint(0, 4))) if rng.random() < 0.5 else ("<", ("c", rng.randint(0, 3)), a)
    return ("=", a, ("c", rng.randint(0, 3)))


class Gen:
    def __init__(self, rng, d, ndefs_below, p_yield=0.2, p_await=0.12, fragment=False):
        self.rng, self.d, self.below = rng, d, ndefs_below
        self.k = 0
        self.nfor = 0
        self.p_yield, self.p_await, self.fragment = p_yield, p_await, fragment
        self.reuse_for = rng.random() < 0.3          # consecutive `for (int i ...)` loops over one name

    def emit(self, vars_):
        self.k += 1
        return ("emit", self.k - 1, gen_expr(self.rng, vars_))

    def simple(self, vars_, allow_yield=True, allow_ret=True):
        rng = self.rng
        r = rng.random()
        if allow_yield and r < self.p_yield:
            return ("yield",)
        r = rng.random()
        if self.below > 0 and r < self.p_await:
            return ("await", rng.randrange(NPARAM), rng.randrange(self.below), gen_expr(rng, vars_))
        if r < 0.55:
            return self.emit(vars_)
        if allow_ret and r < 0.60:
            return ("ret", gen_expr(rng, vars_))
        return ("set", rng.randrange(NPARAM), gen_expr(rng, vars_))

    def block(self, vars_, depth, maxlen, allow_yield, allow_loop):
        n = self.rng.randint(1, maxlen)
        return [self.stmt(vars_, depth, allow_yield, allow_loop) for _ in range(n)]

    def loop(self, vars_, depth, allow_yield, allow_loop):
        rng = self.rng
        inner_yield = allow_yield and not self.fragment
        inner_loop = allow_loop and not self.fragment
        if rng.random() < 0.5:
            # while over a parameter that the body decrements first (terminates when run alone)
            x = rng.randrange(NPARAM)
            body = [("set", x, ("-", ("v", x), ("c", 1)))] + self.block(vars_, depth + 1, 3, inner_yield, inner_loop)
            if rng.random() < 0.2:
                rng.shuffle(body)
            if self.fragment and rng.random() < 0.4:
                body.append(("yield",))          # the idiom while (c) { ...; yield; } (inside the proved fragment)
            return ("while", ("<", ("c", 0), ("v", x)), body)
        if self.reuse_for and self.nfor > 0:
            x = 100
        else:
            x = 100 + self.nfor
        self.nfor += 1
        body = self.block(vars_ + [x], depth + 1, 3, inner_yield, inner_loop)
        body = [s for s in body if not (s[0] == "set" and s[1] == x)]
        if not body:
            body = [self.emit(vars_ + [x])]
        return ("for", x, ("c", rng.randint(0, 1)), ("<", ("v", x), ("c", rng.randint(1, 3))),
                ("+", ("v", x), ("c", 1)), body)

    def stmt(self, vars_, depth, allow_yield=True, allow_loop=True):
        rng = self.rng
        r = rng.random()
        if depth >= 3 or r < 0.55:
            return self.simple(vars_, allow_yield)
        nested_yield = allow_yield and not self.fragment
        nested_loop = allow_loop and not self.fragment
        if r < 0.70:
            t = self.block(vars_, depth + 1, 3, nested_yield, nested_loop)
            e = self.block(vars_, depth + 1, 2, nested_yield, nested_loop) if rng.random() < 0.4 else []
            return ("if", gen_cond(rng, vars_), t, e)
        if r < 0.78:
            return ("blk", self.block(vars_, depth + 1, 3, nested_yield, nested_loop))
        if allow_loop and (depth == 0 or not self.fragment):
            return self.loop(vars_, depth, allow_yield, allow_loop)
        return self.simple(vars_, allow_yield)

    def body(self, maxlen):
        n = self.rng.randint(1, maxlen)
        vars_ = list(range(NPARAM))
        ss = [self.stmt(vars_, 0) for _ in range(n)]
        if self.rng.random() < 0.7:
            ss.append(("ret", gen_expr(self.rng, vars_)))
        return ss


def gen_case(rng, maxlen=5, fragment=False):
    nd = rng.randint(1, 4)
    defs = []
    for d in range(nd):
        g = Gen(rng, d, d, p_yield=rng.choice([0.1, 0.2, 0.35]), p_await=rng.choice([0.0, 0.12, 0.25]), fragment=fragment)
        defs.append(g.body(maxlen if d == nd - 1 or rng.random() < 0.5 else 3))
    nr = rng.randint(1, 4)
    roots = []
    for _ in range(nr):
        d = rng.randrange(nd) if rng.random() < 0.5 else nd - 1
        roots.append((d, [rng.randint(0, 3) for _ in range(NPARAM)]))
    awaits = list(range(nr))
    rng.shuffle(awaits)
    if rng.random() < 0.3:
        awaits.append(rng.choice(awaits))       # awaited again, long after completion
    return {"defs": defs, "roots": roots, "awaits": awaits}


# exhaustive small skeletons: every placement of yield / await / emit / return in nested positions
def skeleton_symbols(with_child):
    inner_atoms = ["E", "Y"] + (["A"] if with_child else [])
    inners = [[]] + [[a] for a in inner_atoms] + [[a, b] for a in inner_atoms for b in inner_atoms]
    syms = [("E",), ("Y",), ("R",)] + ([("A",)] if with_child else [])
    for inn in inners:
        if inn:
            syms.append(("IF", inn))
            syms.append(("ELSE", inn))
            syms.append(("BLK", inn))
        syms.append(("WH", inn))
        syms.append(("FOR", inn))
    return syms


def build_skeleton(seq, d, child):
    """Turn a sequence of skeleton symbols into a body. v0 = emitted counter, v1 = while counter."""
    k = [0]
    nfor = [0]

    def atom(a, loopvar=None):
        if a == "E":
            k[0] += 1
            return [("emit", k[0] - 1, ("v", loopvar if loopvar is not None else 0)),
                    ("set", 0, ("+", ("v", 0), ("c", 1)))]
        if a == "Y":
            return [("yield",)]
        if a == "A":
            return [("await", 2, child, ("+", ("v", 0), ("c", 10)))]
        if a == "R":
            return [("ret", ("+", ("v", 0), ("c", 50)))]
        raise ValueError(a)

    body = []
    for sym in seq:
        t = sym[0]
        if t in ("E", "Y", "A", "R"):
            body += atom(t)
        elif t == "IF":
            body.append(("if", ("<", ("v", 0), ("c", 100)), sum((atom(a) for a in sym[1]), []), []))
        elif t == "ELSE":
            body.append(("if", ("<", ("c", 100), ("v", 0)), atom("E"), sum((atom(a) for a in sym[1]), [])))
        elif t == "BLK":
            body.append(("blk", sum((atom(a) for a in sym[1]), [])))
        elif t == "WH":
            body.append(("set", 1, ("c", 2)))
            body.append(("while", ("<", ("c", 0), ("v", 1)),
                         [("set", 1, ("-", ("v", 1), ("c", 1)))] + sum((atom(a) for a in sym[1]), [])))
        elif t == "FOR":
            x = 100 + nfor[0]
            nfor[0] += 1
            body.append(("for", x, ("c", 0), ("<", ("v", x), ("c", 2)), ("+", ("v", x), ("c", 1)),
                         sum((atom(a, x) for a in sym[1]), []) or atom("E", x)))
    body += atom("E")
    return body


CHILD_BODY = [("emit", 0, ("v", 0)), ("yield",), ("emit", 1, ("v", 0)), ("ret", ("+", ("v", 0), ("c", 100)))]


def exhaustive_cases(maxlen, per_program=4):
    """All skeleton sequences of length <= maxlen, packed per_program root tasks per program."""
    syms = skeleton_symbols(True)
    seqs = []
    for n in range(1, maxlen + 1):
        seqs += list(itertools.product(syms, repeat=n))
    cases = []
    for i in range(0, len(seqs), per_program):
        chunk = seqs[i:i + per_program]
        defs = [CHILD_BODY] + [build_skeleton(sq, 1 + j, 0) for j, sq in enumerate(chunk)]
        roots = [(1 + j, [0, 0, 0]) for j in range(len(chunk))]
        cases.append({"defs": defs, "roots": roots, "awaits": list(range(len(chunk)))[::-1], "skeleton": [repr(s) for s in chunk]})
    return cases, len(seqs)


# ------------------------------------------------------------------ model side
def parse_model(lines):
    """-> list of cases; case = {"mech": [inst], "spec": [inst], "err": str|None}"""
    cases, cur = [], None
    for l in lines:
        if l == "CASE":
            cur = {"mech": [], "spec": [], "err": None}
        elif l == "END":
            cases.append(cur)
            cur = None
        elif cur is None:
            continue
        elif l.startswith("ERR"):
            cur["err"] = l
        elif l.startswith("I "):
            f = l.split()
            cur["mech"].append({"id": int(f[1]), "def": int(f[2]), "parent": int(f[3]), "args": list(map(int, f[4:4 + NPARAM])),
                                "auto": int(f[4 + NPARAM].split("=")[1]), "wf": int(f[5 + NPARAM].split("=")[1]),
                                "steps": [], "ret": None, "stuck": 0, "done": 0})
        elif l.startswith("S"):
            cur["mech"][-1]["steps"].append(l.split()[1:])
        elif l.startswith("D "):
            f = dict(x.split("=") for x in l.split()[1:])
            m = cur["mech"][-1]
            m["ret"] = None if f["ret"] == "-" else int(f["ret"])
            m["stuck"], m["done"] = int(f["stuck"]), int(f["done"])
        elif l.startswith("Q "):
            f = l.split()
            kv = dict(x.split("=", 1) for x in f[4 + NPARAM:])
            cur["spec"].append({"id": int(f[1]), "def": int(f[2]), "parent": int(f[3]), "args": list(map(int, f[4:4 + NPARAM])),
                                "out": [x for x in kv["out"].split(",") if x], "ret": kv["ret"]})
    return cases


def run_model(cases):
    lines = [sx_case(c) for c in cases]
    out = common.run_model(PROP, "tasks", lines, timeout=1200)
    res = parse_model(out)
    if len(res) != len(cases):
        raise RuntimeError("model result count %d != %d" % (len(res), len(cases)))
    return res


def tree(insts):
    """instances (creation order, with parent ids) -> list of root nodes {inst, kids}"""
    nodes = {i["id"]: {"inst": i, "kids": []} for i in insts}
    roots = []
    for i in insts:
        if i["parent"] < 0:
            roots.append(nodes[i["id"]])
        else:
            nodes[i["parent"]]["kids"].append(nodes[i["id"]])
    return roots


def model_ok(m):
    return m["err"] is None and all(i["done"] and not i["stuck"] for i in m["mech"]) and \
        all(i["ret"] != "fuel" for i in m["spec"])


# ------------------------------------------------------------------ implementation side
_STDBUF = shutil.which("stdbuf")
_TURN = re.compile(r"^CBV turn (\d+) ")
_EV = re.compile(r"^CBV (exec|yield|return|skip|requeue|complete|blocked|unblocked|spawn) (\d+)(.*)$")


def run_impl(impl_dir, case, timeout=10):
    prog = cb_program(case)
    d = common.tempfile.mkdtemp(prefix="cbrun-", dir=common.SCRATCH_ROOT)
    try:
        p = os.path.join(d, "t.cb")
        with open(p, "w") as fh:
            fh.write(prog)
        env = dict(os.environ, CB_VERIF_SCHED_TRACE="1")
        cmd = ([_STDBUF, "-o0"] if _STDBUF else []) + [os.path.join(impl_dir, "main"), p]
        try:
            pr = common.subprocess.run(cmd, cwd=impl_dir, timeout=timeout, env=env, stdout=common.subprocess.PIPE,
                                       stderr=common.subprocess.STDOUT)
            rc, out = pr.returncode, pr.stdout.decode("utf-8", "replace")
        except common.subprocess.TimeoutExpired as e:
            rc, out = 124, (e.stdout or b"").decode("utf-8", "replace")
    finally:
        shutil.rmtree(d, ignore_errors=True)
    return rc, out


def parse_impl(rc, text):
    """merged stream -> {"tasks": {id: {...}}, "main": [lines], "rc": rc, "junk": [...]}"""
    tasks, order, main, junk = {}, [], [], []
    stack = []       # frames: [task id, events, blocked?]
    for l in text.split("\n"):
        if not l:
            continue
        m = _TURN.match(l)
        if m:
            stack.append([int(m.group(1)), [], False])
            continue
        m = _EV.match(l)
        if m:
            kind, t, rest = m.group(1), int(m.group(2)), m.group(3)
            if kind == "spawn":
                a = re.search(r"auto=(\d)", rest)
                tasks[t] = {"id": t, "parent": stack[-1][0] if stack else -1, "auto": int(a.group(1)) if a else -1,
                            "steps": [], "def": None}
                order.append(t)
                continue
            if not stack or stack[-1][0] != t:
                junk.append("unbalanced: " + l)
                continue
            fr = stack[-1]
            ms, ml = re.search(r"stmt=(\d+)", rest), re.search(r"loop=(\d)", rest)
            if (kind in ("exec", "yield", "return") and not ms) or (kind == "yield" and not ml):
                junk.append("malformed trace line: " + l)          # e.g. cut short by a crash
                continue
            if kind == "exec":
                fr[1].append("x" + ms.group(1))
            elif kind == "yield":
                fr[1].append("y%s:%s" % (ml.group(1), ms.group(1)))
            elif kind == "return":
                fr[1].append("r" + ms.group(1))
            elif kind == "blocked":
                fr[2] = True
            elif kind == "unblocked":
                pass
            elif kind == "skip":
                stack.pop()
            elif kind in ("requeue", "complete"):
                stack.pop()
                if fr[2] and not fr[1]:
                    continue                      # a blocked turn is not a step of the body
                if t in tasks:
                    tasks[t]["steps"].append(fr[1])
            continue
        if l.startswith("CBV "):
            junk.append(l)
            continue
        mt = re.match(r"^T(\d+) (-?\d+) (\d+) (-?\d+)$", l)
        if mt and stack:
            t = stack[-1][0]
            stack[-1][1].append("o%s:%s" % (mt.group(3), mt.group(4)))
            if t in tasks:
                if tasks[t]["def"] is None:
                    tasks[t]["def"] = int(mt.group(1))
                elif tasks[t]["def"] != int(mt.group(1)):
                    junk.append("line of def %s inside a step of task %d (def %s): %s" % (mt.group(1), t, tasks[t]["def"], l))
            continue
        mr = re.match(r"^R (\d+) (-?\d+)$", l)
        if mr and not stack:
            main.append((int(mr.group(1)), int(mr.group(2))))
            continue
        junk.append(l)
    if stack:
        junk.append("unfinished steps: %r" % [f[0] for f in stack])
    return {"tasks": tasks, "order": order, "main": main, "rc": rc, "junk": junk}


def impl_tree(imp):
    nodes = {t: {"inst": imp["tasks"][t], "kids": []} for t in imp["order"]}
    roots = []
    for t in imp["order"]:
        p = imp["tasks"][t]["parent"]
        (roots if p < 0 else nodes[p]["kids"]).append(nodes[t])
    return roots


IN_ORDER_CHECKED = [0]


def trace_in_order(steps, nxt=0):
    """Python mirror of coq/C14/Order.v [in_order] on the events of one implementation task (theorem task_trace_in_order
    proves it of every model trace): statements entered in index order without gaps, re-entered only after a loop yield
    of that statement, nothing entered after a return. Returns None or a description of the first offending event."""
    returned = False
    for k, stp in enumerate(steps):
        for e in stp:
            if e[0] == "o":
                continue
            if returned:
                if e[0] == "x":
                    return "step %d: statement %s entered after a return" % (k, e[1:])
                continue
            if e[0] == "x":
                i = int(e[1:])
                if i != nxt:
                    return "step %d: statement %d entered where %d was due" % (k, i, nxt)
                nxt = i + 1
            elif e[0] == "y":
                fl, i = e[1:].split(":")
                if int(i) + 1 != nxt:
                    return "step %d: yield of statement %s while %d is due" % (k, i, nxt)
                if fl == "1":
                    nxt = int(i)
            elif e[0] == "r":
                if int(e[1:]) + 1 != nxt:
                    return "step %d: return of statement %s while %d is due" % (k, e[1:], nxt)
                returned = True
    return None


def compare(case, model, imp):
    """Mech model vs implementation. Returns list of difference strings (empty = equal)."""
    diffs = []
    if imp["rc"] != 0:
        diffs.append("exit status %d" % imp["rc"])
    if imp["junk"]:
        diffs.append("unexpected output: %r" % imp["junk"][:3])
    mt, it = tree(model["mech"]), impl_tree(imp)

    def cmp_nodes(mn, inn, where):
        if len(mn) != len(inn):
            diffs.append("%s: model spawns %d task(s), implementation %d" % (where, len(mn), len(inn)))
        for j, (a, b) in enumerate(zip(mn, inn)):
            w = "%s/%d(t%d)" % (where, j, a["inst"]["def"])
            if a["inst"]["auto"] != b["inst"]["auto"]:
                diffs.append("%s: auto_yield model %d impl %d" % (w, a["inst"]["auto"], b["inst"]["auto"]))
            if a["inst"]["steps"] != b["inst"]["steps"]:
                ms, is_ = a["inst"]["steps"], b["inst"]["steps"]
                k = next((i for i in range(min(len(ms), len(is_))) if ms[i] != is_[i]), min(len(ms), len(is_)))
                diffs.append("%s: step %d differs: model %s impl %s" % (
                    w, k, " ".join(ms[k]) if k < len(ms) else "<none>", " ".join(is_[k]) if k < len(is_) else "<none>"))
            cmp_nodes(a["kids"], b["kids"], w)
    cmp_nodes(mt, it, "main")
    # the trace invariant of Properties_C14_order.v on the implementation's own traces (decisive without the model)
    for t in imp["order"]:
        IN_ORDER_CHECKED[0] += 1
        bad = trace_in_order(imp["tasks"][t]["steps"])
        if bad:
            diffs.append("task %d of the implementation breaks 'once, in order': %s" % (t, bad))
    # awaited values printed by main
    exp = []
    for i in case["awaits"]:
        r = mt[i]["inst"]["ret"] if i < len(mt) else None
        exp.append((i, r if r is not None else 0))
    if imp["main"] != exp:
        diffs.append("awaited values: model %r impl %r" % (exp, imp["main"]))
    return diffs


def spec_compare(case, model, imp):
    """The property's own oracle: every task's own output and result equal those of its body run alone
    (children included, in spawn order); main's awaits deliver the results. Returns differences."""
    diffs = []
    st, it = tree(model["spec"]), impl_tree(imp)

    def outs(inst):
        return [e[1:] for stp in inst["steps"] for e in stp if e.startswith("o")]

    def cmp_nodes(sn, inn, where):
        if len(sn) != len(inn):
            diffs.append("%s: alone the body starts %d task(s), implementation %d" % (where, len(sn), len(inn)))
        for j, (a, b) in enumerate(zip(sn, inn)):
            w = "%s/%d(t%d)" % (where, j, a["inst"]["def"])
            if a["inst"]["out"] != outs(b["inst"]):
                diffs.append("%s: output alone %s, as a task %s" % (w, ",".join(a["inst"]["out"]), ",".join(outs(b["inst"]))))
            cmp_nodes(a["kids"], b["kids"], w)
    cmp_nodes(st, it, "main")
    exp = []
    for i in case["awaits"]:
        r = st[i]["inst"]["ret"] if i < len(st) else "-"
        exp.append((i, 0 if r in ("-", "fuel") else int(r)))
    if imp["main"] != exp:
        diffs.append("awaited values: alone %r, implementation %r" % (exp, imp["main"]))
    if imp["rc"] != 0:
        diffs.append("exit status %d" % imp["rc"])
    return diffs


def mech_equals_spec(model):
    """Does the Mech model itself predict the sequential behaviour on this case?"""
    mt, st = tree(model["mech"]), tree(model["spec"])

    def outs(inst):
        return [e[1:] for stp in inst["steps"] for e in stp if e.startswith("o")]

    def eq(mn, sn):
        if len(mn) != len(sn):
            return False
        for a, b in zip(mn, sn):
            r = a["inst"]["ret"]
            if outs(a["inst"]) != b["inst"]["out"] or (str(r) if r is not None else "-") != b["inst"]["ret"]:
                return False
            if not eq(a["kids"], b["kids"]):
                return False
        return True
    return eq(mt, st)


# ------------------------------------------------------------------ await value kinds (data path)
_STRS = ["", "x", "hello world", "a b  c", "0", "T1 1 2 3", "日本", "tab\\there", "q'uote", "semi;colon", "100%", "{brace}"]


def gen_await_case(rng):
    """A list of (kind, payload) results returned by async functions and awaited by main / by a task."""
    ints = [0, 1, -1, 2147483647, -2147483647, 65536, -65536, rng.randint(-10 ** 9, 10 ** 9)]
    longs = [4611686018427387904, -4611686018427387904, 9000000000, -9000000001, rng.randint(-2 ** 62, 2 ** 62)]
    items = []
    for _ in range(rng.randint(3, 8)):
        k = rng.choice(["int", "long", "bool", "str", "struct", "some", "none", "ok", "err", "noret"])
        if k == "int":
            items.append((k, rng.choice(ints)))
        elif k == "long":
            items.append((k, rng.choice(longs)))
        elif k == "bool":
            items.append((k, rng.randint(0, 1)))
        elif k == "str":
            items.append((k, rng.choice([s for s in _STRS if "{" not in s and "\\" not in s and "%" not in s])))
        elif k == "struct":
            items.append((k, (rng.choice(ints), rng.choice(ints))))
        elif k in ("some", "ok"):
            items.append((k, rng.choice(ints)))
        elif k == "err":
            items.append((k, rng.choice(["e", "bad thing", "E 42"])))
        else:
            items.append((k, None))
    order = list(range(len(items)))
    rng.shuffle(order)
    again = [rng.choice(order) for _ in range(rng.randint(0, 3))]
    return {"items": items, "order": order + again, "yields": [rng.randint(0, 2) for _ in items],
            "in_task": rng.random() < 0.5}


def cb_lit(v):
    return str(v) if v >= 0 else "(0 - %d)" % (-v)


def await_program(c):
    fs, spawn, aw = [], [], []
    typ = {"int": "int", "long": "long", "bool": "bool", "str": "string", "struct": "P", "some": "Option<int>",
           "none": "Option<int>", "ok": "Result<int, string>", "err": "Result<int, string>", "noret": "int"}
    for i, ((k, v), ny) in enumerate(zip(c["items"], c["yields"])):
        y = "".join("    yield;\n" for _ in range(ny))
        t = typ[k]
        if k in ("int", "long"):
            body = "    return %s;\n" % cb_lit(v)
        elif k == "bool":
            body = "    return %s;\n" % ("true" if v else "false")
        elif k == "str":
            body = '    return "%s";\n' % v
        elif k == "struct":
            body = "    P p;\n    p.x = %s;\n    p.y = %s;\n    return p;\n" % (cb_lit(v[0]), cb_lit(v[1]))
        elif k == "some":
            body = "    return Option<int>::Some(%s);\n" % cb_lit(v)
        elif k == "none":
            body = "    return Option<int>::None;\n"
        elif k == "ok":
            body = "    return Result<int, string>::Ok(%s);\n" % cb_lit(v)
        elif k == "err":
            body = '    return Result<int, string>::Err("%s");\n' % v
        else:
            body = '    println("noret", %d);\n' % i
        fs.append("async %s g%d(int a) {\n%s%s}\n" % (t, i, y, body))
        spawn.append("    Future<%s> f%d = g%d(%d);\n" % (t, i, i, i))
    n = 0
    for i in c["order"]:
        k, v = c["items"][i]
        t = typ[k]
        aw.append("    %s r%d = await f%d;\n" % (t, n, i))
        if k in ("int", "long", "bool", "noret"):
            aw.append('    println("V", %d, r%d);\n' % (i, n))
        elif k == "str":
            aw.append('    println("V", %d, r%d);\n' % (i, n))
        elif k == "struct":
            aw.append('    println("V", %d, r%d.x, r%d.y);\n' % (i, n, n))
        elif k in ("some", "none"):
            aw.append('    match (r%d) { Some(v) => { println("V", %d, "some", v); } None => { println("V", %d, "none"); } }\n' % (n, i, i))
        else:
            aw.append('    match (r%d) { Ok(v) => { println("V", %d, "ok", v); } Err(e) => { println("V", %d, "err", e); } }\n' % (n, i, i))
        n += 1
    if c["in_task"]:
        return ("struct P { int x; int y; };\n" + "".join(fs) + "async int user(int a) {\n" + "".join(spawn) + "".join(aw) +
                "    return 1;\n}\nvoid main() {\n    Future<int> fu = user(0);\n    int u = await fu;\n    println(\"U\", u);\n}\n")
    return "struct P { int x; int y; };\n" + "".join(fs) + "void main() {\n" + "".join(spawn) + "".join(aw) + "}\n"


def await_model_lines(c):
    out = []
    for k, v in c["items"]:
        if k in ("int", "long", "bool"):
            out.append("(%s %d)" % (k, v))
        elif k == "str":
            out.append(None)         # strings with blanks are not sent through the S-expression reader
        elif k == "struct":
            out.append("(struct P (x %d) (y %d))" % v)
        elif k == "some":
            out.append("(variant Option Some %d)" % v)
        elif k == "none":
            out.append("(variant Option None 0)")
        elif k == "ok":
            out.append("(variant Result Ok %d)" % v)
        elif k == "err":
            out.append(None)
        else:
            out.append("(none)")
    return out


def await_expected(c, model_out):
    """Expected 'V' lines: from the property (the returned value), cross-checked with the model's data path."""
    exp, notes = [], []
    for i in c["order"]:
        k, v = c["items"][i]
        m = model_out[i]
        if k in ("int", "long", "bool"):
            exp.append("V %d %d" % (i, v))
            if m is not None and m != "int %d" % v:
                notes.append("model delivers %r for %s %r" % (m, k, v))
        elif k == "noret":
            exp.append("V %d 0" % i)
            if m != "int 0":
                notes.append("model delivers %r for a task without return" % m)
        elif k == "str":
            exp.append("V %d %s" % (i, v))
        elif k == "struct":
            exp.append("V %d %d %d" % (i, v[0], v[1]))
            if m is not None and "members=x=%d,y=%d" % v not in m:
                notes.append("model delivers %r for struct %r" % (m, v))
        elif k in ("some", "ok"):
            exp.append("V %d %s %d" % (i, k, v))
            if m is not None and ("variant=%s " % k.capitalize() not in m or " assoc=%d " % v not in m):
                notes.append("model delivers %r for %s %r" % (m, k, v))
        elif k == "none":
            exp.append("V %d none" % i)
        elif k == "err":
            exp.append("V %d err %s" % (i, v))
    return exp, notes


# ------------------------------------------------------------------ shrinking
def _subs(ss):
    """all bodies obtained from ss by one deletion / one un-nesting, any depth"""
    for i, s in enumerate(ss):
        yield ss[:i] + ss[i + 1:]
        k = s[0]
        if k == "blk":
            yield ss[:i] + s[1] + ss[i + 1:]
            for b in _subs(s[1]):
                yield ss[:i] + [("blk", b)] + ss[i + 1:]
        elif k == "if":
            yield ss[:i] + s[2] + ss[i + 1:]
            if s[3]:
                yield ss[:i] + [("if", s[1], s[2], [])] + ss[i + 1:]
            for b in _subs(s[2]):
                yield ss[:i] + [("if", s[1], b, s[3])] + ss[i + 1:]
            for b in _subs(s[3]):
                yield ss[:i] + [("if", s[1], s[2], b)] + ss[i + 1:]
        elif k == "while":
            for b in _subs(s[2]):
                yield ss[:i] + [("while", s[1], b)] + ss[i + 1:]
        elif k == "for":
            for b in _subs(s[5]):
                if b:
                    yield ss[:i] + [("for", s[1], s[2], s[3], s[4], b)] + ss[i + 1:]


def shrink(case, bad, budget=400):
    """Greedy reduction of a task set keeping `bad(case)` true."""
    cur = case
    n = 0
    changed = True
    while changed and n < budget:
        changed = False
        # drop a root
        for i in range(len(cur["roots"])):
            if len(cur["roots"]) <= 1:
                break
            roots = cur["roots"][:i] + cur["roots"][i + 1:]
            awaits = [a - (1 if a > i else 0) for a in cur["awaits"] if a != i]
            cand = dict(cur, roots=roots, awaits=awaits)
            n += 1
            if bad(cand):
                cur, changed = cand, True
                break
        if changed:
            continue
        # drop a repeated await
        seen, aw2 = set(), []
        for a in cur["awaits"]:
            if a not in seen:
                aw2.append(a)
                seen.add(a)
        if len(aw2) < len(cur["awaits"]):
            cand = dict(cur, awaits=aw2)
            n += 1
            if bad(cand):
                cur, changed = cand, True
                continue
        for d in range(len(cur["defs"])):
            for b in _subs(cur["defs"][d]):
                cand = dict(cur, defs=cur["defs"][:d] + [b] + cur["defs"][d + 1:])
                n += 1
                if n > budget:
                    break
                if bad(cand):
                    cur, changed = cand, True
                    break
            if changed or n > budget:
                break
    return cur


def case_to_json(c):
    return {"defs": c["defs"], "roots": [[d, a] for d, a in c["roots"]], "awaits": c["awaits"]}


def _tup(x):
    if isinstance(x, list):
        if x and isinstance(x[0], str):
            return tuple(_tup(y) if i > 0 else y for i, y in enumerate(x))
        return [_tup(y) for y in x]
    return x


def case_from_json(j):
    return {"defs": [[_tup(s) for s in d] for d in j["defs"]], "roots": [(r[0], list(r[1])) for r in j["roots"]],
            "awaits": list(j["awaits"])}


def evaluate(impl, cases):
    """run model and implementation on the cases -> list of (case, model, imp, diffs, specdiffs) for usable cases"""
    models = run_model(cases)
    usable = [(c, m) for c, m in zip(cases, models) if model_ok(m)]
    imps = common.pmap(lambda cm: parse_impl(*run_impl(impl, cm[0])), usable)
    res = []
    for (c, m), imp in zip(usable, imps):
        res.append((c, m, imp, compare(c, m, imp), spec_compare(c, m, imp)))
    return res, len(cases) - len(usable)


def one(impl, case):
    (m,) = run_model([case])
    if not model_ok(m):
        return None
    imp = parse_impl(*run_impl(impl, case))
    return m, imp, compare(case, m, imp), spec_compare(case, m, imp)


# ------------------------------------------------------------------ main
def run(rep):
    seed, tier = rep.seed, rep.tier
    cq = common.coq_check_props(PROP)
    common.proof_coverage(rep, cq)
    if not cq["ok"]:
        rep.violation("proof", {"theorem": cq["failed_theorem"], "log": cq["log"][-3000:]},
                      "proof obligation %s no longer checks" % cq["failed_theorem"], True)
    if tier == "thorough" and cq["ok"]:
        rc, o, e = common.sh(["coqchk", "-silent", "-o", "-Q", ".", "Cb", "Cb.C14.Properties_C14"], cwd=common.COQ, timeout=1200)
        ax = re.search(r"\* Axioms:\s*(.*?)\n\s*\n", o + e, re.S)
        rep.coverage["coqchk"] = {"rc": rc, "axioms": ax.group(1).strip() if ax else "?"}
        if rc != 0:
            rep.violation("coqchk", {"log": (o + e)[-3000:]}, "coqchk rejects the compiled proofs of C14", True)
    common.ensure_model(PROP)
    impl = common.build_impl("plain")
    if not _STDBUF:
        raise common.BuildError("stdbuf (coreutils) not found: cannot attribute output lines to task steps")

    cases, origin = [], []
    corpus = os.path.join(common.VERIF, "corpus", "c14.json")
    if os.path.exists(corpus):
        for j in json.load(open(corpus)):
            cases.append(case_from_json(j)); origin.append("corpus")
    exh_len = 2 if tier == "quick" else 3
    ex, nseq = exhaustive_cases(exh_len)
    cases += ex; origin += ["exhaustive-skeleton"] * len(ex)
    seeds = [seed] if tier == "quick" else [seed, seed * 7919 + 1, seed * 104729 + 2, seed * 1299709 + 3]
    n_rand = 4000 if tier == "quick" else 8000
    n_frag = 2000 if tier == "quick" else 4000
    for sd in seeds:
        for k in range(n_rand):
            cases.append(gen_case(rng_for(sd, "c14-rand", k), maxlen=5 if k % 3 else 7)); origin.append("random-task-set")
        for k in range(n_frag):
            cases.append(gen_case(rng_for(sd, "c14-frag", k), fragment=True)); origin.append("random-fragment")

    org = {id(c): o for c, o in zip(cases, origin)}
    hist, flaghist = {}, {}
    distinct, nontrivial = set(), 0
    corr_bad, spec_bad = [], []
    n_wf_cases = n_spec_equal = n_spec_diff_known = 0
    steps_total = tasks_total = 0
    dropped = n_res = 0
    samples = []
    CH = 4000
    for lo in range(0, len(cases), CH):
        res, dr = evaluate(impl, cases[lo:lo + CH])
        dropped += dr
        n_res += len(res)
        for (c, m, imp, d, sd) in res:
            o = org[id(c)]
            hist[o] = hist.get(o, 0) + 1
            key = common.hashlib.sha256(sx_case(c).encode()).digest()[:12]
            first = key not in distinct
            distinct.add(key)
            tasks_total += len(m["mech"])
            steps_total += sum(len(i["steps"]) for i in m["mech"])
            if first and any(e[0] in "yr" for i in m["mech"] for st in i["steps"] for e in st):
                nontrivial += 1
            fl = set()
            for b in c["defs"]:
                fl |= shape_flags(b)
            for f in fl:
                flaghist[f] = flaghist.get(f, 0) + 1
            allwf = all(i["wf"] for i in m["mech"])
            n_wf_cases += allwf
            if o == "random-task-set" and len(samples) < 2 and len(m["mech"]) > 1:
                samples.append({"program": cb_program(c), "model_steps": [i["steps"] for i in m["mech"]]})
            if d:
                if len(corr_bad) < 200:
                    corr_bad.append((c, m, imp, d, sd, o))
            elif sd:
                if fl and not allwf:
                    n_spec_diff_known += 1       # a shape listed in known_findings (predicted by the model)
                elif len(spec_bad) < 50:
                    spec_bad.append((c, m, imp, d, sd, o))
            else:
                n_spec_equal += 1
            if allwf and not mech_equals_spec(m) and len(spec_bad) < 50:
                spec_bad.append((c, m, imp, ["model: wf body but Mech <> Spec (theorem contradicted?)"], sd, o))
        del res

    rep.coverage.update({
        "evaluations": n_res, "distinct_nontrivial": nontrivial,
        "rule": "per task: sequence of steps (exec index, printed lines, yield(loop flag,index)/return(index)) of the extracted Mech model = "
                "steps reconstructed from the merged stdout+CB_VERIF_SCHED_TRACE stream of main; auto flag at spawn; values printed by main "
                "after await = model results; Spec (body alone) = implementation on every case outside the known-defect shapes. "
                "distinct = distinct task sets; non-trivial = some task suspends (yield event) or returns",
        "exhaustive": True,
        "exhaustive_space": "all sequences of length <= %d over 66 statement skeletons (emit/yield/await/return at top level and at every "
                            "position of 0-2-statement if / else / block / while / for bodies): %d bodies" % (exh_len, nseq),
        "input_distribution": hist, "shape_histogram": flaghist, "dropped_by_model_bounds": dropped,
        "tasks": tasks_total, "steps_compared": steps_total, "implementation_task_traces_checked_in_order": IN_ORDER_CHECKED[0], "cases_in_fragment": n_wf_cases,
        "spec_equal": n_spec_equal, "spec_differs_on_known_shape": n_spec_diff_known,
        "disagreements": len(corr_bad), "spec_failures_outside_known_shapes": len(spec_bad),
        "samples": samples,
    })

    def still_corr(want_spec):
        def pred(c2):
            r = one(impl, c2)
            if not r or not r[2]:
                return False
            return (not want_spec) or (bool(r[3]) and mech_equals_spec(r[0]))
        return pred

    def still_spec(c2):
        r = one(impl, c2)
        if not r or r[2] or not r[3]:
            return False
        return not any(shape_flags(b) for b in c2["defs"])

    # prefer inputs on which the property's own oracle fails although the pinned model satisfies it
    corr_bad.sort(key=lambda x: (not (x[4] and mech_equals_spec(x[1])), len(sx_case(x[0]))))
    for (c, m, imp, d, sd, o) in corr_bad[:4]:
        want_spec = bool(sd) and mech_equals_spec(m)
        c2 = shrink(c, still_corr(want_spec))
        r = one(impl, c2) or (m, imp, d, sd)
        m2, imp2, d2, sd2 = r
        concrete = bool(sd2)
        rep.violation("corr", {"case": case_to_json(c2), "program": cb_program(c2), "origin": o, "differences": d2,
                               "model_steps": [i["steps"] for i in m2["mech"]],
                               "impl_steps": [imp2["tasks"][t]["steps"] for t in imp2["order"]], "impl_main": imp2["main"],
                               "spec_oracle": sd2 or "implementation agrees with the body run alone on this input",
                               "broken": "correspondence Model.mstep = SimpleEventLoop::execute_one_step (carrier of every C14 theorem)"},
                      "execute_one_step and the proved model disagree (%s)%s" % (
                          d2[0] if d2 else "?", "; property oracle: " + sd2[0] if sd2 else ""),
                      no_failing_input=not concrete)
    spec_bad.sort(key=lambda x: len(sx_case(x[0])))
    for (c, m, imp, d, sd, o) in spec_bad[:3]:
        c2 = shrink(c, still_spec) if sd else c
        r = one(impl, c2) or (m, imp, d, sd)
        rep.violation("spec", {"case": case_to_json(c2), "program": cb_program(c2), "origin": o, "differences": r[3] or d},
                      "a task does not run like its body alone on a shape not listed as a known finding (%s)" % ((r[3] or d or ["?"])[0]))

    # ---- await value kinds
    n_aw = 200 if tier == "quick" else 1500
    aw_cases = [gen_await_case(rng_for(seed, "c14-await", k)) for k in range(n_aw)]
    lines, idx = [], []
    for ci, c in enumerate(aw_cases):
        for ii, l in enumerate(await_model_lines(c)):
            if l is not None:
                lines.append(l); idx.append((ci, ii))
    mout = common.run_model(PROP, "await", lines)
    per = [[None] * len(c["items"]) for c in aw_cases]
    for (ci, ii), o in zip(idx, mout):
        per[ci][ii] = o
    aw_res = common.pmap(lambda c: common.run_cb(impl, await_program(c)), aw_cases)
    aw_bad = 0
    for c, mo, (rc, so, se) in zip(aw_cases, per, aw_res):
        exp, notes = await_expected(c, mo)
        got = [l for l in so.split("\n") if l.startswith("V ")]
        if rc != 0 or got != exp or notes:
            aw_bad += 1
            if aw_bad <= 2:
                rep.violation("await", {"program": await_program(c), "expected": exp, "got": got, "rc": rc, "stderr": se[-400:],
                                        "model_notes": notes},
                              "await does not deliver the returned value (expected %r, got %r)%s" % (
                                  exp[:3], got[:3], " [model: %s]" % notes[0] if notes else ""),
                              no_failing_input=(rc == 0 and got == exp))
    rep.coverage["await_value_programs"] = n_aw
    rep.coverage["await_values_checked"] = sum(len(c["order"]) for c in aw_cases)

    # ---- known findings: replay the stored inputs
    for f in common.known_findings(PROP):
        rp = f["replay"]
        if "case" in rp:
            c = case_from_json(rp["case"])
            r = one(impl, c)
            if r is None:
                rep.notes.append("known finding %s: model does not terminate on the stored input" % f["id"])
                continue
            m, imp, d, sd = r
            outs = [[e[1:] for stp in imp["tasks"][t]["steps"] for e in stp if e.startswith("o")] for t in imp["order"]]
            if d:
                rep.violation("corr-known", {"case": rp["case"], "differences": d},
                              "model and implementation disagree on known-finding replay " + f["id"], not sd)
            if outs[:1] != [rp["expected_root_output"]] or (imp["main"][:1] != [tuple(rp["expected_main"][0])] if rp.get("expected_main") else False):
                rep.known(f["id"], f["what_fails"])
            else:
                rep.notes.append("known finding %s no longer reproduces (fixed?)" % f["id"])
        else:
            rc, so, se = common.run_cb(impl, rp["program"])
            got = [l for l in so.split("\n") if l]
            if got != rp["expected_stdout"]:
                rep.known(f["id"], f["what_fails"])
            else:
                rep.notes.append("known finding %s no longer reproduces (fixed?)" % f["id"])
    rep.assumptions += [
        "which task receives the next step grant (queue discipline, nested run_until_complete) is property C15; here tasks are identified through the trace",
        "tasks use only their own parameters and loop variables: interference through dynamic scoping is outside the model (tested on 1-4 concurrent tasks)",
        "task bodies are over int locals with emit/assign/await/yield/return/block/if/while/for; break/continue/defer/sleep/method tasks are not modelled",
        "programs on which the model itself does not terminate within %d steps, or in which a local / awaited value leaves +-2^24 (the implementation's int is range-checked, the model computes in Z), are dropped from the stream (counted)" % MAXSTEPS,
    ]


def replay(path):
    data = json.load(open(path))
    c = data["case"]
    common.ensure_model(PROP)
    impl = common.build_impl("plain")
    if "case" in c:
        case = case_from_json(c["case"])
        print(cb_program(case))
        r = one(impl, case)
        if r is None:
            print("model does not terminate on this case")
            return 1
        m, imp, d, sd = r
        print("model steps:", [i["steps"] for i in m["mech"]])
        print("impl steps: ", [imp["tasks"][t]["steps"] for t in imp["order"]], "main:", imp["main"])
        print("model vs implementation:", d or "equal")
        print("body alone vs implementation:", sd or "equal")
        return 1 if (d or sd) else 0
    if "program" in c:
        rc, so, se = common.run_cb(impl, c["program"])
        got = [l for l in so.split("\n") if l.startswith("V ")]
        print("expected:", c.get("expected")); print("got:     ", got, "rc", rc)
        return 0 if got == c.get("expected") and rc == 0 else 1
    print(json.dumps(c, indent=1))
    return 1
