"""C13 - match, Option/Result, ?, try and checked preserve variants and payloads.

Theorems: coq/C13/Properties_C13.v (first-arm law of the match loop, whole-name comparison, no-arm error,
payload channel round-trip, transport invariants over arbitrary step lists, sequences of match functions
(history freedom), ? chains of any length, try/checked classification, freshness of the Variable behind Ok, last-write-wins
for re-assignment, history freedom of sequences; struct / enum payloads (associated_value) at every depth: round trip, preservation,
match on nested values; the declaration that runs again in one scope (erase before emplace), history freedom of loop bodies, try / ? in
loops; the defects of the pinned code as `_refuted` witnesses).
Tie: nine families of skeleton programs - (A) a value is constructed, transported (declaration from
variable/call, assignment, parameter passing, return) and consumed by match / .variant / .value;
(M) several values sent through match statements packaged as functions (void / returning from the arm /
expression-bodied arms / in a loop / nested / inline), variant names with prefix, suffix and case relations,
names shared by two enums; (Q) chains of functions propagating with `?` applied to the call or to a variable;
(T) core expressions - integer-valued and string-valued, also with the failing operation inside a called function - under
try/checked in six statement contexts; (R) ONE variable / struct member assigned again and again with values of changing
variant and payload kind; (S) several A/Q/T programs as functions of ONE program, called in any order with fresh operands
(state carried between evaluations); (L) the statements of family A as a LOOP BODY (for / while / written out several times) executed once per
value, the values being of any payload kind - int, long, string, none, a struct of scalars, another enum value, nested to depth 3 - and changing
variant and kind from execution to execution, every declaration meeting the Variable its previous execution left in the scope; (LT) `R r = try e;`
and (LQ) `f(i)?` as loop bodies - are printed as Cb programs and run on the real `main`; stdout transcript and error class must
equal the extracted Mech model for EVERY program (conforming or not); Mech vs Spec classifies.
classify_runtime_error/build_result_err are additionally compared byte for byte on random messages
through a leaf driver that includes the repository's error_handling.cpp.
"""
import itertools
import json
import os
import re

import common
from common import rng_for

PROP = "C13"
LEVEL = "proof"
META = {
    "category": "proof",
    "technique": "Coq proofs about a function-by-function model of match / enum payload channels / ? / try-checked "
                 "(induction over arm lists, step lists and call chains; refinement Mech = Spec on the defect-free fragment) "
                 "+ extracted-model differential run against the real interpreter and against error_handling.cpp",
    "text": "Machine-checked theorems about a Gallina model of execute_match_statement, the enum branches of declaration.cpp / "
            "return.cpp / evaluate_variable_typed (variant + associated_int_value + associated_str_value, string channel chosen "
            "iff non-empty), evaluate_error_propagation and classify_runtime_error / evaluate_try_like_expression: the match loop "
            "runs exactly the first matching arm or fails, and the selected arm names the stored variant exactly (an arm whose name is a proper "
            "prefix / extension / case variant of it is passed over); sequences of match functions (void, returning from the arm, expression-bodied, "
            "in a loop, nested, inline) equal the Spec on the conforming fragment and a call never depends on the calls before it; payloads round-trip through the two channels except the empty string; "
            "on the fragment that avoids the recorded defects every transport (declaration, assignment, argument, return), every "
            "`?` chain of any length (all five contexts incl. the expression statement) and every `return try e` / `R r = try e;` "
            "equals the property's own reading (Spec) for all values, step lists and link lists; integer payloads of any size are "
            "bound unchanged and modulo by zero is classed as division by zero (repairs b144e56, d2267e2, 982c54e, 4ea336a mirrored); "
            "try/checked on string-valued operands (literals, parameters, concatenation, string-array elements, the same inside callees) yields Ok with "
            "exactly that string; build_result_ok is correct because - and only because - it starts from a fresh Variable (over a kept Variable an integer "
            "Ok is read back correctly iff the kept string channel is empty); a variable or struct member assigned again and again holds exactly the "
            "last value whatever it held before; a program made of several construct/transport/match, `?`-chain and try/checked parts called in any "
            "order with fresh operands prints, call by call, what each part prints on its own (nothing is carried between evaluations); "
            "payloads that are a struct of scalars or another enum value (Option<Result<int,string>>, Option<P2>, user and generic enums carrying "
            "structs / enums, depth 3) are built, copied, passed, returned and matched exactly: round trip for every depth, preservation by every transport "
            "step sound for the shape, the match statement on a built value equals the property's own match for ANY outer arm list and the inner matches the "
            "declared types dictate, and the nested model is the scalar model on values without associated_value; a declaration executed again in the same "
            "scope (loop body) stores exactly the new value BECAUSE the scope entry is erased first - without the erase the new value is stored correctly "
            "iff the kept associated_value is the new one (the seeded class of change, and only through struct / enum payloads); an execution of a loop "
            "body prints and leaves in the outer variable a function of that variable and of its own value only (history freedom for every program), "
            "conforming loop programs equal the Spec for every type, depth, number of executions and pipeline; `R r = try e;` and `f(i)?` as loop bodies "
            "equal the Spec (first failure ends the function with that very value); "
            "the defects of the pinned code are `_refuted` witnesses (known findings). The model is tied to the "
            "code on every run: exhaustive arm orders/wildcards for 1-5 variants, every ordered pair of 18 sets of related variant names "
            "(prefix, suffix, infix, case, Option/Result's own names, one-letter, digits, underscores) under 5 arm lists with rotating binding form / "
            "binding-name scheme / arm-body form, all arm orders for 3 name sets per seed, match suites over every style, user enums whose type name "
            "is near the Result/Option prefix rule, `?` on the call and on a variable, failing operations inside called functions under try/checked, "
            "all short transport sequences, all `?` chains of "
            "1-5 links with the failing link at every position and every context, all small core expressions under try/checked, "
            "boundary payloads, string-valued operands of try/checked, every variant sequence of length <= 3 assigned to one variable / struct member "
            "(6 types, 5 ways of assignment), every ordered pair of 38 producer classes (try/checked int/string ok/err, ? chains, constructors of "
            "Result/Option/user/generic enums through declaration, call, parameter, return) as ONE program calling x, y, x, one try site / one ? chain "
            "called 6-8 times with alternating outcomes, loop programs (for / while / written out; declaration statement per execution or ONE statement "
            "serving several executions; constructor argument a variable or a call; the source struct / inner enum variable overwritten after construction): "
            "every ordered pair of the candidate values of 12 outer types executed x, y, x' by one body, 22 pipelines (15 conforming, 7 defect-bound: "
            "declaration from variable / call, assignment to a fresh and to an outer variable, parameters, return of a variable / of the constructor, "
            "constructor scrutinee) x 12 types, try / checked sites and `f(i)?` in every context executed 2-4 times with alternating outcomes, "
            "plus random deeper cases, are printed as Cb programs and run on the real binary; transcript and "
            "error class must equal the extracted model for every program, including the defect shapes; classify_runtime_error "
            "is compared on random messages through a leaf driver.",
    "note": "Trusted: Coq kernel (vm_compute for the refutation witnesses), no axioms (Print Assumptions: closed); extraction via "
            "ExtrOcamlBasic+ExtrOcamlString; the model is hand-written and tied by differential testing only; the Python printer "
            "of skeletons to Cb text. Not modelled: struct members that are themselves structs or arrays, enum values with nested payloads stored in struct "
            "members or sent through `?` / try (recorded findings / rejected by the interpreter), `.value` on nested payloads, the ordinal a payload-less inner enum value "
            "leaves in the integer channel, binding variables (they outlive the match: programs bind one name to one kind of Variable, decided by the extracted l_kinds), "
            "await?, member?, "
            "enum values in struct members beyond `bx.e = <variable>; T x = bx.e;` (three recorded findings), string expressions other than variables/literals as "
            "arguments of string parameters are rejected by the interpreter (modelled as the TypeCastError they raise), "
            "`?` inside println arguments and call arguments and binding-name reuse across matches of different payload kinds / binding names equal "
            "to a live variable (recorded as findings by fixed programs), T::V() with empty parentheses, try/checked inside larger expressions, "
            "x.value on a payload-less variant.",
}

RT = "Result<int, RuntimeError>"
INT_POOL = [0, 1, -1, 42, 2147483647, -2147483648, 2147483648, -2147483649, 9223372036854775807, -9223372036854775808]
STR_POOL = ["", "a", "0", "héllo wörld", "日本語", "a b", "Ok", "x:y", "None"]
SAFE_STR = [s for s in STR_POOL if s]
VNAMES = ["A", "B", "C", "D", "F"]
# variant-name sets with relations between the names (proper prefix / suffix / infix, case variants, equal length, names of the
# built-in Option/Result variants inside user enums, one-letter names, digits, underscores): the arm search must compare
# whole names, byte for byte
NAME_SETS = [
    ["Key", "KeyUp", "KeyRepeat"], ["A", "AB", "ABC"], ["Up", "KeyUp", "P"], ["Red", "red", "RED"], ["Ok", "Okay", "Err"],
    ["Some", "None", "Something"], ["Err", "Error", "Er"], ["X", "XX", "x"], ["V1", "V10", "V100"], ["Item", "_Item", "Item_"],
    ["ab", "ba", "aba"], ["Left", "Right", "Light"], ["None", "Non", "NoneOf"], ["Nil", "Null", "Nul"],
    ["Ok", "Err", "Some", "None"], ["E", "EE", "Ee"], ["Quit", "Qui", "uit", "Q"], ["aB", "Ab", "AB", "ab"],
    # a long common prefix (beyond 8 / 16 / 32 bytes: fixed-width or small-string comparisons)
    ["ConnectionResetByPeerWhileReadingTheHeader", "ConnectionResetByPeerWhileReadingTheHeaders", "ConnectionResetByPeer", "ConnectionReset"],
]
# user enum names around the "starts with Result/Option" rule of handle_enum_access_return / evaluate_error_propagation
TYPE_NAMES = ["E", "Shape", "Outcome", "Optional", "Results", "MyResult", "Opt", "Res", "result", "OptionX", "ResultOf", "T1"]


def hx(s):
    return s.encode("utf-8").hex()


# ------------------------------------------------------------------ payloads / values
def pl_ser(p):
    if p[0] == "none":
        return "N"
    if p[0] == "int":
        return "I%d" % int(p[1])
    return "S" + hx(p[1])


def int_lit(v):
    v = int(v)
    if v == -9223372036854775808:
        return "(-9223372036854775807 - 1)"
    return str(v)


def pl_lit(p):
    if p[0] == "none":
        return None
    if p[0] == "int":
        return int_lit(p[1])
    return '"%s"' % p[1]


def cons(tn, var, p):
    l = pl_lit(p)
    return "%s::%s" % (tn, var) if l is None else "%s::%s(%s)" % (tn, var, l)


# ------------------------------------------------------------------ family A
# case: {"fam":"A","type":{"kind","name","variants":[[name,kind]],"targ"},"val":[vi,payload],"src","steps","final","arms"}
# step: ["dv"] ["dc"] ["av",[vi,payload]] ["ac",[vi,payload]] ["as",[vi,payload]] ["pa"]
# arm: ["w"] or ["v", variant-name, "n"|"u"|"b"]
def type_name(t):
    if t["kind"] == "gen":
        return "%s<%s>" % (t["name"], t["targ"])
    if t["kind"] == "gen2":
        return "%s<%s, %s>" % (t["name"], t["targs"][0], t["targs"][1])
    return t["name"]


def is_builtin(t):
    return t["kind"] in ("option", "result")


def line_a(c):
    t = c["type"]
    vs = t["variants"]

    def cv(x):
        return "%s:%s" % (hx(vs[x[0]][0]), pl_ser(x[1]))
    steps = []
    for s in c["steps"]:
        steps.append(s[0] if len(s) == 1 else "%s:%s" % (s[0], cv(s[1])))
    arms = []
    for a in c["arms"]:
        arms.append("w" if a[0] == "w" else "v:%s:%s" % (hx(a[1]), a[2]))
    return "\t".join(["A", hx(type_name(t)), hx(vs[c["val"][0]][0]), pl_ser(c["val"][1]), c["src"],
                      ",".join(steps) or "-", c["final"], ",".join(arms) or "-"])


def kind_in(t, vname):
    """payload kind (int / long / string / none) the variant `vname` carries in type t; None if t has no such variant"""
    for n, k in t["variants"]:
        if n == vname:
            return t.get("targ", k) if (t["kind"] == "gen" and k != "none") else k
    return None


def bind_name(bn, kind, i, suffix=""):
    """Binding-name schemes. Names are shared between arms / matches / functions only when the payload kinds agree
    (known finding C13-binding-name-reuse: int then string under one name prints an address, string then int crashes) and
    never equal a variable of the program (C13-binding-overwrites-variable)."""
    k = "s" if kind == "string" else ("z" if kind in (None, "none") else "i")
    if bn == 1:
        return "c" + k + suffix
    if bn == 2:
        return "_" + k + suffix
    if bn == 3:
        return {"i": "p", "s": "pp", "z": "ppp"}[k] + suffix
    return "b%d%s%s" % (i, k if suffix else "", suffix)


def arm_text(a, i, kind, bn, body, block_fmt, expr_fmt, extra="", suffix=""):
    """One arm. block_fmt: statement with one %s for ', <binding>' or ''; expr_fmt: helper call with %s for the helper
    letter (w/s/n) and %s for ', <binding>' or ''. body 0: block; 1: single expression (trailing semicolon on even arms)."""
    if a[0] == "w":
        pat, b = "_", None
    elif a[2] == "n":
        pat, b = a[1], None
    elif a[2] == "u":
        pat, b = "%s(_)" % a[1], None
    else:
        b = bind_name(bn, kind, i, suffix)
        pat = "%s(%s)" % (a[1], b)
    if body and not extra:
        letter = "n" if b is None else ("s" if kind == "string" else "w")
        return "%s => %s%s" % (pat, expr_fmt % (letter, "" if b is None else ", " + b), ";" if i % 2 == 0 else "")
    return "%s => { %s%s }" % (pat, block_fmt % ("" if b is None else ", " + b), extra)


def cb_a(c, k=None):
    """k = None: a whole program. k = item number: the same statements as functions of a sequence program (family S) - every
    function name gets the suffix _k, `main` becomes `void item_k()`, the enum declaration is left to the caller."""
    t = c["type"]
    tn = type_name(t)
    vs = t["variants"]
    out = []
    x = "" if k is None else "_%d" % k
    if k is None:
        out += enum_decl(t)
    vi, pay = c["val"]
    direct = c["final"] in ("mk", "mkv", "cons")
    out.append("%s idf%s(%s x) { return x; }" % (tn, x, tn))
    out.append("%s mk%s() { return %s; }" % (tn, x, cons(tn, vs[vi][0], pay)))
    out.append("%s mkv%s() { %s t = %s; return t; }" % (tn, x, tn, cons(tn, vs[vi][0], pay)))
    bn, body = c.get("bn", 0), c.get("body", 0)
    if body:
        out.append('void shw%s(int i, long x) { println("arm", i, x); }' % x)
        out.append('void shs%s(int i, string x) { println("arm", i, x); }' % x)
        out.append('void shn%s(int i) { println("arm", i); }' % x)
    arms = []
    for i, a in enumerate(c["arms"]):
        arms.append(arm_text(a, i, kind_in(t, a[1]) if a[0] == "v" else None, bn, body,
                             'println("arm %d"%s);' % (i, "%s"), "sh%s%s(%d%s)" % ("%s", x, i, "%s"),
                             suffix="" if k is None else "q%d" % k))
    funcs, cur, n, hn = [], [], 0, 0
    hdr = "void main() {" if k is None else "void item_%d() {" % k
    if not direct:
        if c["src"] == "cons":
            cur.append("%s v0 = %s;" % (tn, cons(tn, vs[vi][0], pay)))
        elif c["src"] == "call":
            cur.append("%s v0 = mk%s();" % (tn, x))
        else:
            cur.append("%s v0 = mkv%s();" % (tn, x))
        for s in c["steps"]:
            sk = s[0]
            if sk == "dv":
                cur.append("%s v%d = v%d;" % (tn, n + 1, n)); n += 1
            elif sk == "dc":
                cur.append("%s v%d = idf%s(v%d);" % (tn, n + 1, x, n)); n += 1
            elif sk == "av":
                cur.append("%s v%d = %s;" % (tn, n + 1, cons(tn, vs[s[1][0]][0], s[1][1])))
                cur.append("v%d = v%d;" % (n + 1, n)); n += 1
            elif sk == "ac":
                cur.append("%s v%d = %s;" % (tn, n + 1, cons(tn, vs[s[1][0]][0], s[1][1])))
                cur.append("v%d = idf%s(v%d);" % (n + 1, x, n)); n += 1
            elif sk == "as":
                cur.append("v%d = %s;" % (n, cons(tn, vs[s[1][0]][0], s[1][1])))
            elif sk == "pa":
                hn += 1
                cur.append("h%d%s(v%d);" % (hn, x, n))
                cur.append('println("back %d");' % hn)
                funcs.append([hdr] + ["    " + l for l in cur] + ["}"])
                hdr = "void h%d%s(%s v%d) {" % (hn, x, tn, n + 1)
                cur = []
                n += 1
    f = c["final"]
    if f in ("obs", "val"):
        cur.append("println(v%d.%s);" % (n, "variant" if f == "obs" else "value"))
    else:
        scr = {"var": "v%d" % n, "call": "idf%s(v%d)" % (x, n), "mk": "mk%s()" % x, "mkv": "mkv%s()" % x,
               "cons": cons(tn, vs[vi][0], pay)}[f]
        cur.append("match (%s) {" % scr)
        cur += ["    " + a for a in arms]
        cur.append("}")
    cur.append('println("after");')
    funcs.append([hdr] + ["    " + l for l in cur] + ["}"])
    for fn in reversed(funcs):
        out += fn
    return "\n".join(out) + "\n"


# ------------------------------------------------------------------ family M
# case: {"fam":"M","types":[type],"fns":[{"style","ty","ty2","arms","nest":None|[i0,arms2]}],
#        "calls":[{"fn","val":[vi,payload],"val2":[vi,payload]|None,"direct":bool}],"bn":int}
# style: inline | void | ret | expr | loop
def arms_ser(arms):
    return ",".join("w" if a[0] == "w" else "v:%s:%s" % (hx(a[1]), a[2]) for a in arms) or "-"


def m_nest(f):
    return None if f["style"] == "expr" else f.get("nest")


def line_m(c):
    fns = []
    for f in c["fns"]:
        n = f.get("nest")
        fns.append("%s|%s|%s" % (f["style"], arms_ser(f["arms"]), "-" if not n else "%d/%s" % (n[0], arms_ser(n[1]))))
    calls = []
    for k in c["calls"]:
        f = c["fns"][k["fn"]]
        t1 = c["types"][f["ty"]]
        v1 = "%s:%s" % (hx(t1["variants"][k["val"][0]][0]), pl_ser(k["val"][1]))
        if k.get("val2"):
            t2 = c["types"][f["ty2"]]
            v2 = "%s:%s" % (hx(t2["variants"][k["val2"][0]][0]), pl_ser(k["val2"][1]))
        else:
            v2 = ":N"
        calls.append("%d|%s|%s|%d" % (k["fn"], v1, v2, 1 if (k.get("direct") and f["style"] != "inline") else 0))
    return "\t".join(["M", ";".join(fns) or "-", ";".join(calls) or "-"])


def enum_decl(t):
    if t["kind"] == "user":
        return ["enum %s {" % t["name"], ",\n".join("    %s%s" % (n, "" if k == "none" else "(%s)" % k) for n, k in t["variants"]), "};"]
    if t["kind"] == "gen":
        return ["enum %s<T> {" % t["name"], ",\n".join("    %s%s" % (n, "" if k == "none" else "(T)") for n, k in t["variants"]), "};"]
    if t["kind"] == "gen2":      # two type parameters, a concrete-typed variant, a payload-less one
        return ["enum %s<T, U> {" % t["name"], ",\n".join("    " + d for d in t["decl"]), "};"]
    return []


def cb_m(c):
    bn = c.get("bn", 0)
    out = []
    seen = set()
    for t in c["types"]:
        if t["kind"] in ("user", "gen", "gen2") and t["name"] not in seen:
            seen.add(t["name"])
            out += enum_decl(t)
    if any(f["style"] == "expr" for f in c["fns"]):
        out.append('void shw(int j, int i, long x) { println("m", j, "arm", i, x); }')
        out.append('void shs(int j, int i, string x) { println("m", j, "arm", i, x); }')
        out.append('void shn(int j, int i) { println("m", j, "arm", i); }')

    def match_lines(j, f, scr, scr2):
        t1 = c["types"][f["ty"]]
        nest = m_nest(f)
        lines = ["match (%s) {" % scr]
        for i, a in enumerate(f["arms"]):
            extra = ""
            if nest and nest[0] == i:
                t2 = c["types"][f["ty2"]]
                inner = " ".join(arm_text(a2, i2, kind_in(t2, a2[1]) if a2[0] == "v" else None, bn, 0,
                                          'println("n", %d, "arm", %d%s);' % (j, i2, "%s"), "", suffix="n%d" % j if bn == 0 else "n")
                                 for i2, a2 in enumerate(nest[1]))
                extra = " match (%s) { %s }" % (scr2, inner)
            if f["style"] == "ret":
                extra += " return %d;" % i
            lines.append("    " + arm_text(a, i, kind_in(t1, a[1]) if a[0] == "v" else None, bn, 1 if f["style"] == "expr" else 0,
                                           'println("m", %d, "arm", %d%s);' % (j, i, "%s"), "sh%s(%d, %d%s)" % ("%s", j, i, "%s"),
                                           extra=extra, suffix="f%d" % j if bn == 0 else ""))
        lines.append("}")
        return lines

    for j, f in enumerate(c["fns"]):
        if f["style"] == "inline":
            continue
        params = "%s ev" % type_name(c["types"][f["ty"]])
        if m_nest(f):
            params += ", %s ev2" % type_name(c["types"][f["ty2"]])
        out.append("%s h%d(%s) {" % ("int" if f["style"] == "ret" else "void", j, params))
        ml = match_lines(j, f, "ev", "ev2")
        if f["style"] == "loop":
            out.append("    for (int k = 0; k < 2; k = k + 1) {")
            out += ["        " + l for l in ml]
            out.append("    }")
        else:
            out += ["    " + l for l in ml]
        if f["style"] == "ret":
            out += ['    println("fell", %d);' % j, "    return 99;"]
        else:
            out.append('    println("end", %d);' % j)
        out.append("}")
    out.append("void main() {")
    for n, k in enumerate(c["calls"]):
        j = k["fn"]
        f = c["fns"][j]
        t1 = c["types"][f["ty"]]
        direct = k.get("direct") and f["style"] != "inline"
        e1 = cons(type_name(t1), t1["variants"][k["val"][0]][0], k["val"][1])
        if not direct:
            out.append("    %s a%d = %s;" % (type_name(t1), n, e1))
        args = [e1 if direct else "a%d" % n]
        if m_nest(f):
            t2 = c["types"][f["ty2"]]
            v2 = k.get("val2") or [0, ["none"]]
            out.append("    %s c%d = %s;" % (type_name(t2), n, cons(type_name(t2), t2["variants"][v2[0]][0], v2[1])))
            args.append("c%d" % n)
        if f["style"] == "inline":
            out += ["    " + l for l in match_lines(j, f, args[0], args[1] if len(args) > 1 else "")]
            out.append('    println("end", %d);' % j)
        elif f["style"] == "ret":
            out.append("    int r%d = h%d(%s);" % (n, j, ", ".join(args)))
            out.append('    println("ret", %d, r%d);' % (j, n))
        else:
            out.append("    h%d(%s);" % (j, ", ".join(args)))
    out.append('    println("after");')
    out.append("}")
    return "\n".join(out) + "\n"


# ------------------------------------------------------------------ family Q
# case: {"fam":"Q","kind":"R"|"O","ok":payload,"sel":int,"links":[[ctx,payload]],"ekind":"int"|"string"}
def line_q(c):
    return "\t".join(["Q", c["kind"], pl_ser(c["ok"]), str(c["sel"]),
                      ",".join("%s:%s%s" % (l[0], pl_ser(l[1]), ":v" if len(l) > 2 and l[2] == "v" else "") for l in c["links"]) or "-"])


def cb_q(c, k=None):
    """k = item number: functions f<i>_k and `void item_k(int sel)` instead of main (family S)."""
    strchain = c["ok"][0] == "str"
    T = "string" if strchain else "long"
    x = "" if k is None else "_%d" % k
    if c["kind"] == "R":
        R = "Result<%s, %s>" % (T, c.get("ekind", "string"))
        okv, errv = "Ok", "Err"
    else:
        R = "Option<%s>" % T
        okv, errv = "Some", "None"
    n = len(c["links"])
    out = []
    for i in range(n, 0, -1):
        ctx, ep = c["links"][i - 1][:2]
        opvar = len(c["links"][i - 1]) > 2 and c["links"][i - 1][2] == "v"
        b = ['println("enter", %d);' % i]
        fail = cons(R, errv, ep) if c["kind"] == "R" else "%s::None" % R
        b.append("if (x == %d) { return %s; }" % (i, fail))
        if i == n:
            b.append("return %s;" % cons(R, okv, c["ok"]))
        else:
            call = "f%d%s(x)?" % (i + 1, x)
            if opvar:       # ? applied to a variable declared from the call
                b.append("%s t = f%d%s(x);" % (R, i + 1, x))
                call = "t?"
            if ctx == "decl":
                b += ["%s v = %s;" % (T, call), 'println("post", %d, v);' % i, "return %s::%s(v);" % (R, okv)]
            elif ctx == "asg":
                b += ["%s v = %s;" % (T, '""' if strchain else "0"), "v = %s;" % call,
                      'println("post", %d, v);' % i, "return %s::%s(v);" % (R, okv)]
            elif ctx == "ret":
                b += ["return %s::%s(%s);" % (R, okv, call)]
            elif ctx == "bin":
                b += ["long v = 0 + (%s);" % call, 'println("post", %d, v);' % i, "return %s::%s(v);" % (R, okv)]
            else:
                b += ["%s;" % call, 'println("post", %d);' % i, "return %s::%s(100);" % (R, okv)]
        out.append("%s f%d%s(int x) {" % (R, i, x))
        out += ["    " + l for l in b]
        out.append("}")
    bs = "" if k is None else "q%d" % k
    if k is None:
        out.append("void main() {")
        arg = str(c["sel"])
    else:
        out.append("void item_%d(int sel) {" % k)
        arg = "sel"
    if n:
        out.append("    match (f1%s(%s)) {" % (x, arg))
        if c["kind"] == "R":
            out.append('        Ok(b0%s) => { println("arm 0", b0%s); }' % (bs, bs))
            out.append('        Err(b1%s) => { println("arm 1", b1%s); }' % (bs, bs))
        else:
            out.append('        Some(b0%s) => { println("arm 0", b0%s); }' % (bs, bs))
            out.append('        None => { println("arm 1"); }')
        out.append("    }")
    out.append('    println("after");')
    out.append("}")
    return "\n".join(out) + "\n"


# ------------------------------------------------------------------ family T
# expr: ["A"] ["B"] ["L",int] ["D0"] ["D1"] ["I",e] [op,x,y] with op in + - * / %, ["DV",x,y] ["MD",x,y] ["AT",i] (the operation in a callee)
# string-valued: ["SL",text] ["SA"] ["SB"] ["SC",x,y] (x + y) ["SK",x,y] cat(x, y) ["SI",i] names[i] ["SN",i] nm(i)
S_TAGS = ("SL", "SA", "SB", "SC", "SK", "SI", "SN")
RTS = "Result<string, RuntimeError>"


def is_sexpr(e):
    return e[0] in S_TAGS


def ex_ser(e):
    k = e[0]
    if k in ("A", "B", "D0", "D1", "SA", "SB"):
        return k
    if k == "L":
        return "L%d" % e[1]
    if k == "SL":
        return "SL" + hx(e[1])
    if k in ("I", "AT", "SI", "SN"):
        return k + " " + ex_ser(e[1])
    return "%s %s %s" % (k, ex_ser(e[1]), ex_ser(e[2]))


def ex_cb(e):
    k = e[0]
    if k == "A":
        return "a"
    if k == "B":
        return "b"
    if k == "L":
        return str(e[1]) if e[1] >= 0 else "(0 - %d)" % (-e[1])
    if k == "D0":
        return "(*p)"
    if k == "D1":
        return "(*np)"
    if k == "I":
        return "arr[%s]" % ex_cb(e[1])
    if k == "AT":
        return "at(%s)" % ex_cb(e[1])
    if k in ("DV", "MD"):
        return "%s(%s, %s)" % (k.lower(), ex_cb(e[1]), ex_cb(e[2]))
    if k == "SL":
        return '"%s"' % e[1]
    if k == "SA":
        return "sa"
    if k == "SB":
        return "sb"
    if k == "SI":
        return "names[%s]" % ex_cb(e[1])
    if k == "SN":
        return "nm(%s)" % ex_cb(e[1])
    if k == "SK":
        return "cat(%s, %s)" % (ex_cb(e[1]), ex_cb(e[2]))
    if k == "SC":
        return "(%s + %s)" % (ex_cb(e[1]), ex_cb(e[2]))
    return "(%s %s %s)" % (ex_cb(e[1]), k, ex_cb(e[2]))


def ex_atom(e):
    return e[0] in ("A", "B", "L", "I", "AT", "DV", "MD", "SL", "SA", "SB", "SI", "SN", "SK")


def ex_has_call(e):
    return e[0] in ("AT", "DV", "MD", "SN", "SK") or any(ex_has_call(x) for x in e[1:] if isinstance(x, list))


T_HELPERS = ["long dv(long p, long q) { int u = 3; return p / q; }", "long md(long p, long q) { return p % q; }",
             "long at(long i) { int[3] t; t[0] = 5; t[1] = 15; t[2] = 25; return t[i]; }",
             'string nm(long i) { string[3] t = ["ann", "bob", "cy"]; return t[i]; }',
             "string cat(string p, string q) { return p + q; }"]


def t_strs(c):
    return c.get("sa", "foo"), c.get("sb", "bar")


def line_t(c):
    sa, sb = t_strs(c)
    return "\t".join(["T", "1" if c["checked"] else "0", c["ctx"], str(c["a"]), str(c["b"]), hx(sa), hx(sb), ex_ser(c["expr"])])


def cb_t(c, k=None):
    """k = item number: g_k and `void item_k(int a, int b[, string sa, string sb])` instead of main; the helper functions
    are left to the caller (family S)."""
    kw = "checked" if c["checked"] else "try"
    e = c["expr"]
    st = is_sexpr(e)
    x = "" if k is None else "_%d" % k
    R = RTS if st else RT
    if e[0] in ("D0", "D1"):
        te = "%s %s" % (kw, "*p" if e[0] == "D0" else "*np")
    elif ex_atom(e) and not (e[0] == "L" and e[1] < 0):
        te = "%s %s" % (kw, ex_cb(e))
    else:
        te = "%s %s" % (kw, ex_cb(e) if ex_cb(e).startswith("(") else "(" + ex_cb(e) + ")")
    setup = ["int[3] arr; arr[0] = 5; arr[1] = 15; arr[2] = 25;", "int x = 4; int* p = &x; int* np = nullptr;"]
    if st:
        setup.append('string[3] names = ["ann", "bob", "cy"];')
    bs = "" if k is None else "q%d" % k
    arms = ["match (%s) {", '    Ok(b0%s) => { println("arm 0", b0%s); }' % (bs, bs),
            '    Err(b1%s) => { println("arm 1", b1%s); }' % (bs, bs), "}"]
    out = list(T_HELPERS) if (ex_has_call(e) and k is None) else []
    ctx = c["ctx"]
    sa, sb = t_strs(c)
    params = "int a, int b, string sa, string sb" if st else "int a, int b"
    pnames = "a, b, sa, sb" if st else "a, b"
    A, B = int_lit(c["a"]), int_lit(c["b"])
    largs = "%s, %s" % (A, B) + (', "%s", "%s"' % (sa, sb) if st else "")
    if ctx in ("ret", "decl"):
        out.append("%s g%s(%s) {" % (R, x, params))
        out += ["    " + s for s in setup]
        out.append('    println("g1");')
        if ctx == "ret":
            out.append("    return %s;" % te)
        else:
            out += ["    %s r = %s;" % (R, te), '    println("g2");', "    return r;"]
        out.append("}")
        if k is None:
            out.append("void main() {")
            call = "g(%s)" % largs
        else:
            out.append("void item_%d(%s) {" % (k, params))
            call = "g%s(%s)" % (x, pnames)
        out += ["    " + (a % call if "%s" in a else a) for a in arms]
        out += ['    println("after");', "}"]
    elif ctx in ("void", "asg"):
        out.append("void g%s(%s) {" % (x, params))
        out += ["    " + s for s in setup]
        if ctx == "void":
            out += ['    println("g1");', "    %s r = %s;" % (R, te), '    println("g2");']
        else:
            out += ["    %s r = %s::Ok(%s);" % (R, R, '"z"' if st else "0"), '    println("g1");', "    r = %s;" % te, '    println("g2");']
        out += ["    " + (a % "r" if "%s" in a else a) for a in arms]
        out.append("}")
        if k is None:
            out += ["void main() {", "    g(%s);" % largs, '    println("after");', "}"]
        else:
            out += ["void item_%d(%s) {" % (k, params), "    g%s(%s);" % (x, pnames), '    println("after");', "}"]
    else:
        if k is None:
            out.append("void main() {")
            out += ["    int a = %s; int b = %s;" % (A, B)]
            if st:
                out += ['    string sa = "%s"; string sb = "%s";' % (sa, sb)]
        else:
            out.append("void item_%d(%s) {" % (k, params))
        out += ["    " + s for s in setup]
        if ctx == "main":
            out += ['    println("g1");', "    %s r = %s;" % (R, te), '    println("g2");']
        else:
            out += ["    %s r = %s::Ok(%s);" % (R, R, '"z"' if st else "0"), '    println("g1");', "    r = %s;" % te, '    println("g2");']
        out += ["    " + (a % "r" if "%s" in a else a) for a in arms]
        out += ['    println("after");', "}"]
    return "\n".join(out) + "\n"


def py_eval3(e, a, b, sa="foo", sb="bar"):
    """(value or None, largest intermediate magnitude, error kind or None) - generator-side guard only."""
    k = e[0]
    if k == "SL":
        return e[1], 0, None
    if k == "SA":
        return sa, 0, None
    if k == "SB":
        return sb, 0, None
    if k in ("SI", "SN"):
        v, m, err = py_eval3(e[1], a, b)
        if v is None:
            return None, m, err
        if v < 0 or v > 2:
            return None, m, "bounds"
        return ["ann", "bob", "cy"][v], m, None
    if k == "SK" and not all(x[0] in ("SL", "SA", "SB") for x in e[1:]):
        return None, 0, "argtype"        # rejected before anything is evaluated
    if k in ("SC", "SK"):
        u, mu, err = py_eval3(e[1], a, b, sa, sb)
        if u is None:
            return None, mu, err
        v, mv, err = py_eval3(e[2], a, b, sa, sb)
        if v is None:
            return None, max(mu, mv), err
        return u + v, max(mu, mv), None
    if k == "A":
        return a, abs(a), None
    if k == "B":
        return b, abs(b), None
    if k == "L":
        return e[1], abs(e[1]), None
    if k == "D0":
        return 4, 4, None
    if k == "D1":
        return None, 0, "null"
    if k in ("I", "AT"):
        v, m, err = py_eval3(e[1], a, b)
        if v is None:
            return None, m, err
        if v < 0 or v > 2:
            return None, m, "bounds"
        return [5, 15, 25][v], max(m, 25), None
    x, mx, err = py_eval3(e[1], a, b)
    if x is None:
        return None, mx, err
    y, my, err = py_eval3(e[2], a, b)
    m = max(mx, my)
    if y is None:
        return None, m, err
    if k == "+":
        r = x + y
    elif k == "-":
        r = x - y
    elif k == "*":
        r = x * y
    else:
        if y == 0:
            return None, m, "div0" if k in ("/", "DV") else "mod0"
        q = abs(x) // abs(y)
        if (x < 0) != (y < 0):
            q = -q
        r = q if k in ("/", "DV") else x - q * y
    return r, max(m, abs(r)), None


def py_eval(e, a, b):
    v, m, _ = py_eval3(e, a, b)
    return v, m


# ------------------------------------------------------------------ family R (one variable assigned again and again)
# case: {"fam":"R","type":t,"init":[vi,payload],"steps":[{"val":[vi,payload],"how":"var|call|mkv|mk","fn":bool}],"arms":[...]}
def line_r(c):
    t = c["type"]
    vs = t["variants"]

    def cv(x):
        return "%s:%s" % (hx(vs[x[0]][0]), pl_ser(x[1]))
    steps = ["%s:%d:%s" % (st["how"], 1 if st.get("fn") else 0, cv(st["val"])) for st in c["steps"]]
    return "\t".join(["R", hx(type_name(t)), cv(c["init"]), ",".join(steps) or "-", arms_ser(c["arms"])])


def cb_r(c):
    t = c["type"]
    tn = type_name(t)
    vs = t["variants"]
    out = list(enum_decl(t))
    out.append("%s idf(%s x) { return x; }" % (tn, tn))
    for k, st in enumerate(c["steps"]):
        e = cons(tn, vs[st["val"][0]][0], st["val"][1])
        if st["how"] == "mkv":
            out.append("%s mkv_%d() { %s t = %s; return t; }" % (tn, k, tn, e))
        elif st["how"] == "mk":
            out.append("%s mk_%d() { return %s; }" % (tn, k, e))

    def match_lines(scr, kexpr):
        lines = ["match (%s) {" % scr]
        for i, a in enumerate(c["arms"]):
            lines.append("    " + arm_text(a, i, kind_in(t, a[1]) if a[0] == "v" else None, 1, 0,
                                           'println("m", %s, "arm", %d%s);' % (kexpr, i, "%s"), ""))
        lines.append("}")
        return lines
    out.append("void show(%s x, int k) {" % tn)
    out += ["    " + l for l in match_lines("x", "k")]
    out.append("}")
    fld = any(st["how"] == "fld" for st in c["steps"])
    if fld:
        out.insert(len(enum_decl(t)), "struct Box { %s e; int n; };" % tn)
    out.append("void main() {")
    if fld:
        out.append("    Box bx;")
    out.append("    %s w = %s;" % (tn, cons(tn, vs[c["init"][0]][0], c["init"][1])))
    for k, st in enumerate(c["steps"]):
        e = cons(tn, vs[st["val"][0]][0], st["val"][1])
        if st["how"] == "var":
            out += ["    %s u%d = %s;" % (tn, k, e), "    w = u%d;" % k]
        elif st["how"] == "call":
            out += ["    %s u%d = %s;" % (tn, k, e), "    w = idf(u%d);" % k]
        elif st["how"] == "mkv":
            out.append("    w = mkv_%d();" % k)
        elif st["how"] == "fld":
            out += ["    %s u%d = %s;" % (tn, k, e), "    bx.e = u%d;" % k, "    %s x%d = bx.e;" % (tn, k)]
        else:
            out.append("    w = mk_%d();" % k)
        seen = "x%d" % k if st["how"] == "fld" else "w"
        if st.get("fn"):
            out.append("    show(%s, %d);" % (seen, k))
        else:
            out += ["    " + l for l in match_lines(seen, str(k))]
    out.append('    println("after");')
    out.append("}")
    return "\n".join(out) + "\n"


# ------------------------------------------------------------------ family S (several A / Q / T programs as functions of one program)
# case: {"fam":"S","items":[A/Q/T case],"calls":[{"item":j,"a":int,"b":int,"sa":str,"sb":str,"sel":int}]}
# a T item runs with the operands of the call, a Q item with the call's failing link; an A item takes no argument
def s_call_fields(k):
    return int(k.get("a", 0)), int(k.get("b", 0)), k.get("sa", "foo"), k.get("sb", "bar"), int(k.get("sel", 0))


def line_s(c):
    items = [to_line(it).replace("\t", "\x1d") for it in c["items"]]
    calls = []
    for k in c["calls"]:
        a, b, sa, sb, sel = s_call_fields(k)
        calls.append("%d:%d:%d:%s:%s:%d" % (k["item"], a, b, hx(sa), hx(sb), sel))
    return "\t".join(["S", "\x1e".join(items) or "-", ",".join(calls) or "-"])


def cb_s(c):
    out, seen = [], set()
    for it in c["items"]:
        if it["fam"] == "A":
            d = "\n".join(enum_decl(it["type"]))
            if d and d not in seen:
                seen.add(d)
                out += enum_decl(it["type"])
    if any(it["fam"] == "T" and ex_has_call(it["expr"]) for it in c["items"]):
        out += T_HELPERS
    for j, it in enumerate(c["items"]):
        out.append({"A": cb_a, "Q": cb_q, "T": cb_t}[it["fam"]](it, j).rstrip("\n"))
    out.append("void main() {")
    for n, k in enumerate(c["calls"]):
        it = c["items"][k["item"]]
        a, b, sa, sb, sel = s_call_fields(k)
        if it["fam"] == "T":
            args = "%s, %s" % (int_lit(a), int_lit(b)) + (', "%s", "%s"' % (sa, sb) if is_sexpr(it["expr"]) else "")
        elif it["fam"] == "Q":
            args = str(sel)
        else:
            args = ""
        out.append('    println("call", %d);' % n)
        out.append("    item_%d(%s);" % (k["item"], args))
    out.append('    println("done");')
    out.append("}")
    return "\n".join(out) + "\n"


def s_item_at(c, k):
    """the item of call k with the call's operands (what the model runs)"""
    it = c["items"][k["item"]]
    a, b, sa, sb, sel = s_call_fields(k)
    if it["fam"] == "T":
        return dict(it, a=a, b=b, sa=sa, sb=sb)
    if it["fam"] == "Q":
        return dict(it, sel=sel)
    return it


def s_normalise(c):
    """user enums of different A items must not collide: the same name must mean the same declaration (a generic enum
    instantiated with several type arguments is ONE declaration); otherwise the later item's type is renamed."""
    decls = {}
    items = []
    for j, it in enumerate(c["items"]):
        if it["fam"] == "A" and it["type"]["kind"] in ("user", "gen", "gen2"):
            t = it["type"]
            d = "\n".join(enum_decl(t))
            if decls.setdefault(t["name"], d) != d:
                t = dict(t, name="%s%d" % (t["name"], j))
                decls[t["name"]] = "\n".join(enum_decl(t))
                it = dict(it, type=t)
        items.append(it)
    return dict(c, items=items)


# ------------------------------------------------------------------ families L / LT / LQ (nested payloads, statements executed again in one scope)
# nested type: {"k":"int"|"long"|"string"} | {"k":"rec","name":N,"fields":[[fname,"int"|"long"|"string"]]} | {"k":"opt","t":T} |
#              {"k":"res","t":T,"e":T} | {"k":"usr","name":N,"vars":[[n1,T],[n2,T],[n3,T],[n4,None]]}
# nested value: ["i",int] | ["s",text] | ["r",[scalar values]] | ["e",variant,None|value]
# case L: {"fam":"L","type":T,"src","steps":[["dv"]|["dc"]|["pa"]|["av",[variant,payload]]|["ac",..]|["as",..]],"final","arms",
#          "vals":[value],"loop":"for"|"while"|"seq","merge":bool,"argcall":bool}
def nt_name(T):
    k = T["k"]
    if k in ("int", "long", "string"):
        return k
    if k in ("rec", "usr"):
        return T["name"]

    def arg(x):
        n = nt_name(x)
        return n + " " if n.endswith(">") else n
    if k == "opt":
        return "Option<%s>" % arg(T["t"])
    if k == "gen":
        return "%s<%s>" % (T["name"], arg(T["t"]))
    return "Result<%s, %s>" % (nt_name(T["t"]), arg(T["e"]))


def nt_variants(T):
    k = T["k"]
    if k == "opt":
        return [("Some", T["t"]), ("None", None)]
    if k == "res":
        return [("Ok", T["t"]), ("Err", T["e"])]
    if k == "gen":
        return [(T["n1"], T["t"]), (T["n2"], None)]
    if k == "usr":
        return [(n, t) for n, t in T["vars"]]
    return []


def nt_ser(T):
    k = T["k"]
    if k in ("int", "long"):
        return "I"
    if k == "string":
        return "S"
    if k == "rec":
        return "R"
    if k == "opt":
        return "O " + nt_ser(T["t"])
    if k == "gen":
        return "G %s %s %s" % (hx(T["n1"]), nt_ser(T["t"]), hx(T["n2"]))
    if k == "res":
        return "E %s %s" % (nt_ser(T["t"]), nt_ser(T["e"]))
    v = T["vars"]
    return "U %s %s %s %s %s %s %s" % (hx(v[0][0]), nt_ser(v[0][1]), hx(v[1][0]), nt_ser(v[1][1]), hx(v[2][0]), nt_ser(v[2][1]), hx(v[3][0]))


def nt_decls(T, seen, out):
    """struct and enum declarations the type needs, innermost first"""
    k = T["k"]
    if k == "rec":
        if T["name"] not in seen:
            seen.add(T["name"])
            out.append("struct %s { %s };" % (T["name"], " ".join("%s %s;" % (ft, fn) for fn, ft in T["fields"])))
    elif k == "opt":
        nt_decls(T["t"], seen, out)
    elif k == "gen":
        nt_decls(T["t"], seen, out)
        if T["name"] not in seen:
            seen.add(T["name"])
            out.append("enum %s<T> { %s(T), %s };" % (T["name"], T["n1"], T["n2"]))
    elif k == "res":
        nt_decls(T["t"], seen, out)
        nt_decls(T["e"], seen, out)
    elif k == "usr":
        for n, t in T["vars"]:
            if t is not None:
                nt_decls(t, seen, out)
        if T["name"] not in seen:
            seen.add(T["name"])
            out.append("enum %s { %s };" % (T["name"], ", ".join(n if t is None else "%s(%s)" % (n, nt_name(t)) for n, t in T["vars"])))


def nv_ser(v):
    if v[0] == "i":
        return "i%d" % int(v[1])
    if v[0] == "s":
        return "s" + hx(v[1])
    if v[0] == "r":
        return " ".join(["r%d" % len(v[1])] + [nv_ser(f) for f in v[1]])
    return "e%s %s" % (hx(v[1]), "-" if v[2] is None else "+ " + nv_ser(v[2]))


def nv_pl(p):
    """a scalar nested value as a family-A payload"""
    return ["none"] if p is None else (["int", str(p[1])] if p[0] == "i" else ["str", p[1]])


def scal_lit(v):
    return int_lit(v[1]) if v[0] == "i" else '"%s"' % v[1]


def l_steps_ser(steps):
    out = []
    for s in steps:
        out.append(s[0] if len(s) == 1 else "%s:%s:%s" % (s[0], hx(s[1][0]), pl_ser(s[1][1])))
    return ",".join(out) or "-"


def l_winit(c):
    """initial value [variant, payload] of the outer variable w (`T w = T::D(q);` before the loop): given, or the first variant
    of the type that carries a scalar or nothing"""
    if c.get("winit"):
        return c["winit"]
    for n, t in nt_variants(c["type"]):
        if t is None:
            return [n, ["none"]]
        if t["k"] in ("int", "long", "string"):
            return [n, ["int", "1"] if t["k"] != "string" else ["str", "w"]]
    return [nt_variants(c["type"])[0][0], ["none"]]


def line_l(c):
    w = l_winit(c)
    f = ["L", hx(nt_name(c["type"])), nt_ser(c["type"]), c["src"], l_steps_ser(c["steps"]), c["final"], arms_ser(c["arms"]),
         ";".join(nv_ser(v) for v in c["vals"]) or "-", "%s:%s" % (hx(w[0]), pl_ser(w[1]))]
    if c.get("erase") is False:          # only used by hand (the model of the change the loop theorems exclude)
        f.append("0")
    return "\t".join(f)


def l_prep(T, v, tag, argcall, funcs):
    """statements that build the value v of type T in a variable, and the expression naming it: scalars are literals, a
    struct is declared and filled member by member, an enum value is declared from its own constructor (recursively).
    argcall: the struct / enum argument is written as a call of a function returning it."""
    k = T["k"]
    if k in ("int", "long", "string"):
        return [], scal_lit(v)
    if k == "rec":
        name = "q" + tag
        st = ["%s %s;" % (T["name"], name)] + ["%s.%s = %s;" % (name, fn, scal_lit(fv)) for (fn, ft), fv in zip(T["fields"], v[1])]
        if argcall:
            fn = "mkq" + tag
            funcs.append("%s %s() { %s return %s; }" % (T["name"], fn, " ".join(st), name))
            return [], fn + "()"
        return st, name
    # an enum value
    pt = dict(nt_variants(T)).get(v[1])
    tn = nt_name(T)
    name = "n" + tag
    if v[2] is None or pt is None:
        st, e = [], "%s::%s" % (tn, v[1])
    else:
        st, a = l_prep(pt, v[2], tag + "x", False, funcs)
        e = "%s::%s(%s)" % (tn, v[1], a)
    st = st + ["%s %s = %s;" % (tn, name, e)]
    if argcall:
        fn = "mkn" + tag
        funcs.append("%s %s() { %s return %s; }" % (tn, fn, " ".join(st), name))
        return [], fn + "()"
    return st, name


def l_cons(T, v, tag, argcall, funcs, scalar_var=False):
    """(prep statements, constructor expression) for the top-level value v = ["e", variant, payload] of type T;
    scalar_var: a scalar payload is first stored in a variable (so that ONE constructor statement serves several executions)"""
    pt = dict(nt_variants(T)).get(v[1])
    tn = nt_name(T)
    if v[2] is None or pt is None:
        return [], "%s::%s" % (tn, v[1])
    st, a = l_prep(pt, v[2], tag, argcall, funcs)
    if scalar_var and pt["k"] in ("int", "long", "string"):
        st, a = ["%s x%s = %s;" % (pt["k"], tag, a)], "x" + tag
    return st, "%s::%s(%s)" % (tn, v[1], a)


def l_body(T, path, b):
    """the body of an arm whose binding b has the declared type T (mirrors ModelNest.consume)"""
    lab = "arm " + " in ".join(str(x) for x in path)
    if T is None:
        return 'println("%s");' % lab
    k = T["k"]
    if k in ("int", "long", "string"):
        return 'println("%s", %s);' % (lab, b)
    if k == "rec":
        return 'println("%s", %s);' % (lab, ", ".join("%s.%s" % (b, fn) for fn, ft in T["fields"]))
    arms = []
    for j, (n, t) in enumerate(nt_variants(T)):
        if t is None:
            arms.append('%s => { %s }' % (n, l_body(None, path + [j], None)))
        else:
            bj = "%s_%d" % (b, j)
            arms.append('%s(%s) => { %s }' % (n, bj, l_body(t, path + [j], bj)))
    return "match (%s) { %s }" % (b, " ".join(arms))


def l_match(T, scr, arms, sfx=""):
    vt = dict(nt_variants(T))
    lines = ["match (%s) {" % scr]
    for i, a in enumerate(arms):
        if a[0] == "w":
            lines.append('    _ => { println("arm %d"); }' % i)
        elif a[2] == "n":
            lines.append('    %s => { println("arm %d"); }' % (a[1], i))
        elif a[2] == "u":
            lines.append('    %s(_) => { println("arm %d"); }' % (a[1], i))
        else:
            b = "b%d%s" % (i, sfx)
            lines.append("    %s(%s) => { %s }" % (a[1], b, l_body(vt.get(a[1]) or {"k": "long"}, [i], b)))
    lines.append("}")
    return lines


def cb_l(c):
    T = c["type"]
    tn = nt_name(T)
    vals = c["vals"]
    n_it = len(vals)
    loop, merge, argcall = c.get("loop", "for"), c.get("merge", False), c.get("argcall", False)
    merge = merge and loop != "seq"
    argcall = argcall and not merge     # a merged declaration statement names a variable that is prepared per execution
    decls, funcs = [], []
    nt_decls(T, set(), decls)
    f = c["final"]
    direct = f in ("mk", "mkv", "cons")
    # aux names are shared by the executions that use the same outer variant: their declarations run again, too
    vidx = {n: j for j, (n, t) in enumerate(nt_variants(T))}

    def tag(k):
        return ("%d_%d" if argcall else "%d") % ((vidx.get(vals[k][1], 9), k) if argcall else vidx.get(vals[k][1], 9))

    def guarded(k, stmts):
        """statements of execution k only: under `if (i == k)` inside a loop, bare in the written-out form"""
        if loop == "seq" or not stmts:
            return list(stmts)
        return ["if (i == %d) { %s }" % (k, " ".join(stmts))]

    funcs.append("%s idf(%s x) { return x; }" % (tn, tn))
    for fname, via_var in (("pick", False), ("pickv", True)):
        if not ((fname == "pick" and (c["src"] == "call" or f == "mk")) or (fname == "pickv" and (c["src"] == "callvar" or f == "mkv"))):
            continue
        body = []
        for k in range(n_it):
            st, e = l_cons(T, vals[k], tag(k), False, funcs)
            st = st + (["%s t = %s;" % (tn, e), "return t;"] if via_var else ["return %s;" % e])
            body.append(("if (i == %d) { %s }" % (k, " ".join(st))) if k < n_it - 1 else " ".join(st))
        funcs.append("%s %s(int i) { %s }" % (tn, fname, " ".join(body)))

    # the statements after the source - steps, then the consumer; a `pa` step moves the rest into a function
    fl, cur, n, hn, hdr, cn = [], [], 0, 0, None, "v0"       # cn: the name of the current variable
    if not direct:
        for s in c["steps"]:
            sk = s[0]
            if sk == "dv":
                cur.append("%s v%d = %s;" % (tn, n + 1, cn)); n += 1; cn = "v%d" % n
            elif sk == "dc":
                cur.append("%s v%d = idf(%s);" % (tn, n + 1, cn)); n += 1; cn = "v%d" % n
            elif sk in ("av", "ac"):
                cur.append("%s v%d = %s;" % (tn, n + 1, cons(tn, s[1][0], s[1][1])))
                cur.append("v%d = %s;" % (n + 1, cn if sk == "av" else "idf(%s)" % cn)); n += 1; cn = "v%d" % n
            elif sk == "as":
                cur.append("%s = %s;" % (cn, cons(tn, s[1][0], s[1][1])))
            elif sk in ("ov", "oc"):          # the variable declared once before the loop
                cur.append("w = %s;" % (cn if sk == "ov" else "idf(%s)" % cn)); cn = "w"
            elif sk == "pa":
                hn += 1
                cur += ["h%d(%s);" % (hn, cn), 'println("back %d");' % hn]
                fl.append((hdr, cur))
                n += 1
                cn = "v%d" % n
                hdr, cur = "void h%d(%s %s) {" % (hn, tn, cn), []
    if f == "obs":
        cur.append("println(%s.variant);" % cn)
    elif f == "val":
        cur.append("println(%s.value);" % cn)
    elif f in ("var", "call"):
        cur += l_match(T, cn if f == "var" else "idf(%s)" % cn, c["arms"])
    if not direct:
        cur.append('println("after");')
    fl.append((hdr, cur))
    tail = fl[0][1]                 # what the looping function does after v0 is declared

    def head(k, ix):
        """the statements that belong to execution k alone (ix: how the body names the execution - `i` or a literal)"""
        if f == "cons":
            st, e = l_cons(T, vals[k], tag(k), False, funcs)
            return st + l_match(T, e, c["arms"])
        if c["src"] == "cons":
            st, e = l_cons(T, vals[k], tag(k), argcall, funcs, scalar_var=merge)
            return st + ["%s v0 = %s;" % (tn, e)]
        return []

    def after_decl(k):
        """mutate: the struct / inner enum variable the constructor argument named is overwritten with another value right
        after v0 is declared - v0 holds a copy and must not follow"""
        if not (c.get("mutate") and c["src"] == "cons" and not argcall and not direct):
            return []
        v = vals[k]
        pt = dict(nt_variants(T)).get(v[1])
        if v[2] is None or pt is None or pt["k"] in ("int", "long", "string"):
            return []
        other = next((o for o in nt_values(pt, 17 + k) + nt_values(pt, 23 + k) if o != v[2] and nv_good(o, False)), None)
        if other is None:
            return []
        return l_prep(pt, other, tag(k), False, funcs)[0]

    def shared(ix):
        """statements every execution runs"""
        if f in ("mk", "mkv"):
            return l_match(T, "%s(%s)" % ("pick" if f == "mk" else "pickv", ix), c["arms"]) + ['println("after");']
        if f == "cons":
            return ['println("after");']
        pre = [] if c["src"] == "cons" else ["%s v0 = %s(%s);" % (tn, "pick" if c["src"] == "call" else "pickv", ix)]
        return pre + tail

    body = []
    if loop == "seq":
        for k in range(n_it):
            body += ['println("it", %d);' % k] + head(k, str(k)) + after_decl(k) + shared(str(k))
    else:
        body.append('println("it", i);')
        if merge and c["src"] == "cons" and not direct:
            # ONE declaration statement of v0 per outer variant, executed by every execution that uses this variant
            groups = {}
            for k in range(n_it):
                groups.setdefault(vals[k][1], []).append(k)
            for vname, ks in groups.items():
                inner, d = [], None
                for k in ks:
                    h = head(k, "i")
                    inner += guarded(k, h[:-1]) if len(ks) > 1 else h[:-1]
                    d = h[-1]
                body.append("if (%s) { %s }" % (" || ".join("i == %d" % k for k in ks), " ".join(inner + [d])))
            for k in range(n_it):
                body += guarded(k, after_decl(k))
        else:
            for k in range(n_it):
                body += guarded(k, head(k, "i") + after_decl(k))
        body += shared("i")
    out = decls + funcs
    for h, st in reversed(fl[1:]):
        out += [h] + ["    " + l for l in st] + ["}"]
    out.append("void main() {")
    if any(s[0] in ("ov", "oc") for s in c["steps"]) and not direct:
        w = l_winit(c)
        out.append("    %s w = %s;" % (tn, cons(tn, w[0], w[1])))
    if loop == "for":
        out.append("    for (int i = 0; i < %d; i = i + 1) {" % n_it)
        out += ["        " + l for l in body]
        out.append("    }")
    elif loop == "while":
        out += ["    int i = 0;", "    while (i < %d) {" % n_it]
        out += ["        " + l for l in body]
        out += ["        i = i + 1;", "    }"]
    else:
        out += ["    " + l for l in body]
    out += ['    println("done");', "}"]
    return "\n".join(out) + "\n"


# case LT: {"fam":"LT","checked":bool,"expr":e,"ops":[[a,b,sa,sb]],"loop":..}
def line_lt(c):
    return "\t".join(["LT", "1" if c["checked"] else "0", ex_ser(c["expr"]),
                      ";".join("%d:%d:%s:%s" % (o[0], o[1], hx(o[2]), hx(o[3])) for o in c["ops"]) or "-"])


def cb_lt(c):
    kw = "checked" if c["checked"] else "try"
    e = c["expr"]
    st = is_sexpr(e)
    R = RTS if st else RT
    if e[0] in ("D0", "D1"):
        te = "%s %s" % (kw, "*p" if e[0] == "D0" else "*np")
    elif ex_atom(e) and not (e[0] == "L" and e[1] < 0):
        te = "%s %s" % (kw, ex_cb(e))
    else:
        te = "%s %s" % (kw, ex_cb(e) if ex_cb(e).startswith("(") else "(" + ex_cb(e) + ")")
    out = list(T_HELPERS) if ex_has_call(e) else []
    loop = c.get("loop", "for")
    n_it = len(c["ops"])
    out.append("void main() {")
    out += ["    int[3] arr; arr[0] = 5; arr[1] = 15; arr[2] = 25;", "    int x = 4; int* p = &x; int* np = nullptr;",
            '    string[3] names = ["ann", "bob", "cy"];', '    int a = 0; int b = 0; string sa = ""; string sb = "";']

    def ops_stmts(k):
        o = c["ops"][k]
        return ["a = %s; b = %s; sa = \"%s\"; sb = \"%s\";" % (int_lit(o[0]), int_lit(o[1]), o[2], o[3])]
    body = ["%s r = %s;" % (R, te), "match (r) {", '    Ok(b0) => { println("arm 0", b0); }', '    Err(b1) => { println("arm 1", b1); }', "}"]
    if loop == "seq":
        for k in range(n_it):
            out += ["    " + l for l in ['println("it", %d);' % k] + ops_stmts(k) + body]
    else:
        hd = "    for (int i = 0; i < %d; i = i + 1) {" % n_it if loop == "for" else "    int i = 0;\n    while (i < %d) {" % n_it
        out.append(hd)
        out.append('        println("it", i);')
        for k in range(n_it):
            out.append("        if (i == %d) { %s }" % (k, " ".join(ops_stmts(k))))
        out += ["        " + l for l in body]
        if loop == "while":
            out.append("        i = i + 1;")
        out.append("    }")
    out += ['    println("done");', "}"]
    return "\n".join(out) + "\n"


# case LQ: {"fam":"LQ","kind":"R"|"O","ctx":"decl|asg|bin|stmt|ret","opnd":"c"|"v","outs":[["k",int]|["f",payload]],"ekind","loop"}
def line_lq(c):
    return "\t".join(["LQ", c["kind"], c["ctx"], c["opnd"],
                      ",".join(("k%d" % int(o[1])) if o[0] == "k" else "f" + pl_ser(o[1]) for o in c["outs"]) or "-"])


def cb_lq(c):
    if c["kind"] == "R":
        R = "Result<long, %s>" % c.get("ekind", "string")
        okv, errv = "Ok", "Err"
    else:
        R = "Option<long>"
        okv, errv = "Some", "None"
    n_it = len(c["outs"])
    loop = c.get("loop", "for")
    out = []
    fb = []
    for k, o in enumerate(c["outs"]):
        e = cons(R, okv, ["int", str(o[1])]) if o[0] == "k" else (cons(R, errv, o[1]) if c["kind"] == "R" else "%s::None" % R)
        fb.append(("if (x == %d) { return %s; }" % (k, e)) if k < n_it - 1 else "return %s;" % e)
    out.append("%s f(int x) { %s }" % (R, " ".join(fb) if fb else "return %s;" % cons(R, okv, ["int", "0"])))

    def stmts(ix):
        call = "f(%s)?" % ix
        pre = []
        if c["opnd"] == "v":
            pre = ["%s t = f(%s);" % (R, ix)]
            call = "t?"
        ctx = c["ctx"]
        if ctx == "decl":
            return pre + ["long v = %s;" % call, 'println("post", %s, v);' % ix]
        if ctx == "asg":
            return pre + ["w = %s;" % call, 'println("post", %s, w);' % ix]
        if ctx == "bin":
            return pre + ["long v = 0 + (%s);" % call, 'println("post", %s, v);' % ix]
        if ctx == "ret":
            return pre + ["return %s::%s(%s);" % (R, okv, call)]
        return pre + ["%s;" % call, 'println("post", %s);' % ix]
    out.append("%s g() {" % R)
    out.append("    long w = 0;")
    if loop == "seq":
        for k in range(n_it):
            out += ["    " + l for l in ['println("it", %d);' % k] + stmts(str(k))]
    else:
        out.append("    for (int i = 0; i < %d; i = i + 1) {" % n_it if loop == "for" else "    int i = 0;\n    while (i < %d) {" % n_it)
        out += ["        " + l for l in ['println("it", i);'] + stmts("i")]
        if loop == "while":
            out.append("        i = i + 1;")
        out.append("    }")
    out.append("    return %s;" % cons(R, okv, ["int", "777"]))
    out.append("}")
    out.append("void main() {")
    out.append("    match (g()) {")
    if c["kind"] == "R":
        out += ['        Ok(b0) => { println("arm 0", b0); }', '        Err(b1) => { println("arm 1", b1); }']
    else:
        out += ['        Some(b0) => { println("arm 0", b0); }', '        None => { println("arm 1"); }']
    out += ["    }", '    println("after");', "}"]
    return "\n".join(out) + "\n"


# ------------------------------------------------------------------ running
def to_line(c):
    return {"A": line_a, "Q": line_q, "T": line_t, "M": line_m, "R": line_r, "S": line_s, "L": line_l, "LT": line_lt, "LQ": line_lq}[c["fam"]](c)


def to_cb(c):
    return {"A": cb_a, "Q": cb_q, "T": cb_t, "M": cb_m, "R": cb_r, "S": cb_s, "L": cb_l, "LT": cb_lt, "LQ": cb_lq}[c["fam"]](c)


def run_models(cases):
    if not cases:
        return []
    lines = common.run_model(PROP, "run", [to_line(c) for c in cases], timeout=1800)
    if len(lines) != 3 * len(cases):
        raise RuntimeError("model result count mismatch %d vs %d" % (len(lines), 3 * len(cases)))
    res = []
    for k in range(len(cases)):
        m, s, f = lines[3 * k].split("\t"), lines[3 * k + 1].split("\t"), lines[3 * k + 2].split("\t")

        def obs(x):
            return {"cls": x[1], "out": [l.rstrip() for l in x[2].split("\x1f")] if len(x) > 2 and x[2] != "" else []}
        res.append({"mech": obs(m), "spec": obs(s), "safe": f[1] == "1", "kinds_ok": len(f) < 3 or f[2] == "1"})
    return res


_ERRS = [
    (re.compile(r"Non-exhaustive match: no arm matched the enum variant '(.*)'"), lambda m: "nonexhaustive:" + m.group(1)),
    (re.compile(r"Match expression must be an enum type"), lambda m: "notenum"),
    (re.compile(r"Function in match expression did not return a value"), lambda m: "novalue"),
    (re.compile(r"Match expression must be a variable, function call, or enum constructor"), lambda m: "badscrutinee"),
    (re.compile(r"Value out of range for type"), lambda m: "range"),
    (re.compile(r"Undefined variable"), lambda m: "unbound"),
    (re.compile(r"Cannot access member"), lambda m: "notstruct"),
    (re.compile(r"\? operator"), lambda m: "qbad"),
]


def canon_impl(rc, o, e):
    lines = o.split("\n")
    lines.pop()            # text after the last newline is an unfinished line (an arm body that failed mid-way)
    lines = [l.rstrip() for l in lines]
    if rc == 0:
        cls = "ok"
    elif rc == 1:
        cls = None
        for rx, f in _ERRS:
            m = rx.search(e)
            if m:
                cls = f(m)
                break
        if cls is None:
            cls = "error:" + (e.strip().split("\n")[-1][:120] if e.strip() else "")
    else:
        cls = "rc%d" % rc
    return {"cls": cls, "out": lines}


def run_impl(impl_dir, c, src=None):
    src = src if src is not None else to_cb(c)
    rc, o, e = common.run_cb(impl_dir, src, timeout=10)
    if rc == 124:
        rc, o, e = common.run_cb(impl_dir, src, timeout=120)
    return canon_impl(rc, o, e)


def run_impl_many(impl_dir, cases):
    """Many programs: chunks of files in a scratch directory, one shell loop per chunk (each run under `timeout`)."""
    import shutil
    import tempfile
    srcs = [to_cb(c) for c in cases]
    n = len(srcs)
    if n < 64:
        return [run_impl(impl_dir, None, src=s) for s in srcs]
    nchunks = common.NCPU * 4
    chunks = [list(range(k, n, nchunks)) for k in range(nchunks)]

    def work(idx):
        if not idx:
            return []
        d = tempfile.mkdtemp(prefix="cbrun-c13-", dir=common.SCRATCH_ROOT)
        try:
            for j in idx:
                with open(os.path.join(d, "t%d.cb" % j), "w", encoding="utf-8") as fh:
                    fh.write(srcs[j])
            script = "cd %s && for j in %s; do timeout 10 ./main %s/t$j.cb > %s/t$j.out 2> %s/t$j.err; echo $? > %s/t$j.rc; done" % (
                impl_dir, " ".join(str(j) for j in idx), d, d, d, d)
            common.sh(["bash", "-c", script], timeout=60 + 12 * len(idx))
            res = []
            for j in idx:
                try:
                    rc = int(open(os.path.join(d, "t%d.rc" % j)).read().strip())
                    o = open(os.path.join(d, "t%d.out" % j), "rb").read().decode("utf-8", "replace")
                    e = open(os.path.join(d, "t%d.err" % j), "rb").read().decode("utf-8", "replace")
                except (OSError, ValueError):
                    rc, o, e = 124, "", ""
                if rc == 124:
                    res.append(run_impl(impl_dir, None, src=srcs[j]))
                else:
                    res.append(canon_impl(rc, o, e))
            return res
        finally:
            shutil.rmtree(d, ignore_errors=True)
    parts = common.pmap(work, chunks)
    out = [None] * n
    for idx, part in zip(chunks, parts):
        for j, r in zip(idx, part):
            out[j] = r
    return out


def same(i, m):
    return i["cls"] == m["cls"] and i["out"] == m["out"]


def conforming(m):
    return same(m["mech"], m["spec"])


def label(c, m):
    """Which recorded defect makes the Mech model leave the Spec on this case (feature based)."""
    labs = []
    if c["fam"] == "A":
        vals = [c["val"]] + [s[1] for s in c["steps"] if len(s) > 1]
        direct = c["final"] in ("mk", "mkv", "cons")
        if any(v[1] == ["str", ""] for v in vals):
            labs.append("C13-empty-string-payload")
        if any(s[0] == "as" for s in c["steps"]) and not direct:
            labs.append("C13-assign-constructor-ignored")
        if any(v[1][0] == "str" for v in vals) and not direct and (c["src"] != "cons" or any(s[0] == "dc" for s in c["steps"])):
            labs.append("C13-decl-from-call-drops-string")
        if any(v[1][0] == "none" for v in vals):
            labs.append("C13-payloadless-variant-lost")
    elif c["fam"] == "M":
        for k in c["calls"]:
            f = c["fns"][k["fn"]]
            vals = [k["val"]] + ([k["val2"]] if (m_nest(f) and k.get("val2")) else [])
            if k.get("direct") and f["style"] != "inline":
                labs.append("C13-constructor-argument-lost")
            if f["style"] != "inline" and any(v[1] == ["none"] for v in vals):
                labs.append("C13-payloadless-variant-lost")
            if any(v[1] == ["str", ""] for v in vals):
                labs.append("C13-empty-string-payload")
    elif c["fam"] == "Q":
        if c["ok"][0] == "str":
            labs.append("C13-qmark-string-payload")
        ps = [c["ok"]] + [l[1] for l in c["links"]]
        if any(p == ["str", ""] for p in ps):
            labs.append("C13-empty-string-payload")
        if c["kind"] == "R" and any(len(l) > 2 and l[2] == "v" for l in c["links"]) and any(l[1][0] == "str" for l in c["links"]):
            labs.append("C13-decl-from-call-drops-string")
    elif c["fam"] == "R":
        vals = [st["val"] for st in c["steps"]]
        if any(st["val"][1] == ["none"] and (st["how"] != "fld" or st.get("fn")) for st in c["steps"]):
            labs.append("C13-payloadless-variant-lost")
        if any(v[1] == ["str", ""] for v in vals):
            labs.append("C13-empty-string-payload")
    elif c["fam"] == "S":
        for k in c["calls"]:
            labs += label(s_item_at(c, k), None)
    elif c["fam"] == "L":
        direct = c["final"] in ("mk", "mkv", "cons")
        from_call = (not direct) and (c["src"] != "cons" or any(s[0] == "dc" for s in c["steps"]))

        def empty_in(v):
            return (v[0] == "s" and v[1] == "") or (v[0] == "e" and v[2] is not None and empty_in(v[2]))
        for v in c["vals"]:
            k = nv_top_kind(v)
            if empty_in(v):
                labs.append("C13-empty-string-payload")
            if k == "none" or not nv_good(v):
                labs.append("C13-payloadless-variant-lost")        # at the top level, or an inner enum value written as an argument
            if k == "str" and from_call:
                labs.append("C13-decl-from-call-drops-string")
            if k == "nested" and from_call:
                labs.append("C13-decl-from-call-drops-nested-payload")
            if k == "nested" and c["final"] in ("mk", "cons"):
                labs.append("C13-constructor-drops-nested-payload")
        if any(s[0] == "as" for s in c["steps"]) and not direct:
            labs.append("C13-assign-constructor-ignored")
    elif c["fam"] == "LT":
        if is_sexpr(c["expr"]) and any(py_eval3(c["expr"], o[0], o[1], o[2], o[3])[0] == "" for o in c["ops"]):
            labs.append("C13-empty-string-payload")
    elif c["fam"] == "LQ":
        fails = [o[1] for o in c["outs"] if o[0] == "f"]
        if any(p == ["str", ""] for p in fails):
            labs.append("C13-empty-string-payload")
        if c["kind"] == "R" and c["opnd"] == "v" and any(p[0] == "str" for p in fails):
            labs.append("C13-decl-from-call-drops-string")
    else:
        if c["ctx"] in ("asg", "asgmain"):
            labs.append("C13-try-outside-return-assignment")
        if is_sexpr(c["expr"]) and py_eval3(c["expr"], int(c["a"]), int(c["b"]), *t_strs(c))[0] == "":
            labs.append("C13-empty-string-payload")
    return labs


# ------------------------------------------------------------------ generators
KINDS = ["int", "long", "string", "none"]


def pick_payload(rng, kind, safe=False):
    if kind == "none":
        return ["none"]
    if kind == "string":
        return ["str", rng.choice(SAFE_STR if safe else STR_POOL)]
    pool = INT_POOL[:6] if kind == "int" else INT_POOL
    return ["int", str(rng.choice(pool))]


def user_type(n, kinds, name="E"):
    return {"kind": "user", "name": name, "variants": [[VNAMES[i], kinds[i]] for i in range(n)]}


def std_types():
    ts = []
    for T in ("int", "long", "string"):
        ts.append({"kind": "option", "name": "Option<%s>" % T, "variants": [["Some", T], ["None", "none"]]})
        ts.append({"kind": "gen", "name": "G", "targ": T, "variants": [["Val", T], ["Nil", "none"]]})
        for E in ("int", "string"):
            ts.append({"kind": "result", "name": "Result<%s, %s>" % (T, E), "variants": [["Ok", T], ["Err", E]]})
        U = {"int": "string", "long": "int", "string": "long"}[T]
        ts.append({"kind": "gen2", "name": "R2", "targs": [T, U], "decl": ["Good(T)", "Bad(U)", "Code(int)", "Zip"],
                   "variants": [["Good", T], ["Bad", U], ["Code", "int"], ["Zip", "none"]]})
    return ts


def full_arms(t, bind="b"):
    return [["v", n, bind if k != "none" else "n"] for n, k in t["variants"]]


def gen_arm_orders(seed, nmax):
    """(A1) all ordered subsets of the variants as arms, an optional wildcard at every position, every scrutinee variant."""
    for n in range(1, nmax + 1):
        rng = rng_for(seed, "c13-arms", n)
        rot = rng.randrange(4)
        kinds = [KINDS[(rot + i) % 4] for i in range(n)]
        t = user_type(n, kinds)
        pays = [pick_payload(rng, k, safe=True) for k in kinds]
        for k in range(0, n + 1):
            for sub in itertools.permutations(range(n), k):
                for wpos in [None] + list(range(k + 1)):
                    arms = [["v", VNAMES[i], "n" if kinds[i] == "none" else ("b" if (i + k) % 5 else "u")] for i in sub]
                    if wpos is not None:
                        arms.insert(wpos, ["w"])
                    for vi in range(n):
                        yield {"fam": "A", "type": t, "val": [vi, pays[vi]], "src": "cons", "steps": [], "final": "var", "arms": arms}


def gen_payload_sweep():
    """(A2) every boundary payload in every type family, every consumer and source."""
    for t in std_types() + [user_type(4, KINDS)]:
        for vi, (vn, kind) in enumerate(t["variants"]):
            pool = [["none"]] if kind == "none" else ([["str", s] for s in STR_POOL] if kind == "string" else
                                                      [["int", str(z)] for z in (INT_POOL[:6] if kind == "int" else INT_POOL)])
            for p in pool:
                for src, steps, fin in [("cons", [], "var"), ("cons", [], "obs"), ("cons", [], "val"), ("cons", [], "cons"), ("cons", [], "mk"),
                                        ("cons", [], "mkv"), ("call", [], "var"), ("callvar", [], "var"), ("cons", [["pa"]], "var"),
                                        ("cons", [["dv"]], "call"), ("cons", [["dc"]], "val")]:
                    if fin == "val" and kind == "none":
                        continue
                    yield {"fam": "A", "type": t, "val": [vi, p], "src": src, "steps": steps, "final": fin, "arms": full_arms(t)}


def gen_transports(maxlen):
    """(A3) every step sequence up to maxlen, every source, match on the variable / through a call."""
    ts = [user_type(3, ["int", "string", "none"]),
          {"kind": "result", "name": "Result<int, string>", "variants": [["Ok", "int"], ["Err", "string"]]},
          {"kind": "option", "name": "Option<string>", "variants": [["Some", "string"], ["None", "none"]]}]
    for t in ts:
        vals = []
        for vi, (vn, kind) in enumerate(t["variants"]):
            vals.append([vi, {"int": ["int", "7"], "string": ["str", "s"], "none": ["none"]}[kind]])
        d = [0, ["int", "1"]] if t["variants"][0][1] == "int" else [0, ["str", "d"]]
        alphabet = [["dv"], ["dc"], ["av", d], ["ac", d], ["as", vals[-1]], ["pa"]]
        for n in range(0, maxlen + 1):
            for seq in itertools.product(alphabet, repeat=n):
                for val in vals:
                    for src in ("cons", "call", "callvar"):
                        for fin in ("var", "call"):
                            yield {"fam": "A", "type": t, "val": val, "src": src, "steps": [list(s) for s in seq], "final": fin,
                                   "arms": full_arms(t)}


def named_type(names, kinds, name="E", generic=None):
    """user enum with the given variant names; generic = type argument (then every payload is T)"""
    if generic:
        return {"kind": "gen", "name": name, "targ": generic, "variants": [[n, "none" if k == "none" else "T"] for n, k in zip(names, kinds)]}
    return {"kind": "user", "name": name, "variants": [[n, k] for n, k in zip(names, kinds)]}


def sample_payload(t, vi, salt=0):
    k = kind_in(t, t["variants"][vi][0])
    if k == "none":
        return ["none"]
    if k == "string":
        return ["str", SAFE_STR[(vi + salt) % len(SAFE_STR)]]
    pool = INT_POOL[:6] if k == "int" else INT_POOL
    return ["int", str(pool[(3 + vi + salt) % len(pool)])]


def name_set_type(si, rot):
    names = NAME_SETS[si % len(NAME_SETS)]
    kinds = [KINDS[(rot + i) % 4] for i in range(len(names))]
    tn = TYPE_NAMES[(si + rot) % len(TYPE_NAMES)]
    if (si + rot) % 3 == 2 and tn[0].isupper():
        targ = ["int", "long", "string"][(si + rot) % 3]
        if "none" not in kinds:
            kinds[-1] = "none"
        return named_type(names, kinds, tn, targ)
    return named_type(names, kinds, tn)


def bspec(t, vn, j):
    """binding form for an arm naming vn: named binding mostly, `V(_)` and bare `V` now and then"""
    if kind_in(t, vn) == "none":
        return "n"
    return "bbbun"[j % 5]


def gen_name_pairs(seed):
    """(A4) every ordered pair (r, s) of related names in every name set: scrutinee variant s, the arm naming r in front of
    the arm naming s / of `_` / alone / behind it; binding form, binding-name scheme, arm-body form, consumer and source rotate."""
    rot = rng_for(seed, "c13-names").randrange(4)
    n = 0
    for si in range(len(NAME_SETS)):
        t = name_set_type(si, rot)
        names = [v[0] for v in t["variants"]]
        for ri, r in enumerate(names):
            for sidx, sname in enumerate(names):
                if ri == sidx:
                    continue
                ar, as_ = ["v", r, bspec(t, r, n)], ["v", sname, bspec(t, sname, n + 1)]
                val = [sidx, sample_payload(t, sidx, n)]
                has = val[1] != ["none"]
                for arms in ([ar, as_], [ar, ["w"]], [ar], [as_, ar], [["w"], ar]):
                    n += 1
                    src, steps, fin = [("cons", [], "var"), ("cons", [], "var"), ("cons", [["dv"]], "var"),
                                       ("cons", [], "mkv"), ("callvar", [], "var") if val[1][0] != "str" else ("cons", [], "var"),
                                       ("cons", [["pa"]], "var") if has else ("cons", [], "var"),
                                       ("cons", [], "cons") if has else ("cons", [], "var"),
                                       ("cons", [], "call") if has else ("cons", [], "var")][n % 8]
                    yield {"fam": "A", "type": t, "val": val, "src": src, "steps": steps, "final": fin, "arms": arms,
                           "bn": n % 4, "body": 1 if n % 3 == 0 else 0}
        for vi in range(len(names)):          # v.variant prints the whole name
            yield {"fam": "A", "type": t, "val": [vi, sample_payload(t, vi)], "src": "cons", "steps": [], "final": "obs", "arms": []}


def gen_name_orders(seed, thorough):
    """(A5) all ordered subsets of three related names as arms x wildcard at every position x every scrutinee variant, for
    3 of the name sets per seed (quick) / all of them (thorough)."""
    rng = rng_for(seed, "c13-name-orders")
    rot = rng.randrange(4)
    sets = list(range(len(NAME_SETS)))
    if not thorough:
        rng.shuffle(sets)
        sets = sets[:3]
    n = 0
    for si in sets:
        t = name_set_type(si, rot + 1)
        t = dict(t, variants=t["variants"][:3])
        names = [v[0] for v in t["variants"]]
        for k in range(0, 4):
            for sub in itertools.permutations(range(3), k):
                for wpos in [None] + list(range(k + 1)):
                    n += 1
                    arms = [["v", names[i], bspec(t, names[i], i + k + n)] for i in sub]
                    if wpos is not None:
                        arms.insert(wpos, ["w"])
                    for vi in range(3):
                        yield {"fam": "A", "type": t, "val": [vi, sample_payload(t, vi, n)], "src": "cons", "steps": [], "final": "var",
                               "arms": arms, "bn": n % 4, "body": 1 if n % 5 == 0 else 0}


MSTYLES = ["void", "ret", "expr", "loop", "inline"]


def m_calls_all(t, fi, salt=0, t2=None):
    return [{"fn": fi, "val": [vi, sample_payload(t, vi, salt + vi)],
             "val2": None if t2 is None else [(vi + salt) % len(t2["variants"]), sample_payload(t2, (vi + salt) % len(t2["variants"]), salt)]}
            for vi in range(len(t["variants"]))]


def gen_suites_names(seed):
    """(M1) per name set: one program whose functions (one per style) hold the related names in source order and one in
    reversed order + wildcard; every variant value is sent to every function (the same match code meets every value)."""
    rot = rng_for(seed, "c13-m-names").randrange(4)
    for si in range(len(NAME_SETS)):
        t = name_set_type(si, rot + 2)
        names = [v[0] for v in t["variants"]]
        for variant in range(2):
            fns, calls = [], []
            for fi, st in enumerate(MSTYLES):
                order = list(names) if variant == 0 else list(reversed(names))
                order = order[fi % len(order):] + order[:fi % len(order)]
                arms = [["v", n, bspec(t, n, fi + j)] for j, n in enumerate(order)]
                if variant == 1:
                    arms = arms[:-1] + [["w"]]
                fns.append({"style": st, "ty": 0, "ty2": 0, "arms": arms, "nest": None})
            for fi in range(len(fns)):
                calls += m_calls_all(t, fi, si + fi)
            # payload-less values go through parameters only in the "any" stream: keep them for the inline function here
            calls = [k for k in calls if fns[k["fn"]]["style"] == "inline" or k["val"][1] != ["none"]]
            yield {"fam": "M", "types": [t], "fns": fns, "calls": calls, "bn": (si + variant) % 4}


def gen_suites_small(seed):
    """(M2) one function, every style x nested match at no / the first / the second arm x 7 arm lists over a prefix-related
    pair of names x both values; the nested match runs on a value of a SECOND enum that has the same variant names with
    other payload kinds."""
    rng = rng_for(seed, "c13-m-small")
    pair = rng.choice([["A", "AB"], ["Key", "KeyUp"], ["Up", "KeyUp"], ["Ok", "Okay"], ["x", "X"], ["None", "Non"]])
    a, b = pair
    t1 = named_type([a, b], ["long", "string"], "E")
    t2 = named_type([b, a, "Z"], ["int", "string", "none"], "F")
    n = 0
    for st in MSTYLES:
        for nestpos in (None, 0, 1):
            for arms in ([["v", a, "b"], ["v", b, "b"]], [["v", b, "b"], ["v", a, "b"]], [["v", a, "b"], ["w"]], [["w"], ["v", a, "b"]],
                         [["v", b, "u"], ["w"]], [["v", a, "n"]], [["v", b, "b"]]):
                if nestpos is not None and (nestpos >= len(arms) or st == "expr"):
                    continue
                for vi in range(2):
                    n += 1
                    inner = [[["v", a, "b"], ["v", b, "b"], ["w"]], [["v", b, "b"], ["v", a, "b"]], [["v", a, "u"], ["w"]]][n % 3]
                    v2i = n % 2      # F has a payload on its first two variants only: the nested value is passed as a parameter
                    yield {"fam": "M", "types": [t1, t2], "bn": n % 4,
                           "fns": [{"style": st, "ty": 0, "ty2": 1, "arms": arms, "nest": None if nestpos is None else [nestpos, inner]}],
                           "calls": [{"fn": 0, "val": [vi, sample_payload(t1, vi, n)],
                                      "val2": None if nestpos is None else [v2i, sample_payload(t2, v2i, n)]}]}


def gen_random_m(rng, safe):
    ts = []
    for _ in range(rng.randint(1, 2)):
        if rng.random() < 0.25:
            ts.append(rng.choice(std_types()))
        else:
            names = list(rng.choice(NAME_SETS))
            rng.shuffle(names)
            names = names[:rng.randint(2, len(names))]
            kinds = [rng.choice(KINDS) for _ in names]
            tn = rng.choice(TYPE_NAMES)
            while any(t["name"] == tn for t in ts):
                tn = rng.choice(TYPE_NAMES)
            if rng.random() < 0.25 and tn[0].isupper():
                ts.append(named_type(names, kinds, tn, rng.choice(["int", "long", "string"])))
            else:
                ts.append(named_type(names, kinds, tn))
    allnames = sorted({v[0] for t in ts for v in t["variants"]})

    def arms_for(t):
        order = [v[0] for v in t["variants"]]
        rng.shuffle(order)
        arms = [["v", n, bspec(t, n, rng.randrange(5))] for n in order if rng.random() < 0.85]
        if rng.random() < 0.3:                      # a name of the other enum / an unknown name / a duplicate
            n = rng.choice(allnames + ["Zed"])
            arms.insert(rng.randint(0, len(arms)), ["v", n, bspec(t, n, rng.randrange(5)) if kind_in(t, n) else "n"])
        if rng.random() < 0.35:
            arms.insert(rng.randint(0, len(arms)), ["w"])
        return arms
    fns = []
    for _ in range(rng.randint(1, 4)):
        ty, ty2 = rng.randrange(len(ts)), rng.randrange(len(ts))
        arms = arms_for(ts[ty])
        nest = [rng.randrange(len(arms)), arms_for(ts[ty2])] if arms and rng.random() < 0.3 else None
        fns.append({"style": rng.choice(MSTYLES), "ty": ty, "ty2": ty2, "arms": arms, "nest": nest})
    calls = []
    for _ in range(rng.randint(1, 8)):
        fi = rng.randrange(len(fns))
        f = fns[fi]
        t1, t2 = ts[f["ty"]], ts[f["ty2"]]
        inline = f["style"] == "inline"

        def val(t):
            cand = [vi for vi in range(len(t["variants"])) if not safe or inline or kind_in(t, t["variants"][vi][0]) != "none"]
            if not cand:
                return None
            vi = rng.choice(cand)
            # no empty string here: it is bound as the integer 0 (C13-empty-string-payload, swept in family A), which would
            # trip C13-binding-name-reuse for the shared binding names and the typed helpers of expression-bodied arms
            return [vi, pick_payload(rng, kind_in(t, t["variants"][vi][0]), True)]
        v1 = val(t1)
        v2 = val(t2) if m_nest(f) else None
        if v1 is None or (m_nest(f) and v2 is None):
            continue
        calls.append({"fn": fi, "val": v1, "val2": v2, "direct": (not safe) and (not inline) and rng.random() < 0.08})
    return {"fam": "M", "types": ts, "fns": fns, "calls": calls, "bn": rng.randrange(4)}


def gen_random_a(rng, safe):
    ts = std_types()
    if rng.random() < 0.5:
        if rng.random() < 0.5:
            names = list(rng.choice(NAME_SETS))
            rng.shuffle(names)
            kinds = [rng.choice(KINDS) for _ in names]
            t = named_type(names, kinds, rng.choice(TYPE_NAMES))
        else:
            n = rng.randint(1, 5)
            kinds = [rng.choice(KINDS) for _ in range(n)]
            t = user_type(n, kinds, rng.choice(TYPE_NAMES))
    else:
        t = rng.choice(ts)
    vs = t["variants"]

    def val():
        vi = rng.randrange(len(vs))
        return [vi, pick_payload(rng, vs[vi][1], safe)]
    steps = []
    for _ in range(rng.randint(0, 6)):
        k = rng.choice(["dv", "dv", "dc", "av", "ac", "pa", "pa"] + ([] if safe else ["as"]))
        steps.append([k] if k in ("dv", "dc", "pa") else [k, val()])
    arms = []
    order = list(range(len(vs)))
    rng.shuffle(order)
    for i in order:
        if rng.random() < (0.95 if safe else 0.8):
            arms.append(["v", vs[i][0], "n" if vs[i][1] == "none" else rng.choice(["b", "b", "b", "u", "n"])])
    if rng.random() < 0.3:
        arms.insert(rng.randint(0, len(arms)), ["w"])
    if rng.random() < 0.05:
        arms.insert(rng.randint(0, len(arms)), ["v", "Zed", "n"])
    fin = rng.choice(["var", "var", "var", "call", "obs", "val", "mk", "mkv", "cons"])
    if rng.random() < 0.15 and arms:                # the same variant named twice: only the first arm may run
        arms.insert(rng.randint(0, len(arms)), list(rng.choice(arms)))
    c = {"fam": "A", "type": t, "val": val(), "src": rng.choice(["cons", "cons", "call", "callvar"]), "steps": steps,
         "final": fin, "arms": arms, "bn": rng.randrange(4), "body": 0}
    # expression-bodied arms hand the binding to a typed helper: only where no recorded defect turns a string payload into 0
    # (C13-decl-from-call-drops-string, C13-empty-string-payload) - the helper call would be rejected as a type mismatch
    vals = [c["val"]] + [st[1] for st in steps if len(st) > 1]
    loses = any(v[1][0] == "str" for v in vals) and (c["src"] != "cons" or any(st[0] == "dc" for st in steps))
    if rng.random() < 0.3 and not loses and not any(v[1] == ["str", ""] for v in vals):
        c["body"] = 1
    return c


CTXS = ["decl", "asg", "ret", "bin", "stmt"]


def gen_chains(seed, nmax):
    """(Q1) every chain of 1..nmax links: every context assignment of the propagating links, the failing link at
    every position (0 = none), Result and Option."""
    for kind in ("R", "O"):
        for n in range(1, nmax + 1):
            for k, ctxs in enumerate(itertools.product(CTXS, repeat=n - 1)):
                rng = rng_for(seed, "c13-chain", kind, n, k)
                ek = rng.choice(["int", "string"])
                for sel in range(0, n + 1):
                    # operand form: the call / a variable declared from the call; every link's form flips from one failing
                    # position to the next, so each (context assignment, link) meets both forms
                    links = [[c, pick_payload(rng, ek, safe=True), "v" if (k + j + sel) % 2 and (ek == "int" or kind == "O") else "c"]
                             for j, c in enumerate(list(ctxs) + ["decl"])]
                    yield {"fam": "Q", "kind": kind, "ok": pick_payload(rng, "int", safe=True), "sel": sel, "links": links, "ekind": ek}


def gen_chain_payloads():
    """(Q2) boundary payloads through 3-link chains."""
    for kind in ("R", "O"):
        for ctx in ("decl", "asg", "ret", "bin"):
            for z in INT_POOL:
                yield {"fam": "Q", "kind": kind, "ok": ["int", str(z)], "sel": 0, "links": [[ctx, ["int", "1"]]] * 3, "ekind": "int"}
                yield {"fam": "Q", "kind": kind, "ok": ["int", "5"], "sel": 3, "links": [[ctx, ["int", str(z)]]] * 3, "ekind": "int"}
                yield {"fam": "Q", "kind": kind, "ok": ["int", str(z)], "sel": 0, "links": [[ctx, ["int", "1"], "v"]] * 3, "ekind": "int"}
                yield {"fam": "Q", "kind": kind, "ok": ["int", "5"], "sel": 3, "links": [[ctx, ["int", str(z)], "v"]] * 3, "ekind": "int"}
            for s in STR_POOL:
                yield {"fam": "Q", "kind": kind, "ok": ["int", "5"], "sel": 2, "links": [[ctx, ["str", s]]] * 3, "ekind": "string"}
                yield {"fam": "Q", "kind": kind, "ok": ["int", "5"], "sel": 2, "links": [[ctx, ["str", s], "v"]] * 3, "ekind": "string"}
                if ctx != "bin":
                    yield {"fam": "Q", "kind": kind, "ok": ["str", s], "sel": 0, "links": [[ctx, ["str", "e"]]] * 3, "ekind": "string"}


def gen_random_q(rng, safe):
    n = rng.randint(1, 5)
    ek = rng.choice(["int", "string"])
    sel = rng.randint(0, n + 1)
    strchain = (not safe) and rng.random() < 0.2
    links = []
    for j in range(n):
        if strchain:
            ctxs = CTXS[:3]
        else:
            ctxs = CTXS
        links.append([rng.choice(ctxs), pick_payload(rng, ek, safe), "v" if rng.random() < (0.4 if (ek == "int" or not safe) else 0.0) else "c"])
    ok = pick_payload(rng, "string" if strchain else "long", safe)
    return {"fam": "Q", "kind": rng.choice("RO"), "ok": ok, "sel": sel, "links": links, "ekind": ek}


TCTX_OK = ["ret", "decl", "void", "main"]
TCTX_ALL = TCTX_OK + ["asg", "asgmain"]
ATOMS = [["A"], ["B"], ["L", 2], ["I", ["A"]], ["I", ["B"]], ["I", ["L", 1]], ["D0"], ["D1"]]
OPS = ["+", "-", "*", "/", "%"]
NOD_ATOMS = [a for a in ATOMS if a[0] not in ("D0", "D1")]
AB = [(7, 2), (7, 0), (0, 5), (-7, 2), (1, 3), (5, -1), (2147483647, 1), (-2147483648, 2)]


def gen_try_exhaustive(thorough):
    """(T1) every atom and every binary expression over the atoms, under try and checked (quick tier: evaluations
    that succeed alternate between the two keywords, failing ones run under both)."""
    exprs = [a for a in ATOMS] + [[op, x, y] for op in OPS for x in ATOMS for y in ATOMS]
    # the failing operation one call frame below the try: dv(x, y), md(x, y), at(i), alone and as an operand
    calls = [[f, x, y] for f in ("DV", "MD") for x in NOD_ATOMS[:4] for y in NOD_ATOMS[:4]] + [["AT", x] for x in NOD_ATOMS]
    exprs += calls + [[op, k, ["A"]] for op in ("+", "*") for k in calls[::3]] + [["/", ["L", 2], k] for k in calls[1::3]]
    for ei, e in enumerate(exprs):
        for ai, (a, b) in enumerate(AB if thorough else AB[:4]):
            v, m = py_eval(e, a, b)
            if m >= 2 ** 62:
                continue
            for chk in (False, True):
                if not thorough and v is not None and chk != ((ei + ai) % 2 == 1):
                    continue
                for ctx in (TCTX_ALL if thorough else (TCTX_ALL[(ei + ai) % 4],)):
                    yield {"fam": "T", "checked": chk, "ctx": ctx, "a": a, "b": b, "expr": e}




def rand_expr(rng, d, atoms=None):
    """Pointer dereferences only in expressions of depth <= 1: `((*p - arr[0]) - 1)` and similar shapes crash the
    parser of the pinned tree (cast look-ahead, DESIGN.md section 7 #36) before anything runs."""
    if atoms is None:
        atoms = ATOMS if d <= 1 else NOD_ATOMS
    if d == 0 or rng.random() < 0.25:
        a = rng.choice(atoms + [["L", rng.choice([0, 1, 3, -4, 1000])]])
        if a[0] == "I" and rng.random() < 0.5:
            return ["I", rand_expr(rng, d - 1, NOD_ATOMS) if d > 0 else ["L", rng.randint(-1, 3)]]
        return a
    if rng.random() < 0.2:          # the operation inside a called function (no dereference in its arguments)
        f = rng.choice(["DV", "MD", "AT"])
        if f == "AT":
            return ["AT", rand_expr(rng, d - 1, NOD_ATOMS)]
        return [f, rand_expr(rng, d - 1, NOD_ATOMS), rand_expr(rng, d - 1, NOD_ATOMS)]
    return [rng.choice(OPS), rand_expr(rng, d - 1, atoms), rand_expr(rng, d - 1, atoms)]


def gen_random_t(rng, safe):
    st = rng.random() < 0.3
    while True:
        e = rand_sexpr(rng, rng.randint(0, 2)) if st else rand_expr(rng, rng.randint(1, 3))
        a, b = rng.choice(AB + [(rng.randint(-20, 20), rng.randint(-3, 3))])
        v, m, err = py_eval3(e, a, b)
        if m >= 2 ** 62:
            continue
        break
    c = {"fam": "T", "checked": rng.random() < 0.5, "ctx": rng.choice(TCTX_OK if safe else TCTX_ALL),
         "a": a, "b": b, "expr": e}
    if st:
        c["sa"], c["sb"] = rng.choice(SAFE_STR if safe else STR_POOL), rng.choice(SAFE_STR if safe else STR_POOL)
    return c


# ------------------------------------------------------------------ generators for the string operands of try/checked
S_ATOMS = [["SA"], ["SB"], ["SL", "lit"], ["SI", ["A"]], ["SI", ["B"]], ["SN", ["A"]]]


def gen_try_strings(thorough):
    """(T2) string-valued operands (build_result_ok's is_string branch): every string atom, every concatenation `x + y` and
    cat(x, y) over the atoms, indexing with a failing index expression; operand pairs put the index inside and outside the
    array; the empty result (both parameters empty) is the recorded empty-string defect through a new producer."""
    exprs = [a for a in S_ATOMS] + [["SL", ""], ["SI", ["L", 1]], ["SI", ["L", 3]], ["SN", ["B"]], ["SN", ["L", 2]],
                                    ["SI", ["/", ["A"], ["B"]]], ["SN", ["%", ["A"], ["B"]]], ["SI", ["I", ["A"]]], ["SI", ["AT", ["B"]]],
                                    ["SI", ["-", ["A"], ["B"]]], ["SN", ["DV", ["A"], ["B"]]]]
    exprs += [[op, x, y] for op in ("SC", "SK") for x in S_ATOMS for y in S_ATOMS]
    exprs += [["SC", ["SC", ["SA"], ["SL", "-"]], ["SI", ["A"]]], ["SK", ["SC", ["SA"], ["SB"]], ["SN", ["B"]]], ["SC", ["SA"], ["SK", ["SB"], ["SA"]]]]
    strs = [("foo", "bar"), ("", ""), ("x", ""), ("", "héllo wörld"), ("0", "Ok")]
    for ei, e in enumerate(exprs):
        for ai, (a, b) in enumerate(AB if thorough else AB[:4]):
            v, m, err = py_eval3(e, a, b)
            if m >= 2 ** 62:
                continue
            for si, (sa, sb) in enumerate(strs if thorough else [strs[(ei + ai) % len(strs)], strs[0]][:1 + (ei + ai) % 2]):
                for chk in (False, True):
                    if not thorough and v is not None and chk != ((ei + ai + si) % 2 == 1):
                        continue
                    for ctx in (TCTX_ALL if thorough else (TCTX_ALL[(ei + ai + si) % 4],)):
                        yield {"fam": "T", "checked": chk, "ctx": ctx, "a": a, "b": b, "sa": sa, "sb": sb, "expr": e}


def rand_sexpr(rng, d):
    if d == 0 or rng.random() < 0.3:
        a = rng.choice(S_ATOMS + [["SL", rng.choice(SAFE_STR)]])
        if a[0] in ("SI", "SN") and rng.random() < 0.5:
            return [a[0], rand_expr(rng, max(d - 1, 0), NOD_ATOMS) if d > 0 else ["L", rng.randint(-1, 3)]]
        return a
    return [rng.choice(["SC", "SC", "SK"]), rand_sexpr(rng, d - 1), rand_sexpr(rng, d - 1)]


# ------------------------------------------------------------------ generators for family R
def r_types():
    return [{"kind": "user", "name": "E", "variants": [["A", "int"], ["B", "string"], ["C", "long"], ["D", "none"]]},
            {"kind": "result", "name": "Result<long, string>", "variants": [["Ok", "long"], ["Err", "string"]]},
            {"kind": "option", "name": "Option<string>", "variants": [["Some", "string"], ["None", "none"]]},
            {"kind": "gen", "name": "G", "targ": "string", "variants": [["Val", "T"], ["Nil", "none"]]},
            {"kind": "gen", "name": "G", "targ": "long", "variants": [["Val", "T"], ["Nil", "none"]]},
            {"kind": "user", "name": "Optional", "variants": [["Txt", "string"], ["Num", "int"], ["Big", "long"]]}]


RHOWS = ["var", "call", "mkv", "mk", "fld"]


def r_payload(t, vi, k):
    """payload for step k: different at every position, so that a kept older value shows"""
    kind = kind_in(t, t["variants"][vi][0])
    if kind == "none":
        return ["none"]
    if kind == "string":
        return ["str", "%s%d" % (SAFE_STR[k % len(SAFE_STR)], k)]
    pool = INT_POOL[:6] if kind == "int" else INT_POOL
    return ["int", str(pool[(2 * k + vi + 1) % len(pool)])]


def gen_reassign(seed, thorough):
    """(R1) one variable assigned again and again: every sequence of variants of length 1..3 (thorough 4) for six types
    (payload kinds string / int / long / none in every order), the way of assignment (from a variable / through idf / from
    a function returning a variable / returning the constructor) and the consumer (match in place / shared function) rotate
    so that every (position, way) pair occurs; payloads differ at every position."""
    rot = rng_for(seed, "c13-reassign").randrange(4)
    n = 0
    for t in r_types():
        nv = len(t["variants"])
        for ln in range(1, (4 if thorough else 3) + 1):
            if nv ** ln > 300:
                continue
            for seq in itertools.product(range(nv), repeat=ln):
                for off in range(5 if (ln <= 2 or thorough) else 2):
                    n += 1
                    steps = [{"val": [vi, r_payload(t, vi, k)], "how": RHOWS[(rot + off + k + n // 7) % 5], "fn": (n + k + off) % 3 == 0}
                             for k, vi in enumerate(seq)]
                    iv = (n + off) % nv
                    yield {"fam": "R", "type": t, "init": [iv, r_payload(t, iv, 9)], "steps": steps, "arms": full_arms(t)}


def gen_random_r(rng, safe):
    t = rng.choice(r_types())
    nv = len(t["variants"])
    steps = []
    for k in range(rng.randint(1, 7)):
        cand = [vi for vi in range(nv) if not safe or t["variants"][vi][1] != "none"]
        vi = rng.choice(cand)
        steps.append({"val": [vi, pick_payload(rng, kind_in(t, t["variants"][vi][0]), True)], "how": rng.choice(RHOWS), "fn": rng.random() < 0.4})
    iv = rng.randrange(nv)
    arms = full_arms(t)
    if rng.random() < 0.2:
        arms = arms[:-1] + [["w"]]
    if rng.random() < 0.1 and len(arms) > 1:
        del arms[rng.randrange(len(arms))]
    return {"fam": "R", "type": t, "init": [iv, pick_payload(rng, kind_in(t, t["variants"][iv][0]), True)], "steps": steps, "arms": arms}


# ------------------------------------------------------------------ generators for family S
def s_classes(rng):
    """Item classes for the pair sweep: (tag, item, calls) - one class per (producer, payload kind, outcome). The calls are
    the operands the item runs with; payload values are drawn per program."""
    z = rng.choice([3, 8, 42, -7, 2147483647, 2147483648])
    w = rng.choice(SAFE_STR)
    big = rng.choice(INT_POOL[6:])
    tE = {"kind": "user", "name": "E", "variants": [["A", "int"], ["B", "string"], ["C", "long"], ["D", "none"]]}
    tRS = {"kind": "result", "name": "Result<int, string>", "variants": [["Ok", "int"], ["Err", "string"]]}
    tRI = {"kind": "result", "name": "Result<string, int>", "variants": [["Ok", "string"], ["Err", "int"]]}
    tOS = {"kind": "option", "name": "Option<string>", "variants": [["Some", "string"], ["None", "none"]]}
    tOI = {"kind": "option", "name": "Option<long>", "variants": [["Some", "long"], ["None", "none"]]}
    tGS = {"kind": "gen", "name": "G", "targ": "string", "variants": [["Val", "T"], ["Nil", "none"]]}
    tGI = {"kind": "gen", "name": "G", "targ": "int", "variants": [["Val", "T"], ["Nil", "none"]]}

    def T(chk, ctx, e):
        return {"fam": "T", "checked": chk, "ctx": ctx, "a": 0, "b": 0, "expr": e}

    def A(t, val, src="cons", steps=(), fin="var", bn=0):
        return {"fam": "A", "type": t, "val": val, "src": src, "steps": [list(x) for x in steps], "final": fin, "arms": full_arms(t), "bn": bn, "body": 0}

    def Q(kind, ek, links, ok):
        return {"fam": "Q", "kind": kind, "ok": ["int", str(ok)], "sel": 0, "links": links, "ekind": ek}
    ok1, ok2 = {"a": 24, "b": 3}, {"a": 1, "b": 2, "sa": w, "sb": "bar"}
    cl = [
        ("try-int-ok", T(False, "ret", ["/", ["A"], ["B"]]), [ok1]),
        ("try-int-err", T(False, "decl", ["/", ["A"], ["B"]]), [{"a": 1, "b": 0}]),
        ("checked-int-index-ok", T(True, "void", ["I", ["B"]]), [ok2]),
        ("checked-int-call-err", T(True, "main", ["AT", ["A"]]), [{"a": 5, "b": 1}]),
        ("checked-str-index-ok", T(True, "main", ["SI", ["A"]]), [ok2]),
        ("checked-str-index-err", T(True, "ret", ["SI", ["A"]]), [{"a": 3, "b": 0}]),
        ("try-str-concat-ok", T(False, "decl", ["SC", ["SA"], ["SB"]]), [ok2]),
        ("try-str-call-ok", T(False, "ret", ["SN", ["B"]]), [ok2]),
        ("try-str-param-ok", T(False, "void", ["SA"]), [ok2]),
        ("try-long-ok", T(False, "main", ["*", ["A"], ["L", 1000]]), [{"a": 2147483647, "b": 1}]),
        ("q-result-ok", Q("R", "string", [["decl", ["str", w]], ["decl", ["str", "e2"]]], z), [{"sel": 0}]),
        ("q-result-err-string", Q("R", "string", [["ret", ["str", "e1"]], ["decl", ["str", w], "c"], ["decl", ["str", "e3"]]], 5), [{"sel": 2}]),
        ("q-result-err-int", Q("R", "int", [["asg", ["int", "1"]], ["decl", ["int", str(z)], "v"], ["decl", ["int", "3"]]], 5), [{"sel": 2}]),
        ("q-result-err-deep", Q("R", "string", [["bin", ["str", "e1"]], ["stmt", ["str", "e2"]], ["decl", ["str", w]]], 5), [{"sel": 3}]),
        ("q-option-some", Q("O", "int", [["decl", ["int", "1"]], ["decl", ["int", "2"], "v"]], big), [{"sel": 0}]),
        ("q-option-none", Q("O", "int", [["decl", ["int", "1"]], ["ret", ["int", "2"]]], 5), [{"sel": 2}]),
        ("a-result-err-string", A(tRS, [1, ["str", w]]), [{}]),
        ("a-result-ok-int-callvar", A(tRS, [0, ["int", str(z if abs(z) < 2 ** 31 else 9)]], src="callvar"), [{}]),
        ("a-result-err-int-call", A(tRI, [1, ["int", "-5"]], fin="mk"), [{}]),
        ("a-result-ok-string-param", A(tRI, [0, ["str", w]], steps=[["pa"]]), [{}]),
        ("a-option-some-string-param", A(tOS, [0, ["str", w]], steps=[["pa"], ["dv"]], bn=1), [{}]),
        ("a-option-none", A(tOI, [1, ["none"]], steps=[["dv"]]), [{}]),
        ("a-option-some-long-idf", A(tOI, [0, ["int", str(big)]], steps=[["dc"]], fin="call"), [{}]),
        ("a-user-string-mkv", A(tE, [1, ["str", w]], fin="mkv", bn=3), [{}]),
        ("a-user-int-cons", A(tE, [0, ["int", "7"]], fin="cons", bn=2), [{}]),
        ("a-user-long-assign", A(tE, [2, ["int", str(big)]], steps=[["av", [1, ["str", "old"]]]]), [{}]),
        ("a-user-string-assign-call", A(tE, [1, ["str", w]], steps=[["ac", [0, ["int", "11"]]]]), [{}]),
        ("a-user-none", A(tE, [3, ["none"]]), [{}]),
        ("a-user-string-cons", A(tE, [1, ["str", w]], fin="cons", bn=1), [{}]),
        ("a-user-string-mk", A(tE, [1, ["str", w]], fin="mk"), [{}]),
        ("a-user-int-mkv", A(tE, [0, ["int", "-1"]], fin="mkv"), [{}]),
        ("a-user-int-param", A(tE, [0, ["int", "2147483647"]], steps=[["pa"], ["pa"]]), [{}]),
        ("a-user-string-idf", A(tE, [1, ["str", w]], steps=[["dv"]], fin="call"), [{}]),
        ("a-generic-string-value", A(tGS, [0, ["str", w]], fin="val"), [{}]),
        ("a-option-none-mk", A(tOS, [1, ["none"]], fin="mk"), [{}]),
        ("a-generic-string", A(tGS, [0, ["str", w]], steps=[["pa"]]), [{}]),
        ("a-generic-int-value", A(tGI, [0, ["int", "9"]], fin="val"), [{}]),
        ("a-generic-nil-variant", A(tGI, [1, ["none"]], fin="obs"), [{}]),
    ]
    return cl


def gen_seq_pairs(seed, thorough):
    """(S1) every ordered pair (x, y) of item classes as ONE program: main calls x, y, x - what x leaves behind must not show
    in y and the other way round (x = y: the same code three times with its own operands)."""
    rounds = 3 if thorough else 1
    for r in range(rounds):
        base = s_classes(rng_for(seed, "c13-seq-classes", r))
        for i, (tx, ix, cx) in enumerate(base):
            for j, (ty, iy, cy) in enumerate(base):
                if i == j:
                    items, calls = [ix], [dict(cx[0], item=0)] * 3
                else:
                    items, calls = [ix, iy], [dict(cx[0], item=0), dict(cy[0], item=1), dict(cx[0], item=0)]
                yield s_normalise({"fam": "S", "items": items, "calls": calls, "pair": [tx, ty]})


def gen_seq_operands(seed):
    """(S3) ONE try/checked site and ONE `?` chain called again and again with operands that alternate between success and
    the different failures (the same Cb code meets Ok, Err, Ok; a string, an error, a string)."""
    rng = rng_for(seed, "c13-seq-operands")
    sites = [["/", ["A"], ["B"]], ["%", ["A"], ["B"]], ["I", ["A"]], ["AT", ["B"]], ["DV", ["A"], ["B"]], ["+", ["I", ["A"]], ["/", ["L", 6], ["B"]]],
             ["SI", ["A"]], ["SN", ["B"]], ["SC", ["SA"], ["SI", ["B"]]], ["SK", ["SA"], ["SB"]], ["SC", ["SN", ["A"]], ["SB"]], ["SI", ["/", ["A"], ["B"]]]]
    ops = [(1, 2), (7, 0), (0, 1), (5, 1), (2, 2), (-1, 3), (2, 0), (1, 1)]
    for ei, e in enumerate(sites):
        for ctx in TCTX_OK:
            for chk in (False, True):
                order = list(ops)
                rng.shuffle(order)
                calls = [{"item": 0, "a": a, "b": b, "sa": SAFE_STR[(ei + n) % len(SAFE_STR)], "sb": SAFE_STR[(ei + 2 * n + 1) % len(SAFE_STR)]}
                         for n, (a, b) in enumerate(order)]
                yield {"fam": "S", "items": [{"fam": "T", "checked": chk, "ctx": ctx, "a": 0, "b": 0, "expr": e}], "calls": calls}
    # two sites of different payload kinds taking turns
    for ei in range(6):
        for ctx in TCTX_OK:
            i1 = {"fam": "T", "checked": ei % 2 == 0, "ctx": ctx, "a": 0, "b": 0, "expr": sites[ei]}
            i2 = {"fam": "T", "checked": ei % 2 == 1, "ctx": TCTX_OK[(TCTX_OK.index(ctx) + ei) % 4], "a": 0, "b": 0, "expr": sites[6 + ei]}
            calls = []
            for n, (a, b) in enumerate(ops[:6]):
                calls.append({"item": n % 2, "a": a, "b": b, "sa": SAFE_STR[n % len(SAFE_STR)], "sb": "t%d" % n})
            yield {"fam": "S", "items": [i1, i2], "calls": calls}
    for kind in ("R", "O"):
        for ek in ("string", "int"):
            for k, ctxs in enumerate(itertools.product(["decl", "ret", "stmt"], repeat=2)):
                pl = (lambda j: ["str", "e%d%s" % (j, SAFE_STR[(j + k) % len(SAFE_STR)])]) if ek == "string" else (lambda j: ["int", str(INT_POOL[(j + k) % len(INT_POOL)])])
                links = [[c, pl(j), "v" if (ek == "int" or kind == "O") and (j + k) % 2 else "c"] for j, c in enumerate(list(ctxs) + ["decl"])]
                sels = [0, 3, 1, 0, 2, 3, 0]
                rng.shuffle(sels)
                yield {"fam": "S", "items": [{"fam": "Q", "kind": kind, "ok": ["int", str(INT_POOL[k % len(INT_POOL)])], "sel": 0, "links": links, "ekind": ek}],
                       "calls": [{"item": 0, "sel": x} for x in sels]}


def gen_random_s(rng):
    items = []
    for _ in range(rng.randint(2, 5)):
        f = rng.choice("AQTT")
        it = {"A": gen_random_a, "Q": gen_random_q, "T": gen_random_t}[f](rng, True)
        items.append(it)
    calls = []
    for _ in range(rng.randint(3, 9)):
        j = rng.randrange(len(items))
        a, b = rng.choice(AB[:6] + [(rng.randint(-20, 20), rng.randint(-3, 3))])
        if items[j]["fam"] == "T" and py_eval3(items[j]["expr"], a, b)[1] >= 2 ** 62:
            a, b = 7, 2
        calls.append({"item": j, "a": a, "b": b, "sa": rng.choice(SAFE_STR), "sb": rng.choice(SAFE_STR),
                      "sel": rng.randint(0, len(items[j]["links"]) + 1) if items[j]["fam"] == "Q" else 0})
    return s_normalise({"fam": "S", "items": items, "calls": calls})


# ------------------------------------------------------------------ generators for the families L / LT / LQ
NT_INT, NT_LONG, NT_STR = {"k": "int"}, {"k": "long"}, {"k": "string"}
NT_P2 = {"k": "rec", "name": "P2", "fields": [["x", "int"], ["y", "int"]]}
NT_P3 = {"k": "rec", "name": "P3", "fields": [["a", "long"], ["s", "string"], ["c", "int"]]}
NT_P1 = {"k": "rec", "name": "P1", "fields": [["s", "string"]]}
NT_RIS = {"k": "res", "t": NT_INT, "e": NT_STR}
NT_RLI = {"k": "res", "t": NT_LONG, "e": NT_INT}
NT_OL = {"k": "opt", "t": NT_LONG}
NT_OS = {"k": "opt", "t": NT_STR}


def l_types():
    """outer types: struct payloads, enum payloads, both, depth 3, and scalar-only types (the loop forms of family A)"""
    return [
        {"k": "opt", "t": NT_P2},                                              # Option<P2>
        {"k": "opt", "t": NT_RIS},                                             # Option<Result<int, string> >
        {"k": "res", "t": NT_P3, "e": NT_OL},                                  # Result<P3, Option<long> >
        {"k": "usr", "name": "U", "vars": [["A", NT_INT], ["P", NT_P2], ["R", NT_RIS], ["N", None]]},
        {"k": "usr", "name": "Shape", "vars": [["S", NT_STR], ["O", NT_OS], ["Q", {"k": "res", "t": NT_P1, "e": NT_LONG}], ["Z", None]]},
        {"k": "opt", "t": {"k": "opt", "t": NT_RLI}},                          # Option<Option<Result<long, int> > >
        {"k": "usr", "name": "Optional", "vars": [["Key", NT_P3], ["KeyUp", {"k": "opt", "t": NT_P2}], ["K", NT_LONG], ["Ke", None]]},
        {"k": "usr", "name": "E", "vars": [["A", NT_INT], ["B", NT_STR], ["C", NT_LONG], ["D", None]]},
        {"k": "res", "t": NT_LONG, "e": NT_STR},
        {"k": "opt", "t": NT_STR},
        {"k": "gen", "name": "G", "n1": "Val", "n2": "Nil", "t": NT_P2},              # enum G<T> { Val(T), Nil } at a struct
        {"k": "gen", "name": "Opt", "n1": "Som", "n2": "Some", "t": NT_RIS},          # ... at an enum; names near Option's own
    ]


def nt_values(T, salt, depth=0):
    """candidate values of type T (every variant, several payloads), different for different salts"""
    k = T["k"]
    if k == "int":
        return [["i", INT_POOL[(salt + j) % 6]] for j in range(2)]
    if k == "long":
        return [["i", INT_POOL[(salt + 3 * j + 1) % len(INT_POOL)]] for j in range(2)]
    if k == "string":
        return [["s", "%s%d" % (SAFE_STR[(salt + j) % len(SAFE_STR)], salt % 7)] for j in range(2)]
    if k == "rec":
        out = []
        for j in range(2):
            fs = []
            for fi, (fn, ft) in enumerate(T["fields"]):
                fs.append(nt_values({"k": ft}, salt + 5 * j + fi + 1)[0])
            out.append(["r", fs])
        return out
    out = []
    for vi, (n, t) in enumerate(nt_variants(T)):
        if t is None:
            out.append(["e", n, None])
        else:
            # top level: every candidate of the payload type (for an enum payload: each of ITS variants); below: one per variant
            ps = nt_values(t, salt + 2 * vi + 1, depth + 1)
            for p in (ps[:5] if depth == 0 else ps[:1] + [q for q in ps[1:] if q[0] == "e" and q[1] != ps[0][1]][:1]):
                out.append(["e", n, p])
    return out


def nv_top_kind(v):
    return "none" if v[2] is None else {"i": "int", "s": "str", "r": "nested", "e": "nested"}[v[2][0]]


def nv_good(v, top=True):
    """no empty string; below the top level no payload-less enum value"""
    if v[0] == "s":
        return v[1] != ""
    if v[0] == "e":
        if v[2] is None:
            return top
        return nv_good(v[2], False)
    return True


# (source, steps, final): the conforming pipelines for every payload kind with a payload first, then the ones that meet a recorded defect
L_PIPES_OK = [("cons", [], "var"), ("cons", [["dv"]], "var"), ("cons", [["pa"]], "var"), ("cons", [["av", None]], "var"),
              ("cons", [["ac", None]], "var"), ("cons", [], "call"), ("cons", [["dv"], ["pa"]], "call"), ("cons", [], "mkv"),
              ("cons", [], "obs"), ("cons", [["pa"], ["dv"], ["pa"]], "var"), ("cons", [["av", None], ["dv"]], "call"),
              ("cons", [["ov"]], "var"), ("cons", [["oc"]], "var"), ("cons", [["dv"], ["ov"], ["pa"]], "var"), ("cons", [["ov"], ["dv"]], "call")]
L_PIPES_DEFECT = [("call", [], "var"), ("callvar", [], "var"), ("cons", [["dc"]], "var"), ("cons", [], "mk"), ("cons", [], "cons"),
                  ("callvar", [["pa"]], "var"), ("cons", [["dv"], ["dc"]], "call")]
LOOPS = ["for", "while", "seq"]


def l_fill(T, steps, salt):
    """the initial value of the fresh target of an `av` / `ac` step: a scalar-payload variant of T if there is one"""
    cands = [(n, t) for n, t in nt_variants(T) if t is not None and t["k"] in ("int", "long", "string")]
    out = []
    for s in steps:
        if len(s) > 1 and s[1] is None:
            if cands:
                n, t = cands[salt % len(cands)]
                out.append([s[0], [n, nv_pl(nt_values(t, salt + 11)[0])]])
            else:                                   # no scalar variant: declare the target from a variable instead
                out.append(["dv"])
        else:
            out.append(list(s))
    return out


def l_full_arms(T):
    return [["v", n, "n" if t is None else "b"] for n, t in nt_variants(T)]


def l_case(T, pipe, vals, n, arms=None):
    src, steps, fin = pipe
    return {"fam": "L", "type": T, "src": src, "steps": l_fill(T, steps, n), "final": fin, "arms": arms or l_full_arms(T), "vals": vals,
            "loop": LOOPS[n % 3], "merge": (n // 3) % 2 == 1, "argcall": (n // 6) % 3 == 2, "mutate": (n // 2) % 3 == 0}


def l_avoid(cases):
    """generator-side avoidance, decided by the extracted model (ModelNest.l_kinds): bindings stay in the scope of the function
    that holds the match, and a binding name that receives two KINDS of Variable in one run (a string and then the integer 0 an
    empty string / a dropped payload arrives as; an enum object and then an integer) meets the recorded defects
    C13-binding-name-reuse / -string-then-int / -kept-over-integer (stale or crashing bindings) - such programs are left out,
    unless the match runs in a callee (a `pa` step: new scope on every call). An inner payload-less enum value is never written
    as a call `mk()` (there it survives - correct, but another path than the modelled variable argument)."""
    cases = list(cases)
    out = []
    for c, m in zip(cases, run_models(cases)):
        if c["fam"] != "L":
            out.append(c)
            continue
        if any(not nv_good(v) for v in c["vals"]) and c.get("argcall"):
            c = dict(c, argcall=False)
        in_callee = any(s[0] == "pa" for s in c["steps"]) and c["final"] in ("var", "call", "obs", "val")
        if m["kinds_ok"] or in_callee:
            out.append(c)
    return out


def gen_loops_pairs(seed, thorough):
    """(L1) every ordered pair (x, y) of the candidate values of every outer type, executed x, y, x by ONE loop body: every
    declaration of the body meets the Variable of the execution before - another variant, another payload kind (struct after
    enum after scalar after none), the same variant with another payload. Pipeline, loop form (for / while / written out),
    merged declaration statement and argument form rotate."""
    rot = rng_for(seed, "c13-loops-pairs").randrange(1000)
    n = rot
    for ti, T in enumerate(l_types()):
        vs = [v for v in nt_values(T, seed + ti) if nv_good(v)]
        for xi, x in enumerate(vs):
            for yi, y in enumerate(vs):
                if xi == yi:
                    continue
                n += 1
                # the same variant again with another payload, then the other value, then the first again
                x2 = next((v for v in nt_values(T, seed + ti + 3) if v[1] == x[1] and nv_good(v)), x)
                vals = [x, y, x2] if n % 2 else [x, x2, y, x]
                pipe = L_PIPES_OK[n % len(L_PIPES_OK)]
                if any(v[2] is None for v in vals) and not thorough and pipe[1] and pipe[2] != "mkv":
                    pipe = [("cons", [], "var"), ("cons", [["dv"]], "var"), ("cons", [], "mkv"), ("cons", [], "obs")][n % 4]
                yield l_case(T, pipe, vals, n)


def gen_loops_pipes(seed, thorough):
    """(L2) every pipeline - conforming and defect-bound - for every outer type over a rotation of all its values (2-4
    executions), in every loop form."""
    rng = rng_for(seed, "c13-loops-pipes")
    n = rng.randrange(1000)
    for ti, T in enumerate(l_types()):
        vs = [v for v in nt_values(T, seed + 2 * ti + 1) if nv_good(v)]
        for pi, pipe in enumerate(L_PIPES_OK + L_PIPES_DEFECT):
            for rep in range(3 if thorough else 2):
                n += 1
                ln = 2 + (n + rep) % 3
                st = rng.randrange(len(vs))
                vals = [vs[(st + j * (1 + rep)) % len(vs)] for j in range(ln)]
                yield l_case(T, pipe, vals, n)


def gen_random_l(rng, safe):
    T = rng.choice(l_types())
    vs = nt_values(T, rng.randrange(50))
    if safe:
        vs = [v for v in vs if nv_good(v)]
    vals = [rng.choice(vs) for _ in range(rng.randint(2, 4))]
    steps = []
    for _ in range(rng.randint(0, 4)):
        k = rng.choice(["dv", "dv", "pa", "pa", "av", "ac"] + ([] if safe else ["dc"]) + ([] if any(s[0] == "pa" for s in steps) else ["ov", "oc"]))
        steps.append([k] if k in ("dv", "dc", "pa", "ov", "oc") else [k, None])
    fin = rng.choice(["var", "var", "var", "call", "obs", "mkv"] + ([] if safe else ["mk", "cons"]))
    src = "cons" if safe else rng.choice(["cons", "cons", "call", "callvar"])
    arms = []
    order = list(nt_variants(T))
    rng.shuffle(order)
    for n, t in order:
        if rng.random() < (0.97 if safe else 0.85):
            arms.append(["v", n, "n" if t is None else rng.choice(["b", "b", "b", "b", "u", "n"])])
    if rng.random() < 0.25:
        arms.insert(rng.randint(0, len(arms)), ["w"])
    c = l_case(T, (src, steps, fin), vals, rng.randrange(36), arms)
    if safe:
        # payload-less values only where family A carries them: no parameter, no call in between
        if any(v[2] is None for v in vals):
            c["steps"] = [s for s in c["steps"] if s[0] == "dv"]
            if c["final"] == "call":
                c["final"] = "var"
    return c


LT_SITES = [["/", ["A"], ["B"]], ["%", ["A"], ["B"]], ["I", ["A"]], ["AT", ["B"]], ["DV", ["A"], ["B"]], ["+", ["I", ["A"]], ["/", ["L", 6], ["B"]]],
            ["SI", ["A"]], ["SN", ["B"]], ["SC", ["SA"], ["SI", ["B"]]], ["SK", ["SA"], ["SB"]], ["SC", ["SN", ["A"]], ["SB"]], ["SI", ["/", ["A"], ["B"]]],
            ["D0"], ["D1"], ["*", ["A"], ["L", 1000000]], ["SA"]]
LT_OPS = [(1, 2), (7, 0), (0, 1), (5, 1), (2, 2), (-1, 3), (2, 0), (1, 1), (2147483647, 1)]


def gen_loops_try(seed, thorough):
    """(LT1) one `R r = try e;` / `checked e` statement executed 2-4 times by a loop with operands that alternate between
    success and the different failures (Ok, Err, Ok; a string after an error text after a string)."""
    rng = rng_for(seed, "c13-loops-try")
    n = 0
    for ei, e in enumerate(LT_SITES):
        for chk in (False, True):
            for rep in range(4 if thorough else 2):
                n += 1
                order = list(LT_OPS)
                rng.shuffle(order)
                ops = [[a, b, SAFE_STR[(ei + j + rep) % len(SAFE_STR)], SAFE_STR[(ei + 2 * j + 1) % len(SAFE_STR)]]
                       for j, (a, b) in enumerate(order[:2 + (n % 3)])]
                if any(py_eval3(e, o[0], o[1], o[2], o[3])[1] >= 2 ** 62 for o in ops):
                    continue
                yield {"fam": "LT", "checked": chk, "expr": e, "ops": ops, "loop": LOOPS[n % 3]}


def gen_loops_qmark(seed, thorough):
    """(LQ1) `f(i)?` executed again and again inside one function: every context x operand form x Result / Option x every
    position of the first failure (none, first, middle, last) with Ok payloads changing from execution to execution."""
    rng = rng_for(seed, "c13-loops-q")
    n = 0
    for kind in ("R", "O"):
        for ctx in ("decl", "asg", "bin", "stmt", "ret"):
            for opnd in ("c", "v"):
                for ek in ("int", "string"):
                    if kind == "O" and ek == "string":
                        continue
                    for ln in (2, 3, 4):
                        for fail in [None] + list(range(ln)):
                            n += 1
                            if not thorough and (n + seed) % 2 and fail not in (None, ln - 1):
                                continue
                            outs = []
                            for j in range(ln):
                                if fail == j:
                                    outs.append(["f", pick_payload(rng, ek, safe=True)])
                                else:
                                    outs.append(["k", int(pick_payload(rng, "long", True)[1])])
                            yield {"fam": "LQ", "kind": kind, "ctx": ctx, "opnd": opnd, "outs": outs, "ekind": ek, "loop": LOOPS[n % 3]}


def only_conforming(cases):
    """sequence programs are drawn from the proved fragment only (the recorded defects turn payload kinds into one another,
    which trips the binding-name defects once several matches share a program): keep the cases the model calls safe"""
    ms = run_models(cases)
    return [c for c, m in zip(cases, ms) if m["safe"]]


def size(c):
    if c["fam"] == "A":
        return len(c["steps"]) * 3 + len(c["arms"]) + len(c["type"]["variants"])
    if c["fam"] == "Q":
        return len(c["links"]) * 2
    if c["fam"] == "M":
        return 3 * len(c["calls"]) + sum(len(f["arms"]) + (3 + len(f["nest"][1]) if f.get("nest") else 0) for f in c["fns"])
    if c["fam"] == "R":
        return 3 * len(c["steps"]) + len(c["arms"])
    if c["fam"] == "S":
        return 5 * len(c["calls"]) + sum(size(it) for it in c["items"])
    if c["fam"] == "L":
        return 4 * len(c["vals"]) + 3 * len(c["steps"]) + len(c["arms"]) + sum(len(nv_ser(v)) for v in c["vals"]) // 8
    if c["fam"] == "LT":
        return 3 * len(c["ops"]) + len(ex_ser(c["expr"]))
    if c["fam"] == "LQ":
        return 3 * len(c["outs"])
    return len(ex_ser(c["expr"]))


def shrink_cands(c):
    cands = []
    if c["fam"] == "A":
        for k in range(len(c["steps"])):
            cands.append(dict(c, steps=c["steps"][:k] + c["steps"][k + 1:]))
        for k in range(len(c["arms"])):
            cands.append(dict(c, arms=c["arms"][:k] + c["arms"][k + 1:]))
        if c["src"] != "cons":
            cands.append(dict(c, src="cons"))
        if c.get("bn"):
            cands.append(dict(c, bn=0))
        if c.get("body"):
            cands.append(dict(c, body=0))
    elif c["fam"] == "M":
        for k in range(len(c["calls"])):
            cands.append(dict(c, calls=c["calls"][:k] + c["calls"][k + 1:]))
        for j, f in enumerate(c["fns"]):
            def with_fn(g, j=j):
                return dict(c, fns=c["fns"][:j] + [g] + c["fns"][j + 1:])
            if f.get("nest"):
                cands.append(with_fn(dict(f, nest=None)))
                for k in range(len(f["nest"][1])):
                    cands.append(with_fn(dict(f, nest=[f["nest"][0], f["nest"][1][:k] + f["nest"][1][k + 1:]])))
            if f["style"] != "void":
                cands.append(with_fn(dict(f, style="void")))
            for k in range(len(f["arms"])):
                if f.get("nest") and f["nest"][0] >= k:
                    continue
                cands.append(with_fn(dict(f, arms=f["arms"][:k] + f["arms"][k + 1:])))
        if c.get("bn"):
            cands.append(dict(c, bn=0))
    elif c["fam"] == "Q":
        n = len(c["links"])
        for k in range(n):
            if n > 1:
                sel = c["sel"] if c["sel"] <= k else c["sel"] - 1
                if c["sel"] == k + 1:
                    continue
                cands.append(dict(c, links=c["links"][:k] + c["links"][k + 1:], sel=sel))
        for k in range(n):
            if c["links"][k][0] != "decl":
                cands.append(dict(c, links=c["links"][:k] + [["decl"] + c["links"][k][1:]] + c["links"][k + 1:]))
            if len(c["links"][k]) > 2 and c["links"][k][2] == "v":
                cands.append(dict(c, links=c["links"][:k] + [c["links"][k][:2]] + c["links"][k + 1:]))
    elif c["fam"] == "R":
        for k in range(len(c["steps"])):
            cands.append(dict(c, steps=c["steps"][:k] + c["steps"][k + 1:]))
        for k, st in enumerate(c["steps"]):
            if st.get("fn"):
                cands.append(dict(c, steps=c["steps"][:k] + [dict(st, fn=False)] + c["steps"][k + 1:]))
            if st["how"] not in ("var", "fld"):
                cands.append(dict(c, steps=c["steps"][:k] + [dict(st, how="var")] + c["steps"][k + 1:]))
    elif c["fam"] == "S":
        for k in range(len(c["calls"])):
            cands.append(dict(c, calls=c["calls"][:k] + c["calls"][k + 1:]))
        used = sorted({k["item"] for k in c["calls"]})
        if len(used) < len(c["items"]):          # drop the items nobody calls
            ren = {j: n for n, j in enumerate(used)}
            cands.append(dict(c, items=[c["items"][j] for j in used], calls=[dict(k, item=ren[k["item"]]) for k in c["calls"]]))
        for j, it in enumerate(c["items"]):
            if it["fam"] == "Q":                 # removing a link would renumber the failing link of every call: contexts only
                subs = [q for q in shrink_cands(it) if len(q["links"]) == len(it["links"])]
            else:
                subs = shrink_cands(it)
            for q in subs:
                cands.append(dict(c, items=c["items"][:j] + [q] + c["items"][j + 1:]))
    elif c["fam"] == "L":
        if len(c["vals"]) > 1:
            for k in range(len(c["vals"])):
                cands.append(dict(c, vals=c["vals"][:k] + c["vals"][k + 1:]))
        for k in range(len(c["steps"])):
            cands.append(dict(c, steps=c["steps"][:k] + c["steps"][k + 1:]))
        for k in range(len(c["arms"])):
            cands.append(dict(c, arms=c["arms"][:k] + c["arms"][k + 1:]))
        for key in ("merge", "argcall", "mutate"):
            if c.get(key):
                cands.append(dict(c, **{key: False}))
        if c.get("loop", "for") != "for":
            cands.append(dict(c, loop="for"))
    elif c["fam"] == "LQ":
        if len(c["outs"]) > 1:
            for k in range(len(c["outs"])):
                cands.append(dict(c, outs=c["outs"][:k] + c["outs"][k + 1:]))
        if c["opnd"] == "v":
            cands.append(dict(c, opnd="c"))
        if c["ctx"] != "decl":
            cands.append(dict(c, ctx="decl"))
        if c.get("loop", "for") != "for":
            cands.append(dict(c, loop="for"))
    else:
        if c["fam"] == "LT":
            if len(c["ops"]) > 1:
                for k in range(len(c["ops"])):
                    cands.append(dict(c, ops=c["ops"][:k] + c["ops"][k + 1:]))
            if c.get("loop", "for") != "for":
                cands.append(dict(c, loop="for"))
        e = c["expr"]
        if len(e) == 3 and e[0] in OPS + ["DV", "MD"]:
            cands += [dict(c, expr=e[1]), dict(c, expr=e[2])]
        if e[0] == "AT":
            cands += [dict(c, expr=["I", e[1]]), dict(c, expr=e[1])]
        if e[0] in ("DV", "MD"):
            cands.append(dict(c, expr=["/" if e[0] == "DV" else "%", e[1], e[2]]))
        if e[0] == "I" and e[1][0] != "L":
            cands.append(dict(c, expr=e[1]))
        if e[0] in ("SC", "SK"):
            cands += [dict(c, expr=e[1]), dict(c, expr=e[2])]
        if e[0] == "SK":
            cands.append(dict(c, expr=["SC", e[1], e[2]]))
        if e[0] == "SN":
            cands.append(dict(c, expr=["SI", e[1]]))
    return cands


def shrink(c, still_bad):
    """Greedy deletion of steps / arms / links / calls / items / sub-expressions keeping the disagreement."""
    changed = True
    while changed:
        changed = False
        for q in shrink_cands(c):
            try:
                if still_bad(q):
                    c = q
                    changed = True
                    break
            except Exception:
                continue
    return c


# ------------------------------------------------------------------ classify leaf
MSG_WORDS = ["division by zero", "Division By Zero", "divide", "DIVIDE", "zero", "Zero", "null pointer", "Null Pointer", "nullptr", "NULLPTR",
             "out of bounds", "Out Of Bounds", "bounds", "overflow", "Overflow", "type", "Type", "cast", "mismatch", "Modulo by zero",
             "Array index out of bounds", "Null pointer dereference", "division", "by", "divid", "zer", "nul", "pointer", "bound", "overflo",
             "typ", "cas", "mismatc", " ", "  ", ":", "x", "é", "Undefined variable", "error", "in", "of"]


def gen_messages(seed, n):
    msgs = ["Division by zero", "Modulo by zero", "Array index out of bounds", "Null pointer dereference", "", "Zero division error",
            "divide something by ZERO", "type cast", "type mismatch", "typecast overflow", "nullptr bounds", "Integer overflow",
            "cast without the word", "zero divide", "bounds of null pointer division by zero"]
    for k in range(n):
        rng = rng_for(seed, "c13-msg", k)
        parts = [rng.choice(MSG_WORDS) for _ in range(rng.randint(1, 5))]
        msgs.append(rng.choice(["", " ", "-"]).join(parts))
    return msgs


def run_classify(leaf, msgs, rep):
    msgs = [m for m in msgs if "\n" not in m]
    lines_leaf, lines_model = [], []
    for k, m in enumerate(msgs):
        chk = k % 2
        lines_leaf.append("%s %s" % ("C" if chk else "T", m))
        lines_model.append("C\t%d\t%s" % (chk, hx(m)))
    rc, o, e = common.sh([leaf], input=("\n".join(lines_leaf) + "\n").encode("utf-8"), timeout=300)
    if rc != 0:
        raise RuntimeError("c13_classify failed rc=%d %s" % (rc, e[-300:]))
    got = o.split("\n")[:-1]
    exp = common.run_model(PROP, "run", lines_model, timeout=600)
    # the leaf driver skips lines shorter than 2 characters: an empty message is sent as "T " (2 characters)
    bad = []
    if len(got) != len(exp):
        raise RuntimeError("classify result count mismatch %d vs %d" % (len(got), len(exp)))
    classes = {}
    for m, g, x in zip(msgs, got, exp):
        classes[x.split("|")[0] + "/" + x.split("|")[3].split(":")[0]] = classes.get(x.split("|")[0] + "/" + x.split("|")[3].split(":")[0], 0) + 1
        if g != x:
            bad.append((m, g, x))
    return bad, classes


# ------------------------------------------------------------------ main
REUSE_CB = """enum E {
    A(int),
    B(string)
};
void main() {
    E a = E::A(7);
    E b = E::B("s");
    match (a) { A(p) => { println("A", p); } B(p) => { println("B", p); } }
    match (b) { A(p) => { println("A", p); } B(p) => { println("B", p); } }
    println("after");
}
"""


def build_cases(seed, thorough):
    cases, origin = [], []

    def add(it, tag):
        for c in it:
            cases.append(c)
            origin.append(tag)
    corpus = os.path.join(common.VERIF, "corpus", "c13.json")
    if os.path.exists(corpus):
        add(json.load(open(corpus)), "corpus")
    add(gen_arm_orders(seed, 5 if thorough else 4), "A-arm-orders-exhaustive")
    add(gen_payload_sweep(), "A-payload-sweep")
    add(gen_transports(3 if thorough else 2), "A-transports-exhaustive")
    add(gen_name_pairs(seed), "A-name-relations-pairs")
    add(gen_name_orders(seed, thorough), "A-name-relations-arm-orders")
    add(gen_suites_names(seed), "M-name-relations-suites")
    add(gen_suites_small(seed), "M-styles-nesting-exhaustive")
    if thorough:
        for d in range(1, 6):
            add(gen_name_pairs(seed * 1000 + d), "A-name-relations-pairs")
            add(gen_suites_names(seed * 1000 + d), "M-name-relations-suites")
            add(gen_suites_small(seed * 1000 + d), "M-styles-nesting-exhaustive")
    add(gen_chains(seed, 5 if thorough else 4), "Q-chains-exhaustive")
    add(gen_chain_payloads(), "Q-payload-sweep")
    add(gen_try_exhaustive(thorough), "T-expressions-exhaustive")
    add(gen_try_strings(thorough), "T-string-operands")
    add(gen_reassign(seed, thorough), "R-reassign-exhaustive")
    add(only_conforming(list(gen_seq_pairs(seed, thorough))), "S-producer-pairs")
    add(only_conforming(list(gen_seq_operands(seed))), "S-one-site-many-operands")
    add(only_conforming([gen_random_s(rng_for(seed, "c13-rand-s", k)) for k in range(12000 if thorough else 450)]), "random-S-safe")
    for k in range(20000 if thorough else 300):
        cases.append(gen_random_r(rng_for(seed, "c13-rand-r", k), k % 2 == 0))
        origin.append("random-R-%s" % ("safe" if k % 2 == 0 else "any"))
    # struct / enum payloads, statements executed again in one scope (loops)
    for d in range(6 if thorough else 2):
        add(l_avoid(gen_loops_pairs(seed * 1000 + d, thorough)), "L-value-pairs-in-one-loop")
    for d in range(4 if thorough else 1):
        add(l_avoid(gen_loops_pipes(seed * 1000 + d, thorough)), "L-pipelines-exhaustive")
    add(gen_loops_try(seed, thorough), "LT-try-in-a-loop")
    add(gen_loops_qmark(seed, thorough), "LQ-qmark-in-a-loop")
    for par, tag in ((0, "safe"), (1, "any")):
        add(l_avoid(gen_random_l(rng_for(seed, "c13-rand-l", k), par == 0) for k in range(par, 40000 if thorough else 700, 2)), "random-L-" + tag)
    nr = 120000 if thorough else 1200
    for k in range(nr):
        rng = rng_for(seed, "c13-rand", k)
        safe = k % 2 == 0
        fam = k % 3
        c = [gen_random_a, gen_random_q, gen_random_t][fam](rng, safe)
        cases.append(c)
        origin.append("random-%s-%s" % ("AQT"[fam], "safe" if safe else "any"))
    for k in range(40000 if thorough else 500):
        rng = rng_for(seed, "c13-rand-m", k)
        safe = k % 2 == 0
        cases.append(gen_random_m(rng, safe))
        origin.append("random-M-%s" % ("safe" if safe else "any"))
    if not thorough:      # the non-return contexts of try (sampled in the quick tier, exhaustive in the thorough one)
        for k in range(300):
            rng = rng_for(seed, "c13-tctx", k)
            c = gen_random_t(rng, False)
            c["ctx"] = ["decl", "void", "main", "asg", "asgmain"][k % 5]
            cases.append(c)
            origin.append("T-contexts")
    return cases, origin


def run(rep):
    seed, tier = rep.seed, rep.tier
    thorough = tier == "thorough"
    cq = common.coq_check_props(PROP)
    extra = ""
    if thorough and cq["ok"]:
        rc, o, e = common.sh(["coqchk", "-silent", "-o", "-Q", ".", "Cb", "Cb.C13.Properties_C13"], cwd=common.COQ, timeout=900)
        m = re.search(r"\* Axioms:\s*(.*?)\n\s*\n", o + e, re.S)
        rep.coverage["coqchk"] = {"rc": rc, "axioms": (m.group(1).strip() if m else "?")}
        extra = " + coqchk -o of the closure"
        if rc != 0:
            cq["ok"] = False
            cq["failed_theorem"] = "coqchk"
            cq["log"] += (o + e)[-1500:]
    common.proof_coverage(rep, cq, extra)
    if not cq["ok"]:
        rep.violation("proof", {"theorem": cq["failed_theorem"], "log": cq["log"][-3000:]},
                      "proof obligation %s no longer checks" % cq["failed_theorem"], True)
    common.ensure_model(PROP)
    impl = common.build_impl("plain")
    leaf = common.build_leaf("c13_classify", ["src/common/type_utils.cpp"],
                             extra_flags="-ffunction-sections -fdata-sections -Wl,--gc-sections")

    cases, origin = build_cases(seed, thorough)
    models = run_models(cases)
    impls = run_impl_many(impl, cases)

    hist, lab_hist = {}, {}
    n_conf = n_safe = 0
    distinct, nontrivial = set(), 0
    bad, inconsistent = [], []
    for c, o, m, i in zip(cases, origin, models, impls):
        hist[o] = hist.get(o, 0) + 1
        key = to_line(c) + "|" + (type_name(c["type"]) if c["fam"] == "A" else "")
        if c["fam"] in ("A", "M"):
            key += "|%d|%d" % (c.get("bn", 0), c.get("body", 0))
        if c["fam"] in ("L", "LT", "LQ"):
            key += "|%s|%d%d%d" % (c.get("loop", "for"), c.get("merge", 0), c.get("argcall", 0), c.get("mutate", 0))
        first = key not in distinct
        distinct.add(key)
        conf = conforming(m)
        n_conf += conf
        n_safe += m["safe"]
        if first and (m["mech"]["cls"] != "ok" or any(l not in ("after", "done", "g1") and not l.startswith(("back", "end", "call ", "it "))
                                                      for l in m["mech"]["out"])):
            nontrivial += 1
        if m["safe"] and not conf:
            inconsistent.append((c, m, "safe_* holds but Mech differs from Spec"))
        if o.endswith("-safe") and c["fam"] != "A" and not m["safe"]:
            inconsistent.append((c, m, "generator asked for a conforming case, model says it is not"))
        if not conf:
            labs = label(c, m)
            for l in labs[:1] or ["none"]:
                lab_hist[l] = lab_hist.get(l, 0) + 1
            if not labs:
                inconsistent.append((c, m, "Mech leaves Spec but no recorded defect explains it"))
        if "unmodelled" in (m["mech"]["cls"], m["spec"]["cls"]):
            continue
        if not same(i, m["mech"]):
            bad.append((c, o, m, i))

    # classify_runtime_error / build_result_err against the model, byte for byte
    msgs = gen_messages(seed, 500000 if thorough else 20000)
    cbad, cclasses = run_classify(leaf, msgs, rep)

    j1 = next((j for j, o in enumerate(origin) if o == "A-transports-exhaustive"), 0) + 37
    j2 = next((j for j, o in enumerate(origin) if o == "Q-chains-exhaustive"), 0) + 58
    j3 = next((j for j, o in enumerate(origin) if o == "T-expressions-exhaustive"), 0) + 101
    j4 = next((j for j, o in enumerate(origin) if o == "A-name-relations-pairs"), 0) + 11
    j5 = next((j for j, o in enumerate(origin) if o == "M-name-relations-suites"), 0) + 3
    rep.coverage.update({
        "evaluations": len(cases) + len(msgs), "distinct_nontrivial": nontrivial,
        "rule": "real interpreter (main) vs extracted Coq Mech model on the same skeleton program: stdout lines and error class must be "
                "equal for every program, conforming or not; distinct = distinct (type, skeleton); non-trivial = the transcript contains "
                "an arm/variant/value/enter/post event or ends in an error class. Additionally classify_runtime_error+build_result_err "
                "(leaf driver including error_handling.cpp) vs the model on %d messages." % len(msgs),
        "exhaustive": True,
        "exhaustive_space": "arm lists: all ordered subsets of 1..%d variants x wildcard at every position x every scrutinee variant; transports: "
                            "all step sequences of length <= %d over {decl-var, decl-call, assign-var, assign-call, assign-constructor, parameter} x "
                            "3 sources x {match var, match call} x every variant of 3 types; ? chains: 1..%d links x every context assignment "
                            "(5 contexts) x failing link at every position x Result/Option; try/checked: all binary expressions over 8 atoms x 5 "
                            "operators x %d operand pairs%s; variant-name relations: every ordered pair (r, s) of %d sets of related names x 5 arm "
                            "lists, all ordered arm subsets x wildcard positions x 3 values for %s name sets; match suites: 5 styles x nested match at "
                            "no/first/second arm x 7 arm lists x 2 values over a prefix-related pair; ? operand form (call / variable) alternating "
                            "over every link of every chain; 62 expressions with the failing operation inside a called function; "
                            "string-valued operands of try/checked: 6 string atoms, every `x + y` and cat(x, y) over them, failing index "
                            "expressions; re-assignment of one variable / struct member: every variant sequence of length <= %d for 6 types "
                            "with the way of assignment rotating over 5; sequences: every ordered pair (x, y) of 38 producer classes "
                            "(try/checked int/string ok/err, ? chains Ok/Err-string/Err-int/None, constructors of Result/Option/user/generic "
                            "enums through declaration, call, parameter, return) as one program calling x, y, x; one try/checked site and one "
                            "? chain called 6-8 times with alternating outcomes; loop bodies: every ordered pair of the candidate values (every variant, "
                            "payload kinds int / long / string / none / struct / enum / depth 3) of 12 outer types as x, y, x' in one loop; 22 pipelines x 12 types "
                            "x 2 value rotations; 16 try/checked sites x 2 keywords x 2 operand orders; `f(i)?`: 5 contexts x 2 operand forms x Result/Option x "
                            "2-4 executions x first failure at every position (quick: half of the inner positions)" % ((
                                5 if thorough else 4, 3 if thorough else 2, 5 if thorough else 4,
                                len(AB) if thorough else 4, " x 6 statement contexts" if thorough else " (statement context rotating over 4)",
                                len(NAME_SETS), "all" if thorough else "3 (seed-chosen)") + (4 if thorough else 3,)),
        "input_distribution": hist, "programs": len(cases), "classify_messages": len(msgs), "classify_classes": cclasses,
        "model_conforming_to_spec": n_conf, "in_proved_fragment": n_safe,
        "nonconforming_by_known_finding": lab_hist,
        "avoided_known_findings": "main stream = cases of the proved fragment (safe_a/safe_q/safe_t, extracted): %d; all others are compared with "
                                  "the Mech model only and labelled by the recorded defect they contain" % n_safe,
        "samples": [{"case": cases[j], "cb": to_cb(cases[j]), "impl": impls[j], "spec": models[j]["spec"]} for j in (j1, j2, j3, j4, j5)
                    if j < len(cases)],
    })
    for c, m, why in inconsistent[:3]:
        rep.violation("model-consistency", {"case": c, "model": m, "why": why},
                      "extracted model contradicts its own theorems/labels (%s)" % why, True)
    if cbad:
        # the property's own reading: the three texts the evaluator raises must be named by their class
        core = {"Division by zero": "DivisionByZeroError", "Array index out of bounds": "IndexOutOfBoundsError",
                "Null pointer dereference": "NullPointerError"}
        rc, o, e = common.sh([leaf], input=("".join("%s %s\n" % (t, m) for m in core for t in "TC")).encode(), timeout=60)
        got = o.split("\n")[:-1]
        broken_core = [(m, t, g) for (m, t), g in zip([(m, t) for m in core for t in "TC"], got)
                       if not g.split("|")[3].startswith(core[m] + ": ")]
        for m, t, g in broken_core[:2]:
            rep.violation("classify-core", {"message": m, "checked": t == "C", "impl": g, "demanded_class": core[m],
                                            "program": "Result<int, RuntimeError> g(int a, int b) { return %s (...); } raising %r" % (
                                                "checked" if t == "C" else "try", m)},
                          "try/checked names the wrong class for the evaluator's own error text %r: %r (demanded %s)" % (m, g, core[m]))
        for msg, g, x in cbad[:3]:
            rep.violation("classify", {"message": msg, "impl": g, "model": x, "core_messages_still_classified": not broken_core,
                                       "broken": "correspondence Model.classify/build_err = error_handling.cpp (carrier of try_err_class / classify_order)"},
                          "classify_runtime_error/build_result_err and the proved model disagree on message %r: impl %r model %r" % (msg, g, x),
                          no_failing_input=not (msg in core and not g.split("|")[3].startswith(core[msg] + ": ")))
    rep.coverage["classify_disagreements"] = len(cbad)

    def spec_fail(i, m):
        return not same(i, m["spec"])
    bad.sort(key=lambda b: (not b[2]["safe"], not spec_fail(b[3], b[2]), size(b[0])))
    rep.coverage["disagreements"] = len(bad)
    reported = set()
    for c, o, m, i in bad[:4]:
        want = spec_fail(i, m)

        def still_bad(q):
            mm = run_models([q])[0]
            if "unmodelled" in (mm["mech"]["cls"], mm["spec"]["cls"]):
                return False
            ii = run_impl(impl, q)
            return (not same(ii, mm["mech"])) and spec_fail(ii, mm) == want
        q = shrink(c, still_bad)
        mm = run_models([q])[0]
        ii = run_impl(impl, q)
        key = to_line(q)
        if key in reported:
            continue
        reported.add(key)
        sf = spec_fail(ii, mm)
        verdict = ("implementation violates the property's reading: expected %r/%s, got %r/%s" % (mm["spec"]["out"], mm["spec"]["cls"], ii["out"], ii["cls"])) \
            if sf else "implementation agrees with the Spec on this input but not with the proved model"
        rep.violation("corr", {"case": q, "cb": to_cb(q), "impl": ii, "mech": mm["mech"], "spec": mm["spec"], "safe": mm["safe"],
                               "origin": o, "labels": label(q, mm),
                               "broken": "correspondence Mech model = interpreter (carrier of every C13 theorem)"},
                      "interpreter and proved model disagree on a %s-family case (%s)" % (q["fam"], verdict),
                      no_failing_input=not sf)

    # known findings: replay each stored input against the Spec (and the model against the implementation)
    for f in common.known_findings(PROP):
        r = f["replay"]
        if "cb" in r:
            i = run_impl(impl, None, src=r["cb"])
            if i["out"] != r["expected"]["out"] or i["cls"] != r["expected"]["cls"]:
                rep.known(f["id"], f["what_fails"])
            else:
                rep.notes.append("known finding %s no longer reproduces (fixed?)" % f["id"])
            continue
        c = r["case"]
        m = run_models([c])[0]
        i = run_impl(impl, c)
        exp = r["expected"]
        if m["spec"]["out"] != exp["out"] or m["spec"]["cls"] != exp["cls"]:
            rep.violation("known-replay", {"id": f["id"], "spec": m["spec"], "stored": exp},
                          "stored expectation of known finding %s is not what the Spec says" % f["id"], True)
        if not same(i, exp):
            rep.known(f["id"], f["what_fails"])
        else:
            rep.notes.append("known finding %s no longer reproduces (fixed?)" % f["id"])
        if not same(i, m["mech"]):
            rep.violation("corr-known", {"id": f["id"], "case": c, "cb": to_cb(c), "impl": i, "mech": m["mech"]},
                          "model and implementation disagree on known-finding replay " + f["id"], same(i, exp))
    rep.assumptions += [
        "the Mech model is tied to the C++ by differential testing (stdout transcript + error class), not by proof",
        "skeletons are printed to Cb text by the Python printer; binding names follow 4 schemes (fresh per arm; one name per payload kind; "
        "`_`-prefixed; names that are prefixes of each other) and are shared only between payloads of one kind and never equal a variable "
        "(C13-binding-name-reuse, -string-then-int, -overwrites-variable are recorded findings); the model has no parameter for binding names, "
        "arm-body form or the packaging of a match into a function - that these do not matter is tested, not proved",
        "payload strings contain no quote, backslash, brace or control character; integer operands of try/checked keep every intermediate below 2^62",
        "stderr text is reduced to an error class; diagnostics printed on stderr by successful runs are ignored",
        "loop programs: the loop form (for / while / body written out), one declaration statement per execution vs. one shared statement, the argument "
        "form (variable / call) and the overwriting of the source variable after construction are printer parameters the model does not have - that they do "
        "not matter is tested; a binding name receives ONE kind of Variable per run (ModelNest.l_kinds decides; recorded findings C13-binding-name-reuse, "
        "-string-then-int, -kept-over-integer) unless the match runs in a callee; struct payloads have 1-3 scalar members",
    ]


def replay(path):
    data = json.load(open(path))
    c = data["case"]
    common.ensure_model(PROP)
    if "message" in c:
        leaf = common.build_leaf("c13_classify", ["src/common/type_utils.cpp"],
                                 extra_flags="-ffunction-sections -fdata-sections -Wl,--gc-sections")
        bad, _ = run_classify(leaf, [c["message"]], None)
        print("message:", repr(c["message"]), "disagreements:", bad)
        return 1 if bad else 0
    if "case" not in c:
        print(json.dumps(c, indent=1)[:4000])
        return 1
    impl = common.build_impl("plain")
    q = c["case"]
    m = run_models([q])[0]
    i = run_impl(impl, q)
    print(to_cb(q))
    print("impl:", i)
    print("mech:", m["mech"])
    print("spec:", m["spec"])
    ok = same(i, m["mech"])
    print("agree with model:", ok, " agree with spec:", same(i, m["spec"]))
    return 0 if ok else 1
