"""C02 - operator precedence and associativity follow the specification table.

Theorems: coq/C02/Properties_C02.v (round trip parse(print e) = strip e for every expression tree,
any redundant parentheses, any level table; left/right associativity; generated ladder table =
the documented table since fix 4d0a4b7; the one law still refuted: `ident < ident > (`).
Tie: CB_VERIF_DUMP_AST of the real parser vs the extracted model parser on the same text
(all ordered operator pairs x {minimal, full, one redundant pair}, unary/postfix/ternary/assignment
nestings, random trees to depth 5-6, mutated token streams) + the metamorphic evaluation
println(e) vs println(full(e)) with operands found by brute force in the model.
"""
import itertools
import json
import os
import re
import sys

import common
from common import rng_for

sys.path.insert(0, os.path.join(common.VERIF, "translators"))
import ladder as ladder_tr  # noqa: E402

PROP = "C02"
LEVEL = "proof"
META = {
    "category": "proof",
    "technique": "Coq round-trip proof for a table-generic precedence-ladder parser (binary ladder, unary, postfix, ?:, "
                 "right-associative assignment, redundant parentheses) + ladder table re-extracted from the C++ on every run "
                 "+ differential AST comparison (CB_VERIF_DUMP_AST) and metamorphic evaluation against the real binary",
    "text": "Machine-checked theorems about a function-by-function Gallina model of expression_parser.cpp, "
            "RecursiveParser::parseTernary and parsePrimary: for EVERY expression tree over the documented operators (18 binary "
            "operators on any total level table, 5 prefix operators, ++/--, [] . -> calls, ?:, = and op=), with ANY placement of "
            "redundant parentheses, parsing the printed token stream returns the tree with the parentheses erased, provided the "
            "stream does not trip the generic-call look-ahead of parsePrimary (a computable predicate, implied by `no > directly before (`). "
            "Corollaries: binary operators group to the left, ?: and assignment to the right, higher levels bind tighter, "
            "fully parenthesised = minimally parenthesised. The level table of the C++ is re-extracted into Gen_LadderTable.v on "
            "every run; `ladder_is_spec` states that it IS the documented table (fix 4d0a4b7) and `ladder_conforms_to_spec` that printing "
            "by the documented table round-trips through the code's ladder; the only law still refuted is the generic-call look-ahead on "
            "`ident < ident > (`. The model is tied to the code on every run by comparing the AST dump of the real "
            "parser with the extracted model on the same text and by println(e) vs println(full(e)).",
    "note": "Trusted: Coq kernel (vm_compute for refutation witnesses and finite sweeps), no axioms (Print Assumptions: closed); "
            "extraction via ExtrOcamlBasic+ExtrOcamlString; hand-written model; the lexer is not modelled (tokens are printed "
            "blank-separated); identifiers are lower-case and name no type; await/try/checked/new/sizeof/casts to keyword types, "
            "method calls and chained calls are outside the modelled fragment; evaluation semantics only through the binary.",
}

VARS = ["a", "b", "c", "d", "e"]
BINOPS = ["||", "&&", "|", "^", "&", "==", "!=", "<", "<=", ">", ">=", "<<", ">>", "+", "-", "*", "/", "%"]
UNOPS = ["!", "-", "~"]
UNOPS_PTR = ["&", "*"]
ASGOPS = ["=", "+=", "-=", "*=", "/=", "%=", "&=", "|=", "^=", "<<=", ">>="]
CTX = ") ;"


# ------------------------------------------------------------------ trees
def sx(t):
    k = t[0]
    if k == "N":
        return "(N %d)" % t[1]
    if k == "V":
        return "(V %s)" % t[1]
    if k == "P":
        return "(P %s)" % sx(t[1])
    if k == "B":
        return "(B %s %s %s)" % (t[1], sx(t[2]), sx(t[3]))
    if k in ("U", "PRE", "POST"):
        return "(%s %s %s)" % (k, t[1], sx(t[2]))
    if k == "I":
        return "(I %s %s)" % (sx(t[1]), sx(t[2]))
    if k in ("M", "A"):
        return "(%s %s %s)" % (k, sx(t[1]), t[2])
    if k == "C":
        return "(C %s%s)" % (t[1], "".join(" " + sx(a) for a in t[2]))
    if k == "T":
        return "(T %s %s %s)" % (sx(t[1]), sx(t[2]), sx(t[3]))
    if k == "S":
        return "(S %s %s %s)" % (t[1], sx(t[2]), sx(t[3]))
    raise ValueError(t)


def unsx(s):
    """inverse of sx (the driver's `full` answers in the same syntax)"""
    toks = s.replace("(", " ( ").replace(")", " ) ").split()
    pos = [0]

    def one():
        assert toks[pos[0]] == "("
        pos[0] += 1
        k = toks[pos[0]]; pos[0] += 1
        if k == "N":
            v = ("N", int(toks[pos[0]])); pos[0] += 1
        elif k == "V":
            v = ("V", toks[pos[0]]); pos[0] += 1
        elif k == "P":
            v = ("P", one())
        elif k == "B":
            o = toks[pos[0]]; pos[0] += 1
            v = ("B", o, one(), one())
        elif k in ("U", "PRE", "POST"):
            o = toks[pos[0]]; pos[0] += 1
            v = (k, o, one())
        elif k == "I":
            v = ("I", one(), one())
        elif k in ("M", "A"):
            a = one()
            v = (k, a, toks[pos[0]]); pos[0] += 1
        elif k == "C":
            f = toks[pos[0]]; pos[0] += 1
            args = []
            while toks[pos[0]] != ")":
                args.append(one())
            v = ("C", f, args)
        elif k == "T":
            v = ("T", one(), one(), one())
        elif k == "S":
            o = toks[pos[0]]; pos[0] += 1
            v = ("S", o, one(), one())
        else:
            raise ValueError(k)
        assert toks[pos[0]] == ")"
        pos[0] += 1
        return v
    return one()


def children(t):
    k = t[0]
    if k in ("N", "V"):
        return []
    if k == "P":
        return [1]
    if k == "B":
        return [2, 3]
    if k in ("U", "PRE", "POST"):
        return [2]
    if k == "I":
        return [1, 2]
    if k in ("M", "A"):
        return [1]
    if k == "T":
        return [1, 2, 3]
    if k == "S":
        return [2, 3]
    return []


def positions(t, path=()):
    """all sub-tree positions (paths); call arguments are addressed as ('arg', i)"""
    yield path
    if t[0] == "C":
        for i, a in enumerate(t[2]):
            yield from positions(a, path + (("arg", i),))
    else:
        for c in children(t):
            yield from positions(t[c], path + (c,))


def get_at(t, path):
    for p in path:
        t = t[2][p[1]] if isinstance(p, tuple) else t[p]
    return t


def replace_at(t, path, fn):
    if not path:
        return fn(t)
    p = path[0]
    if isinstance(p, tuple):
        args = list(t[2])
        args[p[1]] = replace_at(args[p[1]], path[1:], fn)
        return (t[0], t[1], args)
    l = list(t)
    l[p] = replace_at(l[p], path[1:], fn)
    return tuple(l)


def strip(t):
    k = t[0]
    if k == "P":
        return strip(t[1])
    if k == "C":
        return ("C", t[1], [strip(a) for a in t[2]])
    l = list(t)
    for c in children(t):
        l[c] = strip(t[c])
    return tuple(l)


def size(t):
    return 1 + sum(size(get_at(t, (c,))) for c in children(t)) + (sum(size(a) for a in t[2]) if t[0] == "C" else 0)


def is_target(t):
    t = strip(t)
    return t[0] in ("V", "I", "M", "A") or (t[0] == "U" and t[1] == "*")


def rand_tree(rng, depth, kinds, leaf_num=0.35):
    """random source tree; kinds: set of constructs allowed among
    bin un ptr incdec idx mem call tern asg par"""
    if depth <= 0 or rng.random() < 0.12:
        if rng.random() < leaf_num:
            return ("N", rng.choice([0, 1, 2, 3, 5, 7, 10]))
        return ("V", rng.choice(VARS))
    opts = [("bin", 10), ("un", 3), ("ptr", 1), ("incdec", 2), ("idx", 2), ("mem", 1), ("call", 1.5), ("tern", 2), ("asg", 1.5), ("par", 2)]
    opts = [(k, w) for k, w in opts if k in kinds]
    k = rng.choices([o[0] for o in opts], [o[1] for o in opts])[0]
    sub = lambda: rand_tree(rng, depth - 1, kinds, leaf_num)   # noqa: E731
    if k == "bin":
        return ("B", rng.choice(BINOPS), sub(), sub())
    if k == "un":
        return ("U", rng.choice(UNOPS), sub())
    if k == "ptr":
        return ("U", rng.choice(UNOPS_PTR), sub())
    if k == "incdec":
        return (rng.choice(["PRE", "POST"]), rng.choice(["++", "--"]), sub())
    if k == "idx":
        return ("I", sub(), sub())
    if k == "mem":
        return (rng.choice(["M", "A"]), sub(), rng.choice(["m", "n"]))
    if k == "call":
        return ("C", rng.choice(["f", "g"]), [sub() for _ in range(rng.choice([0, 1, 1, 2, 2, 3]))])
    if k == "tern":
        return ("T", sub(), sub(), sub())
    if k == "asg":
        for _ in range(8):
            l = rand_tree(rng, min(depth - 1, 2), kinds & {"idx", "mem", "ptr", "par"}, 0.0)
            if is_target(l):
                op = rng.choice(ASGOPS)
                if strip(l)[0] == "U" and op != "=":
                    op = "="
                return ("S", op, l, sub())
        return ("S", rng.choice(ASGOPS), ("V", rng.choice(VARS)), sub())
    if k == "par":
        return ("P", sub())
    raise ValueError(k)


def add_random_pars(rng, t, p):
    """wrap each sub-tree with probability p in an explicit pair of parentheses"""
    k = t[0]
    if k == "C":
        t = ("C", t[1], [add_random_pars(rng, a, p) for a in t[2]])
    else:
        l = list(t)
        for c in children(t):
            l[c] = add_random_pars(rng, t[c], p)
        t = tuple(l)
    return ("P", t) if rng.random() < p else t


# ------------------------------------------------------------------ model side
def model_lines(sub, lines, table="pinned"):
    rc, o, e = common.sh([common.model_bin(PROP), sub, table], input=("\n".join(lines) + "\n").encode(), timeout=900)
    if rc != 0:
        raise RuntimeError("model %s failed rc=%d: %s" % (sub, rc, e[-800:]))
    out = o.split("\n")
    if out and out[-1] == "":
        out.pop()
    if len(out) != len(lines):
        raise RuntimeError("model %s: %d answers for %d lines" % (sub, len(out), len(lines)))
    return out


def model_tree(trees, table="pinned"):
    """-> list of dicts {text, wf, safe, nogtlp, rt, dump}"""
    res = []
    for l in model_lines("tree", [sx(t) for t in trees], table):
        if l.startswith("BAD"):
            raise RuntimeError("driver rejected a tree: " + l)
        text, flags, dump = l.split(" @@@ ")
        fl = dict(x.split("=") for x in flags.split())
        res.append({"text": text, "wf": fl["wf"] == "1", "safe": fl["safe"] == "1", "nogtlp": fl["nogtlp"] == "1",
                    "rt": fl["rt"] == "1", "dump": dump})
    return res


def model_parse(texts, ctx=None):
    return model_lines("parse", [t if ctx is None else t + " @@ " + ctx for t in texts])


def model_eval(cases):
    """cases: list of (values list for a..e, tree) -> list of int or None"""
    out = model_lines("eval", ["%s | %s" % (",".join(map(str, vs)), sx(t)) for vs, t in cases])
    return [None if x == "NONE" or x.startswith("BAD") else int(x) for x in out]


def model_full(trees):
    """the model's `full` (every operand in parentheses), as trees"""
    return [unsx(l) for l in model_lines("full", [sx(t) for t in trees])]


# ------------------------------------------------------------------ implementation side
_ENUM = {}


def ast_names():
    """ASTNodeType numbering of the CURRENT tree (src/common/ast.h)"""
    key = common.REPO
    if key not in _ENUM:
        src = open(os.path.join(common.REPO, "src/common/ast.h"), encoding="utf-8", errors="replace").read()
        m = re.search(r"enum class ASTNodeType\s*\{(.*?)\};", src, re.S)
        body = re.sub(r"//[^\n]*", "", m.group(1))
        names = [x.strip().split("=")[0].strip() for x in body.split(",") if x.strip()]
        _ENUM[key] = {i: (n[4:] if n.startswith("AST_") else n) for i, n in enumerate(names)}
    return _ENUM[key]


def canon(dump):
    names = ast_names()
    return re.sub(r"\(n(\d+)", lambda m: "(" + names.get(int(m.group(1)), "n" + m.group(1)), dump)


def split_nodes(s):
    """top-level parenthesised nodes of a blank-separated list"""
    out, depth, start = [], 0, None
    for i, ch in enumerate(s):
        if ch == "(":
            if depth == 0:
                start = i
            depth += 1
        elif ch == ")":
            depth -= 1
            if depth == 0 and start is not None:
                out.append(s[start:i + 1])
                start = None
    return out


def impl_dump_program(impl_dir, exprs, timeout=20):
    """one program `void main(){ println(E1); ... }`; returns list of canonical dumps (None for all if the
    program does not parse) and the raw (rc, stderr)"""
    src = "void main() {\n" + "".join("  println(%s);\n" % e for e in exprs) + "}\n"
    rc, o, e = common.run_cb(impl_dir, src, timeout=timeout, env={"CB_VERIF_DUMP_AST": "1", "CB_VERIF_PARSE_ONLY": "1"})
    line = None
    for l in e.split("\n"):
        if l.startswith("(n"):
            line = l
    if rc != 0 or line is None:
        return None, rc, e
    m = re.search(r"name=main B\(n\d+ S\[", line)
    if not m:
        return None, rc, e
    stmts = split_nodes(line[m.end():])
    # the statement list ends where the bracket closes: take exactly len(exprs) nodes
    res = []
    for s in stmts[:len(exprs)]:
        mm = re.match(r"\(n\d+ A\[(.*)\]\)$", s)
        if not mm:
            res.append("STMT " + canon(s))
            continue
        args = split_nodes(mm.group(1))
        res.append(canon(args[0]) if len(args) == 1 else "ARGS " + " ".join(canon(a) for a in args))
    if len(res) != len(exprs):
        return None, rc, e
    return res, rc, e


def impl_dumps(impl_dir, texts, batchable, batch=100):
    """canonical AST dump of the real parser for every expression text; 'ERR' when the program is rejected
    (exit 1), 'CRASH <rc>' otherwise. Expressions flagged batchable are parsed many per program."""
    out = [None] * len(texts)
    idx_b = [i for i in range(len(texts)) if batchable[i]]
    idx_s = [i for i in range(len(texts)) if not batchable[i]]
    chunks = [idx_b[i:i + batch] for i in range(0, len(idx_b), batch)]

    def run_chunk(ch):
        r, rc, e = impl_dump_program(impl_dir, [texts[i] for i in ch])
        return ch, r

    singles = list(idx_s)
    for ch, r in common.pmap(run_chunk, chunks):
        if r is None:
            singles += ch
        else:
            for i, d in zip(ch, r):
                out[i] = d

    def run_one(i):
        r, rc, e = impl_dump_program(impl_dir, [texts[i]])
        if r is not None:
            return i, r[0]
        return i, ("ERR" if rc == 1 else "CRASH %s" % rc)

    for i, d in common.pmap(run_one, singles):
        out[i] = d
    return out


def model_verdict(line):
    """model answer -> what the real parser must do with println(<text>);"""
    if line.startswith("OK "):
        return line[3:]
    if line.startswith("PARTIAL "):
        rest = line.split(" @@ ", 1)[1] if " @@ " in line else ""
        return "SKIP" if rest.startswith(",") else "ERR"     # a top-level comma starts a second println argument
    if line == "ERR":
        return "ERR"
    return line     # FUEL / BAD: never equal to an implementation answer


# ------------------------------------------------------------------ generators
def pair_cases():
    """all ordered pairs of binary operators, both groupings, x {minimal, full, one redundant pair}"""
    a, b, c = ("V", "a"), ("V", "b"), ("V", "c")
    out = []
    for o1 in BINOPS:
        for o2 in BINOPS:
            for t in (("B", o2, ("B", o1, a, b), c), ("B", o1, a, ("B", o2, b, c))):
                out.append(("pair-min", t))
                out.append(("pair-full", None, t))     # filled through the model's `full`
                for path in positions(t):     # root, both operands, every identifier (parenthesised identifiers
                    out.append(("pair-redundant", replace_at(t, path, lambda s_: ("P", s_))))   # are fine since 34a2124)
    return out


def nesting_cases():
    """unary / postfix / ternary / assignment nestings with every binary operator"""
    a, b, c, d, e = [("V", x) for x in VARS]
    out = []
    for o in BINOPS:
        for u in UNOPS + UNOPS_PTR:
            out += [("U", u, ("B", o, a, b)), ("B", o, ("U", u, a), b), ("B", o, a, ("U", u, b))]
        for pd in ("++", "--"):
            out += [("B", o, ("POST", pd, a), b), ("B", o, a, ("PRE", pd, b)), ("B", o, ("PRE", pd, a), ("POST", pd, b))]
        out += [("B", o, ("I", a, ("B", o, b, c)), d), ("I", ("B", o, a, b), c), ("B", o, ("M", a, "m"), ("A", b, "n")),
                ("B", o, ("C", "f", [("B", o, a, b), c]), d), ("C", "f", [("B", o, a, b)])]
        out += [("T", ("B", o, a, b), c, d), ("T", a, ("B", o, b, c), d), ("T", a, b, ("B", o, c, d)),
                ("B", o, ("T", a, b, c), d), ("B", o, a, ("T", b, c, d))]
        for s in ASGOPS:
            out += [("S", s, a, ("B", o, b, c)), ("B", o, ("S", s, a, b), c), ("B", o, a, ("S", s, b, c))]
    for u in UNOPS + UNOPS_PTR:
        for v in UNOPS + UNOPS_PTR:
            out.append(("U", u, ("U", v, a)))
        out += [("U", u, ("I", a, b)), ("I", ("U", u, a), b), ("U", u, ("POST", "++", a)), ("POST", "--", ("U", u, a)),
                ("U", u, ("PRE", "++", a)), ("PRE", "--", ("U", u, a)), ("U", u, ("M", a, "m")), ("M", ("U", u, a), "m"),
                ("U", u, ("C", "f", [a])), ("U", u, ("T", a, b, c)), ("T", ("U", u, a), b, c), ("U", u, ("S", "=", a, b))]
    out += [("T", a, ("T", b, c, d), e), ("T", a, b, ("T", c, d, e)), ("T", ("T", a, b, c), d, e),
            ("T", a, ("S", "=", b, c), d), ("T", a, b, ("S", "=", c, d)), ("T", ("S", "=", a, b), c, d),
            ("S", "=", a, ("T", b, c, d)), ("POST", "++", ("POST", "--", a)), ("PRE", "++", ("PRE", "--", a)),
            ("PRE", "++", ("POST", "++", a)), ("POST", "++", ("PRE", "++", a)), ("I", ("I", a, b), c), ("I", a, ("I", b, c)),
            ("M", ("M", a, "m"), "n"), ("A", ("M", a, "m"), "n"), ("I", ("M", a, "m"), b), ("M", ("I", a, b), "m"),
            ("C", "f", []), ("C", "f", [("C", "g", [a, b]), c]), ("I", ("C", "f", [a]), b), ("M", ("C", "f", [a]), "m")]
    for s1 in ASGOPS:
        for s2 in ASGOPS:
            out.append(("S", s1, a, ("S", s2, b, c)))
        out += [("S", s1, ("I", a, b), c), ("S", s1, ("M", a, "m"), c), ("S", s1, ("A", a, "m"), c),
                ("S", s1, ("I", a, ("B", "+", b, ("N", 1))), c), ("S", s1, ("I", ("I", a, b), c), d)]
    out += [("S", "=", ("U", "*", a), b), ("S", "=", ("P", ("M", a, "m")), b)]
    return out


def lookahead_cases():
    """boundary of the generic-call look-ahead (fix 9bd33cd): x < M > (R) for middles M that do / do not
    contain a token at which the scan gives up; the model mirrors the scan, so the ASTs must agree for all
    of them, and the round trip must hold exactly for the ones the model calls safe"""
    a, b, c, d = [("V", x) for x in VARS[:4]]
    mids = [b, ("N", 1), ("B", "*", b, c), ("B", "+", b, ("N", 1)), ("B", "-", b, c), ("U", "-", b), ("U", "*", b), ("U", "!", b),
            ("I", b, ("N", 1)), ("I", b, c), ("C", "g", [b]), ("P", b), ("B", "<<", b, ("N", 1)), ("B", "%", b, c), ("M", b, "m"),
            ("B", "*", ("U", "*", b), c), ("POST", "++", b)]
    rights = [("P", c), ("B", "&", c, d), ("P", ("B", "+", c, d)), ("B", "&&", c, d), ("T", c, d, a)]
    out = []
    for m in mids:
        for r in rights:
            out.append(("B", ">", ("B", "<", a, m), r))
            out.append(("B", ">=", ("B", "<", a, m), r))
            out.append(("B", ">", ("B", "<", ("M", a, "m"), m), r))
            out.append(("B", "&&", ("B", "<", a, m), ("B", ">", b, r)))
            out.append(("C", "f", [("B", "<", a, m), ("B", ">", b, r)]))
    return out


def mutate_tokens(rng, toks):
    """one or two token-level edits (malformed stream)"""
    pool = BINOPS + ["!", "~", "++", "--", "(", ")", "[", "]", ".", "->", "?", ":", ",", "=", "+=", "a", "b", "1", "f"]
    toks = list(toks)
    for _ in range(rng.choice([1, 1, 2])):
        r = rng.random()
        if r < 0.25 and toks:
            del toks[rng.randrange(len(toks))]
        elif r < 0.45:
            toks.insert(rng.randrange(len(toks) + 1), rng.choice(pool))
        elif r < 0.6 and toks:
            toks[rng.randrange(len(toks))] = rng.choice(pool)
        elif r < 0.8 and toks:
            ops = [i for i, t in enumerate(toks) if t in BINOPS or t in ASGOPS or t in ("?", ":")]
            if ops:
                toks[rng.choice(ops)] = rng.choice(BINOPS + ASGOPS + ["?", ":"])
        elif len(toks) >= 2:
            i = rng.randrange(len(toks) - 1)
            toks[i], toks[i + 1] = toks[i + 1], toks[i]
    return toks


_OUTSIDE = re.compile(r"(?:\.|->) [a-z_]\w* \(|\) \(")


def outside_fragment(text):
    """token shapes the model does not cover (method call, chained call / call through a parenthesised
    callee): the malformed stream skips them"""
    return bool(_OUTSIDE.search(text)) or text.strip() == ""


_OPCH = set("+-*/%<>=!&|^~?:.")


def compact(text):
    """the same token sequence with blanks only where two neighbours could fuse into another token"""
    toks = text.split()
    out = []
    for i, t in enumerate(toks):
        if i:
            p = toks[i - 1]
            glue_ops = p[-1] in _OPCH and t[0] in _OPCH
            glue_words = (p[-1].isalnum() or p[-1] == "_") and (t[0].isalnum() or t[0] == "_")
            num_dot = (p[-1].isdigit() and t[0] == ".") or (p[-1] == "." and t[0].isdigit())
            if glue_ops or glue_words or num_dot:
                out.append(" ")
        out.append(t)
    return "".join(out)


def primary_lbracket(text, safe=True):
    """array literals are outside the modelled fragment: a `[` in operand position"""
    toks = text.split()
    for i, t in enumerate(toks):
        if t == "[":
            prev = toks[i - 1] if i else None
            if prev is None or not (re.match(r"[a-z_0-9]", prev) or prev in (")", "]")):
                return True
    return False


def triple_cases():
    """thorough: all operator triples in the five tree shapes over four operands"""
    a, b, c, d = [("V", x) for x in VARS[:4]]
    for o1 in BINOPS:
        for o2 in BINOPS:
            for o3 in BINOPS:
                yield ("B", o3, ("B", o2, ("B", o1, a, b), c), d)
                yield ("B", o3, ("B", o1, a, ("B", o2, b, c)), d)
                yield ("B", o2, ("B", o1, a, b), ("B", o3, c, d))
                yield ("B", o1, a, ("B", o3, ("B", o2, b, c), d))
                yield ("B", o1, a, ("B", o2, b, ("B", o3, c, d)))


# ------------------------------------------------------------------ evaluation (the property's own observable)
FUNS = "int f(int x, int y) { return x * 3 + y; }\nint g(int x) { return 7 - x; }\n"
EVAL_KINDS = {"bin", "un", "tern", "par"}
VALS = [0, 1, 2, 3, 5, 7, -1, -2, -4, 8]


def rand_eval_tree(rng, depth, calls=True):
    if depth <= 0 or rng.random() < 0.1:
        if rng.random() < 0.3:
            return ("N", rng.choice([0, 1, 2, 3, 5, 7, 10]))
        return ("V", rng.choice(VARS))
    r = rng.random()
    sub = lambda: rand_eval_tree(rng, depth - 1, calls)   # noqa: E731
    if r < 0.62:
        return ("B", rng.choice(BINOPS), sub(), sub())
    if r < 0.78:
        return ("U", rng.choice(UNOPS), sub())
    if r < 0.90:
        return ("T", sub(), sub(), sub())
    if calls and r < 0.96:
        return rng.choice([("C", "g", [sub()]), ("C", "f", [sub(), sub()])])
    return ("P", sub())


def find_values(rng, trees, alts=(), tries=40, vals=None):
    """operand values for a..e (brute force in the model) under which every tree in `trees` is defined
    and, if possible, differs in value from every tree in `alts` (the other groupings)"""
    cands = [[rng.choice(vals or VALS) for _ in VARS] for _ in range(tries)]
    cases = [(vs, t) for vs in cands for t in list(trees) + list(alts)]
    ev = model_eval(cases)
    n = len(trees) + len(alts)
    best = None
    for k, vs in enumerate(cands):
        row = ev[k * n:(k + 1) * n]
        if any(v is None for v in row[:len(trees)]):
            continue
        disc = sum(1 for x in row[len(trees):] if x is not None and x != row[0])
        if best is None or disc > best[0]:
            best = (disc, vs, row[0])
        if alts and disc == len(alts):
            break
    return best     # (number of alternatives told apart, values, expected value) or None


def eval_program(cases):
    """cases: list of (values, [expr text, ...]); prints every text of a case under its values"""
    lines = [FUNS, "void main() {\n"]
    lines.append("".join("  int %s = 0;\n" % v for v in VARS))
    for vs, texts in cases:
        lines.append("".join("  %s = %d;\n" % (v, x) for v, x in zip(VARS, vs)))
        for t in texts:
            lines.append("  println(%s);\n" % t)
    lines.append("}\n")
    return "".join(lines)


def run_eval_cases(impl_dir, cases, chunk=25):
    """-> per case: list of output lines (one per text) or ('ERR', rc, stderr)"""
    out = [None] * len(cases)
    chunks = [list(range(i, min(i + chunk, len(cases)))) for i in range(0, len(cases), chunk)]

    def run_chunk(ch):
        rc, o, e = common.run_cb(impl_dir, eval_program([cases[i] for i in ch]))
        return ch, rc, o, e

    retry = []
    for ch, rc, o, e in common.pmap(run_chunk, chunks):
        ls = o.split("\n")[:-1] if o.endswith("\n") else o.split("\n")
        need = sum(len(cases[i][1]) for i in ch)
        if rc == 0 and len(ls) == need:
            k = 0
            for i in ch:
                n = len(cases[i][1])
                out[i] = ls[k:k + n]
                k += n
        else:
            retry += ch

    def run_one(i):
        rc, o, e = common.run_cb(impl_dir, eval_program([cases[i]]))
        ls = o.split("\n")[:-1] if o.endswith("\n") else o.split("\n")
        if rc == 0 and len(ls) == len(cases[i][1]):
            return i, ls
        return i, ("ERR", rc, (o[-200:] + " | " + e[-300:]))

    for i, r in common.pmap(run_one, retry):
        out[i] = r
    return out


def effect_program(cases):
    """cases: list of (values, [statement-or-expression text...]) with side effects (++/--, op=):
    the variables are reset before every text and printed after it"""
    lines = [FUNS, "void main() {\n", "".join("  int %s = 0;\n" % v for v in VARS)]
    for vs, texts in cases:
        for t in texts:
            lines.append("".join("  %s = %d;\n" % (v, x) for v, x in zip(VARS, vs)))
            lines.append("  %s\n" % t)
            lines.append("  println(%s);\n" % ", ".join(VARS))
    lines.append("}\n")
    return "".join(lines)


# ------------------------------------------------------------------ shrinking
def subtrees(t):
    yield t
    if t[0] == "C":
        for a in t[2]:
            yield from subtrees(a)
    else:
        for c in children(t):
            yield from subtrees(t[c])


def shrink_candidates(t):
    """smaller trees: every proper sub-tree, and the tree with one node replaced by one of its children"""
    seen, out = set(), []

    def add(x):
        k = sx(x)
        if k not in seen and size(x) < size(t):
            seen.add(k)
            out.append(x)
    for s in list(subtrees(t))[1:]:
        add(s)
    for path in list(positions(t)):
        node = get_at(t, path)
        kids = node[2] if node[0] == "C" else [node[c] for c in children(node)]
        for k in kids:
            try:
                add(replace_at(t, path, lambda _s, k=k: k))
            except Exception:
                pass
    out.sort(key=size)
    return out[:60]


def tree_disagrees(impl_dir, trees):
    """for each source tree: None if the real parser agrees with the model on its printed text, else a dict"""
    mt = model_tree(trees)
    texts = [m["text"] for m in mt]
    mp = model_parse(texts)
    im = impl_dumps(impl_dir, texts, [False] * len(texts))
    res = []
    for t, m, p_, i in zip(trees, mt, mp, im):
        v = model_verdict(p_)
        if v == "SKIP" or v == i or (primary_lbracket(m["text"], m["safe"]) and v == "ERR"):
            res.append(None)
        else:
            res.append({"text": m["text"], "model": p_, "impl": i, "wf": m["wf"], "safe": m["safe"], "rt": m["rt"]})
    return res


def shrink_tree(impl_dir, t, rounds=12):
    cur = t
    for _ in range(rounds):
        cands = shrink_candidates(cur)
        if not cands:
            break
        res = tree_disagrees(impl_dir, cands)
        nxt = next((c for c, r in zip(cands, res) if r is not None), None)
        if nxt is None:
            break
        cur = nxt
    return cur


def evaluable(t):
    k = t[0]
    if k in ("N", "V"):
        return True
    if k == "P":
        return evaluable(t[1])
    if k == "B":
        return evaluable(t[2]) and evaluable(t[3])
    if k == "U":
        return t[1] in UNOPS and evaluable(t[2])
    if k == "T":
        return all(evaluable(t[i]) for i in (1, 2, 3))
    if k == "C":
        return ((t[1] == "g" and len(t[2]) == 1) or (t[1] == "f" and len(t[2]) == 2)) and all(evaluable(a) for a in t[2])
    return False


def property_oracle(impl_dir, seed, t):
    """The property's own reading on one source tree: println of the text as given (with its redundant
    parentheses), of the minimal text and of the fully parenthesised text must print the same value
    (operand values by brute force in the model), and the real parser must build the same AST for the three
    texts.  -> (violated?, description, payload)"""
    t0 = strip(t)
    mt = model_tree([t, t0, model_full([t0])[0]])
    forms = [("given", mt[0]["text"]), ("minimal", mt[1]["text"]), ("full", mt[2]["text"])]
    if forms[0][1] == forms[1][1]:
        forms = forms[1:]
    texts = [x[1] for x in forms]
    d = impl_dumps(impl_dir, texts, [False] * len(texts))
    payload = {"texts": dict(forms), "impl_ast": dict(zip([x[0] for x in forms], d))}
    if evaluable(t0) and all(m["safe"] for m in mt):
        rng = rng_for(seed, "c02-oracle", sx(t0))
        cands = [[rng.choice(VALS) for _ in VARS] for _ in range(60)]
        ev = model_eval([(vs, t0) for vs in cands])
        cases = [(vs, texts) for vs, v in zip(cands, ev) if v is not None][:30]
        exp = [v for v in ev if v is not None][:30]
        outs = run_eval_cases(impl_dir, cases)
        for (vs, _), o, want in zip(cases[:3], outs[:3], exp[:3]):
            if not isinstance(o, list):
                # the program failed as a whole: run each form alone
                rs = [common.run_cb(impl_dir, eval_program([(vs, [tx])])) for tx in texts]
                ss = [(r[0], r[1].strip()) for r in rs]
                if len(set(ss)) > 1:
                    payload.update({"values": dict(zip(VARS, vs)), "value_of_the_tree": want,
                                    "alone": {n: {"rc": r[0], "stdout": r[1], "stderr": r[2][:300]} for (n, _), r in zip(forms, rs)},
                                    "program": eval_program([(vs, texts)])})
                    return True, "; ".join("println(%s) gives exit %s output %r" % (tx, x[0], x[1]) for tx, x in zip(texts, ss)) + \
                        " with %s" % dict(zip(VARS, vs)), payload
        for (vs, _), o, want in zip(cases, outs, exp):
            if isinstance(o, list) and len(set(o)) > 1:
                payload.update({"values": dict(zip(VARS, vs)), "printed": dict(zip([x[0] for x in forms], o)),
                                "value_of_the_tree": want, "program": eval_program([(vs, texts)])})
                return True, "; ".join("println(%s) prints %s" % (tx, x) for tx, x in zip(texts, o)) + \
                    " with %s" % dict(zip(VARS, vs)), payload
    if len(set(d)) > 1:
        return True, "the parser builds different ASTs for " + " / ".join("`%s`" % tx for tx in texts), payload
    return False, "println and AST agree for the given, minimal and fully parenthesised text on this input", payload


# ------------------------------------------------------------------ known findings
def replay_finding(impl_dir, f):
    """-> True if the stored input still shows the defect"""
    r = f["replay"]
    env = {"CB_VERIF_PARSE_ONLY": "1"} if r.get("parse_only") else None
    rc, o, e = common.run_cb(impl_dir, r["program"], env=env)
    got = o.split("\n")[:-1] if o.endswith("\n") else o.split("\n")
    ok = (rc == 0 and (r.get("parse_only") or got == r["expected"]))
    return not ok, {"rc": rc, "stdout": got[:6], "stderr": e[:200]}


# ------------------------------------------------------------------ main
def run(rep):
    seed, tier = rep.seed, rep.tier
    quick = tier == "quick"
    import time as _time
    phase, _t = {}, [_time.time()]

    def mark(name):
        phase[name] = round(_time.time() - _t[0], 1)
        _t[0] = _time.time()
    # (0) re-extract the ladder table from the current C++ text
    gen = os.path.join(common.COQ, PROP, "Gen_LadderTable.v")
    with common.Lock("c02-gen"):
        info, tstatus = ladder_tr.regenerate(common.REPO, gen)
    rep.coverage["translator"] = {"status": tstatus, "recognised": info.get("recognised"),
                                  "problems": info.get("problems"),
                                  "levels": [[ladder_tr.OP_TEXT[o] for o in l["ops"]] for l in info.get("levels", [])]}
    if tstatus == "stale":
        rep.notes.append("translator: stale - expression_parser.cpp no longer has the recognised shape (%s); "
                         "Gen_LadderTable.v is the last generated one, relying on the correspondence run" % info.get("problems"))
    # (1) proofs
    cq = common.coq_check_props(PROP)
    common.proof_coverage(rep, cq)
    proof_broken = not cq["ok"]
    mark("coq")
    common.ensure_model(PROP)
    impl = common.build_impl("plain")
    mark("builds")

    violations = []      # (kind, tree-or-text, detail)
    hist = {}
    n_eval = 0
    distinct = set()
    nontrivial = set()
    avoided = {"generic-lookahead": 0, "outside-fragment": 0}
    samples = []

    # which operator pairs are ordered differently by the current C++ table and the pinned table
    changed_pairs = []
    if info.get("recognised"):
        cur = {}
        for k, l in enumerate(info["levels"]):
            for o in l["ops"]:
                cur.setdefault(ladder_tr.OP_TEXT[o], k + 1)
    rc_, lv_out, _ = common.sh([common.model_bin(PROP), "levels", "pinned"])
    pin = {l.split()[0]: int(l.split()[1]) for l in lv_out.split("\n") if l.strip()}
    if info.get("recognised"):
        sign = lambda x: (x > 0) - (x < 0)   # noqa: E731
        for o1 in BINOPS:
            for o2 in BINOPS:
                if sign(cur.get(o1, 0) - cur.get(o2, 0)) != sign(pin[o1] - pin[o2]):
                    changed_pairs.append((o1, o2))
        rep.coverage["translator"]["pairs_ordered_differently_from_pinned"] = len(changed_pairs)

    # ---------------- (2) AST correspondence: trees
    trees, origin = [], []
    corpus = os.path.join(common.VERIF, "corpus", "c02.json")
    corpus_texts = []
    if os.path.exists(corpus):
        for c in json.load(open(corpus)):
            if "tree" in c:
                trees.append(unsx(c["tree"])); origin.append("corpus")
            elif "text" in c:
                corpus_texts.append(c["text"])
    a_, b_, c_ = ("V", "a"), ("V", "b"), ("V", "c")
    for (o1, o2) in changed_pairs[:40]:       # targeted: the operators whose relative level changed
        trees += [("B", o2, ("B", o1, a_, b_), c_), ("B", o1, a_, ("B", o2, b_, c_))]
        origin += ["table-diff", "table-diff"]
    pc = pair_cases()
    fulls = iter(model_full([c[2] for c in pc if c[0] == "pair-full"]))
    for c in pc:
        trees.append(next(fulls) if c[0] == "pair-full" else c[1])
        origin.append(c[0])
    n_exh = len(pc)
    for t in nesting_cases():
        trees.append(t); origin.append("nesting-min")
        trees.append(model_full_one(t)); origin.append("nesting-full")
    for t in lookahead_cases():
        trees.append(t); origin.append("lookahead-boundary")
    for k, t in enumerate(nesting_cases()):
        trees.append(add_random_pars(rng_for(seed, "c02-nestred", k), t, 0.35)); origin.append("nesting-redundant")
    if not quick:
        for t in triple_cases():
            trees.append(t); origin.append("triple-min")
    n_rand = 4000 if quick else 60000
    all_kinds = {"bin", "un", "ptr", "incdec", "idx", "mem", "call", "tern", "asg", "par"}
    for k in range(n_rand):
        rng = rng_for(seed, "c02-tree", k)
        depth = rng.choice([2, 3, 4, 5] if quick else [3, 4, 5, 6])
        t = rand_tree(rng, depth, all_kinds if rng.random() < 0.7 else {"bin", "un", "tern", "par", "incdec"})
        r = rng.random()
        if r < 0.35:
            t = strip(t); o = "random-min"
        elif r < 0.6:
            t = model_full_one(strip(t)); o = "random-full"
        else:
            t = add_random_pars(rng, t, rng.choice([0.05, 0.15, 0.4])); o = "random-redundant"
        trees.append(t); origin.append(o)
    # batch the model's `full` requests made above
    trees = resolve_full(trees)

    mt = model_tree(trees)
    texts = [m["text"] for m in mt]
    mp = model_parse(texts)
    im = impl_dumps(impl, texts, [True] * len(texts))      # the look-ahead stops at ) ; since 9bd33cd: statements are independent
    rt_fail = []
    for t, o, m, p_, i in zip(trees, origin, mt, mp, im):
        hist[o] = hist.get(o, 0) + 1
        n_eval += 1
        if not m["safe"]:
            avoided["generic-lookahead"] += 1     # `ident < ident > (`: excluded from the round-trip claim, ASTs still compared
        if m["wf"] and m["safe"] and not m["rt"]:
            rt_fail.append((t, m["text"], p_))
        v = model_verdict(p_)
        if v == "SKIP":
            continue
        if m["text"] not in distinct:
            distinct.add(m["text"])
            if any(x in m["text"] for x in BINOPS + ["?", "=", "++", "--", "[", "."]):
                nontrivial.add(m["text"])
        if v != i:
            if primary_lbracket(m["text"], m["safe"]) and v == "ERR":
                avoided["outside-fragment"] += 1
                continue
            violations.append(("tree", t, {"origin": o, "text": m["text"], "model": p_, "impl": i, "safe": m["safe"]}))
    for k in (n_exh // 2, len(trees) - 7, len(trees) - 3):
        if 0 <= k < len(trees):
            samples.append({"origin": origin[k], "tree": sx(trees[k]),
                            "text": texts[k], "model": mp[k], "impl": im[k]})
    for t, text, p_ in rt_fail[:3]:
        rep.violation("model-roundtrip", {"tree": sx(t), "text": text, "model": p_},
                      "extracted model contradicts roundtrip_general on a safe well-formed tree (model/extraction defect)", True)

    mark("ast-trees")
    # ---------------- (2b) the real lexer: the same token sequence written compactly (a+b*c) must give the
    # same AST as the blank-separated text the model is compared on
    sel = [k for k in range(len(texts)) if im[k] is not None and not str(im[k]).startswith(("ERR", "CRASH"))]
    sel = sel[::2] if quick else sel
    ctexts = [compact(texts[k]) for k in sel]
    cim = impl_dumps(impl, ctexts, [True] * len(ctexts))
    n_compact = 0
    for k, ct, ci in zip(sel, ctexts, cim):
        n_compact += 1
        if ci != im[k]:
            violations.append(("text", ct, {"origin": "compact-spelling", "text": ct, "model": "same AST as `%s`: %s" % (texts[k], im[k]), "impl": ci}))
    hist["compact-spelling"] = n_compact
    n_eval += n_compact
    if ctexts:
        samples.append({"origin": "compact-spelling", "text": ctexts[len(ctexts) // 2], "same_ast_as": texts[sel[len(ctexts) // 2]]})

    mark("compact")
    # ---------------- (3) malformed token streams (one program each)
    n_mal = 2500 if quick else 25000
    base = [m["text"] for m, o in zip(mt, origin) if o.startswith("random")]
    mtexts = list(corpus_texts)
    for k in range(n_mal):
        rng = rng_for(seed, "c02-mal", k)
        toks = mutate_tokens(rng, rng.choice(base).split() if base else ["a"])
        s = " ".join(toks)
        if outside_fragment(s):
            avoided["outside-fragment"] += 1
            continue
        mtexts.append(s)
    mmp = model_parse(mtexts)
    msafe = model_lines("safe", mtexts)
    mim = impl_dumps(impl, mtexts, [False] * len(mtexts))
    mal_ok = 0
    for s, p_, i, sf in zip(mtexts, mmp, mim, msafe):
        hist["malformed"] = hist.get("malformed", 0) + 1
        n_eval += 1
        v = model_verdict(p_)
        if v == "SKIP":
            continue
        if v not in ("ERR",):
            mal_ok += 1
        if s not in distinct:
            distinct.add(s); nontrivial.add(s)
        if v != i:
            if primary_lbracket(s, sf == "1"):
                avoided["outside-fragment"] += 1
                continue
            violations.append(("text", s, {"origin": "malformed", "text": s, "model": p_, "impl": i}))
    rep.coverage["malformed_accepted_by_both"] = mal_ok
    if mtexts:
        samples.append({"origin": "malformed", "text": mtexts[len(mtexts) // 2], "model": mmp[len(mtexts) // 2], "impl": mim[len(mtexts) // 2]})

    mark("malformed")
    # ---------------- (4) metamorphic evaluation: println(e) vs println(full(e)), operands from the model
    ev_cases, ev_meta = [], []
    a_, b_, c_ = ("V", "a"), ("V", "b"), ("V", "c")
    pair_trees = []
    for o1 in BINOPS:
        for o2 in BINOPS:
            pair_trees.append((("B", o2, ("B", o1, a_, b_), c_), ("B", o1, a_, ("B", o2, b_, c_))))
    undisc = 0
    for k, (tl, tr) in enumerate(pair_trees):
        rng = rng_for(seed, "c02-pairval", k)
        for t, alt in ((tl, tr), (tr, tl)):
            best = find_values(rng, [t], [alt])
            if best is None:
                continue
            if best[0] == 0:
                undisc += 1
            ev_meta.append({"tree": t, "values": best[1], "expect": best[2], "origin": "pair-eval"})
    n_re = 1500 if quick else 20000
    for k in range(n_re):
        rng = rng_for(seed, "c02-evtree", k)
        t = rand_eval_tree(rng, rng.choice([2, 3, 4, 5] if quick else [3, 4, 5, 6]))
        best = find_values(rng, [t], (), tries=12)
        if best is None:
            continue
        ev_meta.append({"tree": t, "values": best[1], "expect": best[2], "origin": "random-eval"})
    # texts: minimal, full, one random redundant placement
    mins = [strip(m["tree"]) for m in ev_meta]
    fulls_sx = model_full(mins)
    reds = []
    for k, m in enumerate(ev_meta):
        rng = rng_for(seed, "c02-evred", k)
        reds.append(add_random_pars(rng, mins[k], 0.3))
    mt_min, mt_full, mt_red = model_tree(mins), model_tree(fulls_sx), model_tree(reds)
    for m, x, y, z in zip(ev_meta, mt_min, mt_full, mt_red):
        # avoidance of what is left of C02-generic-lookahead: `ident < ident > (` (the model's safeb, exact)
        ok = x["safe"] and y["safe"] and z["safe"]
        m["texts"] = [x["text"], y["text"], z["text"]]
        m["safe"] = ok
        if not ok:
            avoided["generic-lookahead"] += 1
    ev_meta = [m for m in ev_meta if m["safe"]]
    outs = run_eval_cases(impl, [(m["values"], m["texts"]) for m in ev_meta])
    ev_distinct_values = set()
    for m, o in zip(ev_meta, outs):
        hist[m["origin"]] = hist.get(m["origin"], 0) + 1
        n_eval += 1
        key = (m["texts"][0], tuple(m["values"]))
        if key not in distinct:
            distinct.add(key); nontrivial.add(key)
        if not isinstance(o, list):
            violations.append(("eval", m["tree"], {"origin": m["origin"], "texts": m["texts"], "values": m["values"],
                                                    "impl": list(o), "expect": m["expect"]}))
            continue
        ev_distinct_values.add(o[0])
        if not (o[0] == o[1] == o[2] == str(m["expect"])):
            violations.append(("eval", m["tree"], {"origin": m["origin"], "texts": m["texts"], "values": m["values"],
                                                    "impl": o, "expect": m["expect"]}))
    rep.coverage["evaluation_runs"] = len(ev_meta)
    rep.coverage["pair_groupings_not_distinguishable_by_value"] = undisc
    rep.coverage["distinct_printed_values"] = len(ev_distinct_values)
    if ev_meta:
        k = len(ev_meta) // 3
        samples.append({"origin": ev_meta[k]["origin"], "values": dict(zip(VARS, ev_meta[k]["values"])),
                        "println": ev_meta[k]["texts"], "printed": outs[k], "model_value": ev_meta[k]["expect"]})

    # side effects: ++/-- inside expressions and op= statements, minimal vs full, same final state
    eff_cases = []
    n_eff = 300 if quick else 4000
    for k in range(n_eff):
        rng = rng_for(seed, "c02-eff", k)
        pure = rand_eval_tree(rng, rng.choice([1, 2, 3]), calls=False)
        used = set(re.findall(r"\(V (\w)\)", sx(pure)))
        free = [v for v in VARS if v not in used]
        if not free:
            continue
        x = rng.choice(free)
        if rng.random() < 0.5:
            inc = (rng.choice(["PRE", "POST"]), rng.choice(["++", "--"]), ("V", x))
            # the value the operand contributes (for the definedness guard evaluated in the model)
            val = ("V", x) if inc[0] == "POST" else ("B", "+" if inc[1] == "++" else "-", ("V", x), ("N", 1))
            r = rng.random()
            shape = (lambda h: ("B", o_, h, pure)) if r < 0.35 else (lambda h: ("B", o_, pure, h)) if r < 0.7 else \
                    (lambda h: ("U", u_, h)) if r < 0.8 else (lambda h: ("B", o_, ("U", u_, h), pure))
            o_, u_ = rng.choice(BINOPS), rng.choice(UNOPS)
            t, guard = shape(inc), shape(val)
            stmt = False
        else:
            op = rng.choice(ASGOPS)
            t = ("S", op, ("V", x), pure)
            guard = pure if op == "=" else ("B", op[:-1], ("V", x), pure)
            stmt = True
        best = find_values(rng, [guard], (), tries=12)      # negative operands too since fix 7c216d9
        if best is None:
            continue
        eff_cases.append((t, best[1], stmt))
    e_min = model_tree([c[0] for c in eff_cases])
    e_full = model_tree(model_full([c[0] for c in eff_cases]))
    eff_run = []
    for (t, vs, stmt), x, y in zip(eff_cases, e_min, e_full):
        if x["safe"] and y["safe"]:
            fmt = "%s;" if stmt else "println(%s);"
            eff_run.append((vs, [fmt % x["text"], fmt % y["text"]], t))
    chunks = [eff_run[i:i + 20] for i in range(0, len(eff_run), 20)]

    def run_eff(ch):
        rc, o, e = common.run_cb(impl, effect_program([(vs, tx) for vs, tx, _ in ch]))
        return ch, rc, o, e
    for ch, rc, o, e in common.pmap(run_eff, chunks):
        ls = o.split("\n")[:-1] if o.endswith("\n") else o.split("\n")
        per = []
        k = 0
        okc = rc == 0
        for vs, tx, t in ch:
            n = 4 if tx[0].startswith("println") else 2
            per.append(ls[k:k + n]); k += n
        if not okc or k != len(ls):
            # a runtime error inside the chunk: rerun one by one
            for vs, tx, t in ch:
                rc1, o1, e1 = common.run_cb(impl, effect_program([(vs, tx)]))
                l1 = o1.split("\n")[:-1]
                n = 4 if tx[0].startswith("println") else 2
                half = n // 2
                n_eval += 1
                hist["side-effects"] = hist.get("side-effects", 0) + 1
                if rc1 != 0 or len(l1) != n or l1[:half] != l1[half:]:
                    violations.append(("effect", t, {"origin": "side-effects", "texts": tx, "values": vs, "impl": l1, "rc": rc1, "stderr": e1[:200]}))
            continue
        for (vs, tx, t), l1 in zip(ch, per):
            half = len(l1) // 2
            n_eval += 1
            hist["side-effects"] = hist.get("side-effects", 0) + 1
            if l1[:half] != l1[half:]:
                violations.append(("effect", t, {"origin": "side-effects", "texts": tx, "values": vs, "impl": l1}))
    if eff_run:
        samples.append({"origin": "side-effects", "values": dict(zip(VARS, eff_run[0][0])), "statements": eff_run[0][1]})

    mark("evaluation")
    # ---------------- (5) disagreements: shrink, property oracle, report
    rep.coverage["disagreements"] = len(violations)
    violations.sort(key=lambda v: (v[0] != "tree", len(str(v[1]))))
    reported = 0
    for kind, obj, det in violations:
        if reported >= 6:
            break
        reported += 1
        if kind in ("tree", "eval", "effect") and not isinstance(obj, str):
            t = obj
            if kind == "tree":
                t = shrink_tree(impl, obj)
                dd = tree_disagrees(impl, [t])[0] or det
            else:
                dd = det
            bad, text, payload = property_oracle(impl, seed, t)
            payload.update({"tree": sx(t), "kind": kind, "first_seen": det,
                            "broken": "correspondence Model.parse = real parser (carrier of every C02 theorem)", "shrunk": dd})
            if kind in ("eval", "effect") and not bad:
                bad, text = True, "println of the minimal / full / redundant texts %s printed %s (model value %s) with values %s" % (
                    det.get("texts"), det.get("impl"), det.get("expect"), det.get("values"))
            rep.violation("corr", payload, ("real parser and proved model disagree on `%s`: %s" % (
                dd.get("text", det.get("text", "")), text)) if kind == "tree" else text, no_failing_input=not bad)
        else:
            rep.violation("corr-text", {"text": det["text"], "model": det["model"], "impl": det["impl"], "kind": kind,
                                        "broken": "correspondence Model.parse = real parser on a mutated token stream"},
                          "real parser and proved model disagree on the token stream `%s` (model %s, parser %s)" % (
                              det["text"], det["model"][:80], str(det["impl"])[:80]),
                          no_failing_input=True)
    if proof_broken:
        # name the obligation; a concrete input was searched above (table-diff trees come first)
        found = [p for p, _, noinp in rep.violations if not noinp]
        rep.violation("proof", {"theorem": cq["failed_theorem"], "log": cq["log"][-3000:],
                                "table_now": rep.coverage["translator"]["levels"],
                                "pairs_ordered_differently_from_pinned": changed_pairs[:20],
                                "concrete_input": found[0] if found else None},
                      "proof obligation %s no longer checks (generated ladder table/shape changed?)" % cq["failed_theorem"],
                      no_failing_input=not found)

    # ---------------- (5b) thorough: independent re-check of the compiled proofs
    if not quick and cq["ok"]:
        okc, summ = common.coqchk(PROP)
        rep.coverage["coqchk"] = {"ok": okc, "summary": summ[:600]}
        if not okc:
            rep.violation("coqchk", {"log": summ[-2000:]}, "coqchk rejects the compiled C02 development", True)

    # ---------------- (6) known findings
    # former witnesses of repaired defects (corpus): they must keep printing what the property demands
    n_prog = 0
    if os.path.exists(corpus):
        for c in json.load(open(corpus)):
            if "program" in c:
                n_prog += 1
                rc, o, e = common.run_cb(impl, c["program"])
                got = o.split("\n")[:-1] if o.endswith("\n") else o.split("\n")
                if rc != 0 or got != c["expected"]:
                    rep.violation("regression", {"program": c["program"], "expected": c["expected"], "rc": rc, "stdout": got[:8],
                                                 "stderr": e[:300], "from": c.get("from")},
                                  "former witness of a repaired defect fails again (%s): exit %s, printed %s, demanded %s" % (
                                      c.get("from"), rc, got[:6], c["expected"]))
    rep.coverage["corpus_programs"] = n_prog
    for f in common.known_findings(PROP):
        still, obs = replay_finding(impl, f)
        if still:
            rep.known(f["id"], f["what_fails"])
        else:
            rep.notes.append("known finding %s no longer reproduces (fixed?): %s" % (f["id"], obs))

    mark("report+known")
    rep.coverage["phase_seconds"] = phase
    rep.coverage.update({
        "evaluations": n_eval, "distinct_nontrivial": len(nontrivial),
        "rule": "every case = one expression text given to the real parser (CB_VERIF_DUMP_AST) and to the extracted model, or one "
                "program printing println(e) for the minimal / fully parenthesised / randomly parenthesised text under operand values "
                "found by brute force in the model; distinct = distinct text (x operand values); non-trivial = contains an operator",
        "exhaustive": True,
        "exhaustive_space": "all 18x18 ordered pairs of binary operators x both groupings x {minimal, full, redundant pair at each of the 5 positions} "
                            "(%d trees) + %d unary/postfix/ternary/assignment nestings%s; value level: all 648 pair groupings" % (
                                n_exh, len(nesting_cases()) * 3, "" if quick else " + all 18^3 operator triples x 5 shapes"),
        "input_distribution": hist, "avoided_known_findings": avoided, "samples": samples,
    })
    rep.assumptions += [
        "the lexer is not modelled: expression texts are printed with one blank between tokens; the real lexer is tied in by "
        "re-parsing the compact spelling (a+b*c) of the same token sequences and comparing ASTs",
        "identifiers are lower-case and name no type; await/try/checked/new/sizeof, casts to keyword types, method calls, "
        "chained calls and array literals are outside the modelled fragment (the malformed stream skips them)",
        "evaluation semantics are observed on the binary only; the model evaluator (int range, C division/shift) is used to pick "
        "operand values and as a third opinion on printed values",
        "fuel: the extracted parse uses enough_fuel; an out-of-fuel answer would be reported as a disagreement (never observed)",
    ]


def model_full_one(t):
    """placeholder resolved in one batch by resolve_full"""
    return ("FULLREQ", t)


def resolve_full(trees):
    idx = [i for i, t in enumerate(trees) if isinstance(t, tuple) and t and t[0] == "FULLREQ"]
    if idx:
        out = model_full([trees[i][1] for i in idx])
        for i, s in zip(idx, out):
            trees[i] = s
    return trees


def replay(path):
    data = json.load(open(path))
    c = data["case"]
    common.ensure_model(PROP)
    impl = common.build_impl("plain")
    if "program" in c:
        rc, o, e = common.run_cb(impl, c["program"])
        print("program:\n" + c["program"]); print("rc", rc); print(o); print(e[:500])
        ls = o.split("\n")[:-1] if o.endswith("\n") else o.split("\n")
        if "expected" in c:
            return 0 if rc == 0 and ls == c["expected"] else 1
        return 0 if rc == 0 and len(ls) >= 2 and len(set(ls)) == 1 else 1
    texts = list((c.get("texts") or {}).values()) or [c.get("text") or (c.get("shrunk") or {}).get("text")]
    texts = [t for t in texts if t]
    if texts:
        ms = model_parse(texts)
        ims = impl_dumps(impl, texts, [False] * len(texts))
        ok = True
        for t, m, i in zip(texts, ms, ims):
            print("text :", t); print("model:", m); print("impl :", i)
            ok = ok and model_verdict(m) == i
        return 0 if ok and len(set(ims)) == 1 else 1
    print(json.dumps(c, indent=1))
    return 1
