"""C02 - operator precedence and associativity follow the specification table.

Theorems: coq/C02/Properties_C02.v (round trip parse(print e) = strip e for every expression tree,
any redundant parentheses, any level table; left/right associativity; generated ladder table =
pinned table, <> spec table).
Tie: CB_VERIF_DUMP_AST of the real parser vs the extracted model parser on the same text
(all ordered operator pairs x {minimal, full, one redundant pair}, unary/postfix/ternary/assignment
nestings, random trees to depth 5-6, mutated token streams) + the metamorphic evaluation
println(e) vs println(full(e)) with operands found by brute force in the model.
"""
import itertools
import json
import os
import re
import sys

import common
from common import rng_for

sys.path.insert(0, os.path.join(common.VERIF, "translators"))
import ladder as ladder_tr  # noqa: E402

PROP = "C02"
LEVEL = "proof"
META = {
    "category": "proof",
    "technique": "Coq round-trip proof for a table-generic precedence-ladder parser (binary ladder, unary, postfix, ?:, "
                 "right-associative assignment, redundant parentheses) + ladder table re-extracted from the C++ on every run "
                 "+ differential AST comparison (CB_VERIF_DUMP_AST) and metamorphic evaluation against the real binary",
    "text": "Machine-checked theorems about a function-by-function Gallina model of expression_parser.cpp, "
            "RecursiveParser::parseTernary and parsePrimary: for EVERY expression tree over the documented operators (18 binary "
            "operators on any total level table, 5 prefix operators, ++/--, [] . -> calls, ?:, = and op=), with ANY placement of "
            "redundant parentheses, parsing the printed token stream returns the tree with the parentheses erased, provided the "
            "stream trips neither of the two look-aheads of parsePrimary (a computable predicate the generator uses as avoidance). "
            "Corollaries: binary operators group to the left, ?: and assignment to the right, higher levels bind tighter, "
            "fully parenthesised = minimally parenthesised. The level table of the C++ is re-extracted into Gen_LadderTable.v on "
            "every run; `ladder_is_pinned` names the table the model was proved against and `ladder_is_spec_refuted` records that "
            "== != share the relational level. The model is tied to the code on every run by comparing the AST dump of the real "
            "parser with the extracted model on the same text and by println(e) vs println(full(e)).",
    "note": "Trusted: Coq kernel (vm_compute for refutation witnesses and finite sweeps), no axioms (Print Assumptions: closed); "
            "extraction via ExtrOcamlBasic+ExtrOcamlString; hand-written model; the lexer is not modelled (tokens are printed "
            "blank-separated); identifiers are lower-case and name no type; await/try/checked/new/sizeof/casts to keyword types, "
            "method calls and chained calls are outside the modelled fragment; evaluation semantics only through the binary.",
}

VARS = ["a", "b", "c", "d", "e"]
BINOPS = ["||", "&&", "|", "^", "&", "==", "!=", "<", "<=", ">", ">=", "<<", ">>", "+", "-", "*", "/", "%"]
UNOPS = ["!", "-", "~"]
UNOPS_PTR = ["&", "*"]
ASGOPS = ["=", "+=", "-=", "*=", "/=", "%=", "&=", "|=", "^=", "<<=", ">>="]
CTX = ") ;"


# ------------------------------------------------------------------ trees
def sx(t):
    k = t[0]
    if k == "N":
        return "(N %d)" % t[1]
    if k == "V":
        return "(V %s)" % t[1]
    if k == "P":
        return "(P %s)" % sx(t[1])
    if k == "B":
        return "(B %s %s %s)" % (t[1], sx(t[2]), sx(t[3]))
    if k in ("U", "PRE", "POST"):
        return "(%s %s %s)" % (k, t[1], sx(t[2]))
    if k == "I":
        return "(I %s %s)" % (sx(t[1]), sx(t[2]))
    if k in ("M", "A"):
        return "(%s %s %s)" % (k, sx(t[1]), t[2])
    if k == "C":
        return "(C %s%s)" % (t[1], "".join(" " + sx(a) for a in t[2]))
    if k == "T":
        return "(T %s %s %s)" % (sx(t[1]), sx(t[2]), sx(t[3]))
    if k == "S":
        return "(S %s %s %s)" % (t[1], sx(t[2]), sx(t[3]))
    raise ValueError(t)


def children(t):
    k = t[0]
    if k in ("N", "V"):
        return []
    if k == "P":
        return [1]
    if k == "B":
        return [2, 3]
    if k in ("U", "PRE", "POST"):
        return [2]
    if k == "I":
        return [1, 2]
    if k in ("M", "A"):
        return [1]
    if k == "T":
        return [1, 2, 3]
    if k == "S":
        return [2, 3]
    return []


def positions(t, path=()):
    """all sub-tree positions (paths); call arguments are addressed as ('arg', i)"""
    yield path
    if t[0] == "C":
        for i, a in enumerate(t[2]):
            yield from positions(a, path + (("arg", i),))
    else:
        for c in children(t):
            yield from positions(t[c], path + (c,))


def get_at(t, path):
    for p in path:
        t = t[2][p[1]] if isinstance(p, tuple) else t[p]
    return t


def replace_at(t, path, fn):
    if not path:
        return fn(t)
    p = path[0]
    if isinstance(p, tuple):
        args = list(t[2])
        args[p[1]] = replace_at(args[p[1]], path[1:], fn)
        return (t[0], t[1], args)
    l = list(t)
    l[p] = replace_at(l[p], path[1:], fn)
    return tuple(l)


def typelike(t):
    """shapes that `( ... )` turns into a cast (finding C02-paren-ident-cast): x, x[1], x[i], x[1][j] ..."""
    if t[0] == "V":
        return True
    if t[0] == "I":
        return typelike(t[1]) and t[2][0] in ("N", "V")
    return False


def strip(t):
    k = t[0]
    if k == "P":
        return strip(t[1])
    if k == "C":
        return ("C", t[1], [strip(a) for a in t[2]])
    l = list(t)
    for c in children(t):
        l[c] = strip(t[c])
    return tuple(l)


def size(t):
    return 1 + sum(size(get_at(t, (c,))) for c in children(t)) + (sum(size(a) for a in t[2]) if t[0] == "C" else 0)


def is_target(t):
    t = strip(t)
    return t[0] in ("V", "I", "M", "A") or (t[0] == "U" and t[1] == "*")


def rand_tree(rng, depth, kinds, leaf_num=0.35):
    """random source tree; kinds: set of constructs allowed among
    bin un ptr incdec idx mem call tern asg par"""
    if depth <= 0 or rng.random() < 0.12:
        if rng.random() < leaf_num:
            return ("N", rng.choice([0, 1, 2, 3, 5, 7, 10]))
        return ("V", rng.choice(VARS))
    opts = [("bin", 10), ("un", 3), ("ptr", 1), ("incdec", 2), ("idx", 2), ("mem", 1), ("call", 1.5), ("tern", 2), ("asg", 1.5), ("par", 2)]
    opts = [(k, w) for k, w in opts if k in kinds]
    k = rng.choices([o[0] for o in opts], [o[1] for o in opts])[0]
    sub = lambda: rand_tree(rng, depth - 1, kinds, leaf_num)   # noqa: E731
    if k == "bin":
        return ("B", rng.choice(BINOPS), sub(), sub())
    if k == "un":
        return ("U", rng.choice(UNOPS), sub())
    if k == "ptr":
        return ("U", rng.choice(UNOPS_PTR), sub())
    if k == "incdec":
        return (rng.choice(["PRE", "POST"]), rng.choice(["++", "--"]), sub())
    if k == "idx":
        return ("I", sub(), sub())
    if k == "mem":
        return (rng.choice(["M", "A"]), sub(), rng.choice(["m", "n"]))
    if k == "call":
        return ("C", rng.choice(["f", "g"]), [sub() for _ in range(rng.choice([0, 1, 1, 2, 2, 3]))])
    if k == "tern":
        return ("T", sub(), sub(), sub())
    if k == "asg":
        for _ in range(8):
            l = rand_tree(rng, min(depth - 1, 2), kinds & {"idx", "mem", "ptr", "par"}, 0.0)
            if is_target(l):
                op = rng.choice(ASGOPS)
                if strip(l)[0] == "U" and op != "=":
                    op = "="
                return ("S", op, l, sub())
        return ("S", rng.choice(ASGOPS), ("V", rng.choice(VARS)), sub())
    if k == "par":
        return ("P", sub())
    raise ValueError(k)


def add_random_pars(rng, t, p):
    """wrap each sub-tree with probability p in an explicit pair of parentheses"""
    k = t[0]
    if k == "C":
        t = ("C", t[1], [add_random_pars(rng, a, p) for a in t[2]])
    else:
        l = list(t)
        for c in children(t):
            l[c] = add_random_pars(rng, t[c], p)
        t = tuple(l)
    return ("P", t) if rng.random() < p else t


def avoid_paren_cast(t):
    """avoidance predicate for C02-paren-ident-cast: remove parentheses directly around a type-like
    operand (the main stream must not trip the known defect)"""
    k = t[0]
    if k == "P":
        inner = avoid_paren_cast(t[1])
        return inner if typelike(inner) else ("P", inner)
    if k == "C":
        return ("C", t[1], [avoid_paren_cast(a) for a in t[2]])
    l = list(t)
    for c in children(t):
        l[c] = avoid_paren_cast(t[c])
    return tuple(l)


# ------------------------------------------------------------------ model side
def model_lines(sub, lines, table="pinned"):
    rc, o, e = common.sh([common.model_bin(PROP), sub, table], input=("\n".join(lines) + "\n").encode(), timeout=900)
    if rc != 0:
        raise RuntimeError("model %s failed rc=%d: %s" % (sub, rc, e[-800:]))
    out = o.split("\n")
    if out and out[-1] == "":
        out.pop()
    if len(out) != len(lines):
        raise RuntimeError("model %s: %d answers for %d lines" % (sub, len(out), len(lines)))
    return out


def model_tree(trees, table="pinned"):
    """-> list of dicts {text, wf, safe, nogtlp, rt, dump}"""
    res = []
    for l in model_lines("tree", [t if isinstance(t, str) else sx(t) for t in trees], table):
        if l.startswith("BAD"):
            raise RuntimeError("driver rejected a tree: " + l)
        text, flags, dump = l.split(" @@@ ")
        fl = dict(x.split("=") for x in flags.split())
        res.append({"text": text, "wf": fl["wf"] == "1", "safe": fl["safe"] == "1", "nogtlp": fl["nogtlp"] == "1",
                    "rt": fl["rt"] == "1", "dump": dump})
    return res


def model_parse(texts, ctx=None):
    return model_lines("parse", [t if ctx is None else t + " @@ " + ctx for t in texts])


def model_eval(cases):
    """cases: list of (values list for a..e, tree) -> list of int or None"""
    out = model_lines("eval", ["%s | %s" % (",".join(map(str, vs)), sx(t)) for vs, t in cases])
    return [None if x == "NONE" or x.startswith("BAD") else int(x) for x in out]


def model_full(trees):
    return model_lines("full", [sx(t) for t in trees])


# ------------------------------------------------------------------ implementation side
_ENUM = {}


def ast_names():
    """ASTNodeType numbering of the CURRENT tree (src/common/ast.h)"""
    key = common.REPO
    if key not in _ENUM:
        src = open(os.path.join(common.REPO, "src/common/ast.h"), encoding="utf-8", errors="replace").read()
        m = re.search(r"enum class ASTNodeType\s*\{(.*?)\};", src, re.S)
        body = re.sub(r"//[^\n]*", "", m.group(1))
        names = [x.strip().split("=")[0].strip() for x in body.split(",") if x.strip()]
        _ENUM[key] = {i: (n[4:] if n.startswith("AST_") else n) for i, n in enumerate(names)}
    return _ENUM[key]


def canon(dump):
    names = ast_names()
    return re.sub(r"\(n(\d+)", lambda m: "(" + names.get(int(m.group(1)), "n" + m.group(1)), dump)


def split_nodes(s):
    """top-level parenthesised nodes of a blank-separated list"""
    out, depth, start = [], 0, None
    for i, ch in enumerate(s):
        if ch == "(":
            if depth == 0:
                start = i
            depth += 1
        elif ch == ")":
            depth -= 1
            if depth == 0 and start is not None:
                out.append(s[start:i + 1])
                start = None
    return out


def impl_dump_program(impl_dir, exprs, timeout=20):
    """one program `void main(){ println(E1); ... }`; returns list of canonical dumps (None for all if the
    program does not parse) and the raw (rc, stderr)"""
    src = "void main() {\n" + "".join("  println(%s);\n" % e for e in exprs) + "}\n"
    rc, o, e = common.run_cb(impl_dir, src, timeout=timeout, env={"CB_VERIF_DUMP_AST": "1", "CB_VERIF_PARSE_ONLY": "1"})
    line = None
    for l in e.split("\n"):
        if l.startswith("(n"):
            line = l
    if rc != 0 or line is None:
        return None, rc, e
    m = re.search(r"name=main B\(n\d+ S\[", line)
    if not m:
        return None, rc, e
    stmts = split_nodes(line[m.end():])
    # the statement list ends where the bracket closes: take exactly len(exprs) nodes
    res = []
    for s in stmts[:len(exprs)]:
        mm = re.match(r"\(n\d+ A\[(.*)\]\)$", s)
        if not mm:
            res.append("STMT " + canon(s))
            continue
        args = split_nodes(mm.group(1))
        res.append(canon(args[0]) if len(args) == 1 else "ARGS " + " ".join(canon(a) for a in args))
    if len(res) != len(exprs):
        return None, rc, e
    return res, rc, e


def impl_dumps(impl_dir, texts, batchable, batch=100):
    """canonical AST dump of the real parser for every expression text; 'ERR' when the program is rejected
    (exit 1), 'CRASH <rc>' otherwise. Expressions flagged batchable are parsed many per program."""
    out = [None] * len(texts)
    idx_b = [i for i in range(len(texts)) if batchable[i]]
    idx_s = [i for i in range(len(texts)) if not batchable[i]]
    chunks = [idx_b[i:i + batch] for i in range(0, len(idx_b), batch)]

    def run_chunk(ch):
        r, rc, e = impl_dump_program(impl_dir, [texts[i] for i in ch])
        return ch, r

    singles = list(idx_s)
    for ch, r in common.pmap(run_chunk, chunks):
        if r is None:
            singles += ch
        else:
            for i, d in zip(ch, r):
                out[i] = d

    def run_one(i):
        r, rc, e = impl_dump_program(impl_dir, [texts[i]])
        if r is not None:
            return i, r[0]
        return i, ("ERR" if rc == 1 else "CRASH %s" % rc)

    for i, d in common.pmap(run_one, singles):
        out[i] = d
    return out


def model_verdict(line):
    """model answer -> what the real parser must do with println(<text>);"""
    if line.startswith("OK "):
        return line[3:]
    if line.startswith("PARTIAL "):
        rest = line.split(" @@ ", 1)[1] if " @@ " in line else ""
        return "SKIP" if rest.startswith(",") else "ERR"     # a top-level comma starts a second println argument
    if line == "ERR":
        return "ERR"
    return line     # FUEL / BAD: never equal to an implementation answer


# ------------------------------------------------------------------ generators
def pair_cases():
    """all ordered pairs of binary operators, both groupings, x {minimal, full, one redundant pair}"""
    a, b, c = ("V", "a"), ("V", "b"), ("V", "c")
    out = []
    for o1 in BINOPS:
        for o2 in BINOPS:
            for t in (("B", o2, ("B", o1, a, b), c), ("B", o1, a, ("B", o2, b, c))):
                out.append(("pair-min", t))
                out.append(("pair-full", None, t))     # filled through the model's `full`
                for path in ((), (2,), (3,)):
                    s = get_at(t, path)
                    if not typelike(s):
                        out.append(("pair-redundant", replace_at(t, path, lambda s_: ("P", s_))))
    return out


def nesting_cases():
    """unary / postfix / ternary / assignment nestings with every binary operator"""
    a, b, c, d, e = [("V", x) for x in VARS]
    out = []
    for o in BINOPS:
        for u in UNOPS + UNOPS_PTR:
            out += [("U", u, ("B", o, a, b)), ("B", o, ("U", u, a), b), ("B", o, a, ("U", u, b))]
        for pd in ("++", "--"):
            out += [("B", o, ("POST", pd, a), b), ("B", o, a, ("PRE", pd, b)), ("B", o, ("PRE", pd, a), ("POST", pd, b))]
        out += [("B", o, ("I", a, ("B", o, b, c)), d), ("I", ("B", o, a, b), c), ("B", o, ("M", a, "m"), ("A", b, "n")),
                ("B", o, ("C", "f", [("B", o, a, b), c]), d), ("C", "f", [("B", o, a, b)])]
        out += [("T", ("B", o, a, b), c, d), ("T", a, ("B", o, b, c), d), ("T", a, b, ("B", o, c, d)),
                ("B", o, ("T", a, b, c), d), ("B", o, a, ("T", b, c, d))]
        for s in ASGOPS:
            out += [("S", s, a, ("B", o, b, c)), ("B", o, ("S", s, a, b), c), ("B", o, a, ("S", s, b, c))]
    for u in UNOPS + UNOPS_PTR:
        for v in UNOPS + UNOPS_PTR:
            out.append(("U", u, ("U", v, a)))
        out += [("U", u, ("I", a, b)), ("I", ("U", u, a), b), ("U", u, ("POST", "++", a)), ("POST", "--", ("U", u, a)),
                ("U", u, ("PRE", "++", a)), ("PRE", "--", ("U", u, a)), ("U", u, ("M", a, "m")), ("M", ("U", u, a), "m"),
                ("U", u, ("C", "f", [a])), ("U", u, ("T", a, b, c)), ("T", ("U", u, a), b, c), ("U", u, ("S", "=", a, b))]
    out += [("T", a, ("T", b, c, d), e), ("T", a, b, ("T", c, d, e)), ("T", ("T", a, b, c), d, e),
            ("T", a, ("S", "=", b, c), d), ("T", a, b, ("S", "=", c, d)), ("T", ("S", "=", a, b), c, d),
            ("S", "=", a, ("T", b, c, d)), ("POST", "++", ("POST", "--", a)), ("PRE", "++", ("PRE", "--", a)),
            ("PRE", "++", ("POST", "++", a)), ("POST", "++", ("PRE", "++", a)), ("I", ("I", a, b), c), ("I", a, ("I", b, c)),
            ("M", ("M", a, "m"), "n"), ("A", ("M", a, "m"), "n"), ("I", ("M", a, "m"), b), ("M", ("I", a, b), "m"),
            ("C", "f", []), ("C", "f", [("C", "g", [a, b]), c]), ("I", ("C", "f", [a]), b), ("M", ("C", "f", [a]), "m")]
    for s1 in ASGOPS:
        for s2 in ASGOPS:
            out.append(("S", s1, a, ("S", s2, b, c)))
        out += [("S", s1, ("I", a, b), c), ("S", s1, ("M", a, "m"), c), ("S", s1, ("A", a, "m"), c),
                ("S", s1, ("I", a, ("B", "+", b, ("N", 1))), c), ("S", s1, ("I", ("I", a, b), c), d)]
    out += [("S", "=", ("U", "*", a), b), ("S", "=", ("P", ("M", a, "m")), b)]
    return out


def mutate_tokens(rng, toks):
    """one or two token-level edits (malformed stream)"""
    pool = BINOPS + ["!", "~", "++", "--", "(", ")", "[", "]", ".", "->", "?", ":", ",", "=", "+=", "a", "b", "1", "f"]
    toks = list(toks)
    for _ in range(rng.choice([1, 1, 2])):
        r = rng.random()
        if r < 0.35 and toks:
            del toks[rng.randrange(len(toks))]
        elif r < 0.7:
            toks.insert(rng.randrange(len(toks) + 1), rng.choice(pool))
        elif toks:
            toks[rng.randrange(len(toks))] = rng.choice(pool)
    return toks


_OUTSIDE = re.compile(r"(?:\.|->) [a-z_]\w* \(|\) \(")


def outside_fragment(text):
    """token shapes the model does not cover (method call, chained call / call through a parenthesised
    callee): the malformed stream skips them"""
    return bool(_OUTSIDE.search(text)) or text.strip() == ""
