"""C02 - operator precedence and associativity follow the specification table.

Theorems: coq/C02/Properties_C02.v (round trip parse(print e) = strip e for every expression tree,
any redundant parentheses, any level table; left/right associativity; generated ladder table =
the documented table since fix 4d0a4b7; the one law still refuted: `ident < ident > (`).
Tie: CB_VERIF_DUMP_AST of the real parser vs the extracted model parser on the same text
(all ordered operator pairs x {minimal, full, one redundant pair}, unary/postfix/ternary/assignment
nestings, random trees to depth 5-6, mutated token streams) + the metamorphic evaluation
println(e) vs println(full(e)) with operands found by brute force in the model.
"""
import itertools
import json
import os
import re
import sys

import common
from common import rng_for

sys.path.insert(0, os.path.join(common.VERIF, "translators"))
import ladder as ladder_tr  # noqa: E402

PROP = "C02"
LEVEL = "proof"
META = {
    "category": "proof",
    "technique": "Coq round-trip proof for a table-generic precedence-ladder parser (binary ladder, unary, postfix, ?:, "
                 "right-associative assignment, redundant parentheses) + ladder table re-extracted from the C++ on every run "
                 "+ differential AST comparison (CB_VERIF_DUMP_AST) and metamorphic evaluation against the real binary",
    "text": "Machine-checked theorems about a function-by-function Gallina model of expression_parser.cpp, "
            "RecursiveParser::parseTernary and parsePrimary: for EVERY expression tree over the documented operators (18 binary "
            "operators on any total level table, 5 prefix operators, ++/--, [] . -> calls, ?:, = and op=), with ANY placement of "
            "redundant parentheses, parsing the printed token stream returns the tree with the parentheses erased, provided the "
            "stream does not trip the generic-call look-ahead of parsePrimary (a computable predicate, implied by `no > directly before (`). "
            "Corollaries: binary operators group to the left, ?: and assignment to the right, higher levels bind tighter, "
            "fully parenthesised = minimally parenthesised. The level table of the C++ is re-extracted into Gen_LadderTable.v on "
            "every run; `ladder_is_spec` states that it IS the documented table (fix 4d0a4b7) and `ladder_conforms_to_spec` that printing "
            "by the documented table round-trips through the code's ladder; the only law still refuted is the generic-call look-ahead on "
            "`ident < ident > (`. The model is tied to the code on every run by comparing the AST dump of the real "
            "parser with the extracted model on the same text and by println(e) vs println(full(e)).",
    "note": "Trusted: Coq kernel (vm_compute for refutation witnesses and finite sweeps), no axioms (Print Assumptions: closed); "
            "extraction via ExtrOcamlBasic+ExtrOcamlString; hand-written model; the lexer is not modelled (tokens are printed "
            "blank-separated); identifiers are lower-case and name no type; await/try/checked/new/sizeof/casts to keyword types, "
            "method calls and chained calls are outside the modelled fragment; evaluation semantics only through the binary.",
}

VARS = ["a", "b", "c", "d", "e"]
# identifier spellings (the parser looks at the spelling: std::isupper in the sizeof and Name<T> heuristics; and at
# the declarations: the cast look-ahead).  The model's identifier classes are id_upper / id_type (Model.v).
LOWER_FANCY = ["x_1", "_y", "aB", "i18n", "int_x", "sizeofx", "newt", "n0", "cnt_t", "x_", "_Z", "__v"]   # no upper-case initial, no type
UPPER = ["N", "M", "LIMIT", "Nx", "B2", "X_1", "Zz", "T", "T1", "MAX_LEN"]              # upper-case initial, no type
TYPE_NAMES = ["Point", "node", "Len", "len_t", "Color", "mode", "Shape"]               # declared by PRELUDE (= ocaml/c02_driver.ml type_names)
KW_TYPES = ["int", "long", "short", "tiny", "float", "double", "bool", "string", "char", "void"]
# every harness program starts with these declarations: two structs, two typedefs, two enums, an interface
PRELUDE = ("struct Point { int x; int y; };\nstruct node { int v; };\ntypedef int Len;\ntypedef int len_t;\n"
           "enum Color { RED, GREEN };\nenum mode { OFF, ON };\ninterface Shape { int area(); };\n")
BINOPS = ["||", "&&", "|", "^", "&", "==", "!=", "<", "<=", ">", ">=", "<<", ">>", "+", "-", "*", "/", "%"]
UNOPS = ["!", "-", "~"]
UNOPS_PTR = ["&", "*"]
UNOPS_KW = ["await", "try", "checked"]      # keyword prefix operators of parseUnary (BNF unary_expression); AST level only
ASGOPS = ["=", "+=", "-=", "*=", "/=", "%=", "&=", "|=", "^=", "<<=", ">>="]
CTX = ") ;"


# ------------------------------------------------------------------ trees
def sx(t):
    k = t[0]
    if k == "N":
        return "(N %d)" % t[1]
    if k == "V":
        return "(V %s)" % t[1]
    if k == "P":
        return "(P %s)" % sx(t[1])
    if k == "B":
        return "(B %s %s %s)" % (t[1], sx(t[2]), sx(t[3]))
    if k in ("U", "PRE", "POST"):
        return "(%s %s %s)" % (k, t[1], sx(t[2]))
    if k == "I":
        return "(I %s %s)" % (sx(t[1]), sx(t[2]))
    if k in ("M", "A"):
        return "(%s %s %s)" % (k, sx(t[1]), t[2])
    if k == "C":
        return "(C %s%s)" % (t[1], "".join(" " + sx(a) for a in t[2]))
    if k == "MC":      # ("MC", "." | "->", receiver, member, [args])
        return "(MC %s %s %s%s)" % (t[1], sx(t[2]), t[3], "".join(" " + sx(a) for a in t[4]))
    if k == "K":       # ("K", "int**", operand): cast to a keyword type
        return "(K %s %s)" % (t[1], sx(t[2]))
    if k == "AL":      # ("AL", [elements]): array literal
        return "(AL%s)" % "".join(" " + sx(a) for a in t[1])
    if k == "T":
        return "(T %s %s %s)" % (sx(t[1]), sx(t[2]), sx(t[3]))
    if k == "S":
        return "(S %s %s %s)" % (t[1], sx(t[2]), sx(t[3]))
    raise ValueError(t)


def unsx(s):
    """inverse of sx (the driver's `full` answers in the same syntax)"""
    toks = s.replace("(", " ( ").replace(")", " ) ").split()
    pos = [0]

    def one():
        assert toks[pos[0]] == "("
        pos[0] += 1
        k = toks[pos[0]]; pos[0] += 1
        if k == "N":
            v = ("N", int(toks[pos[0]])); pos[0] += 1
        elif k == "V":
            v = ("V", toks[pos[0]]); pos[0] += 1
        elif k == "P":
            v = ("P", one())
        elif k == "B":
            o = toks[pos[0]]; pos[0] += 1
            v = ("B", o, one(), one())
        elif k in ("U", "PRE", "POST"):
            o = toks[pos[0]]; pos[0] += 1
            v = (k, o, one())
        elif k == "I":
            v = ("I", one(), one())
        elif k in ("M", "A"):
            a = one()
            v = (k, a, toks[pos[0]]); pos[0] += 1
        elif k == "C":
            f = toks[pos[0]]; pos[0] += 1
            args = []
            while toks[pos[0]] != ")":
                args.append(one())
            v = ("C", f, args)
        elif k == "MC":
            o = toks[pos[0]]; pos[0] += 1
            a = one()
            m = toks[pos[0]]; pos[0] += 1
            args = []
            while toks[pos[0]] != ")":
                args.append(one())
            v = ("MC", o, a, m, args)
        elif k == "K":
            ty = toks[pos[0]]; pos[0] += 1
            v = ("K", ty, one())
        elif k == "AL":
            args = []
            while toks[pos[0]] != ")":
                args.append(one())
            v = ("AL", args)
        elif k == "T":
            v = ("T", one(), one(), one())
        elif k == "S":
            o = toks[pos[0]]; pos[0] += 1
            v = ("S", o, one(), one())
        else:
            raise ValueError(k)
        assert toks[pos[0]] == ")"
        pos[0] += 1
        return v
    return one()


def children(t):
    k = t[0]
    if k in ("N", "V"):
        return []
    if k == "P":
        return [1]
    if k == "B":
        return [2, 3]
    if k in ("U", "PRE", "POST", "K", "MC"):
        return [2]
    if k == "I":
        return [1, 2]
    if k in ("M", "A"):
        return [1]
    if k == "T":
        return [1, 2, 3]
    if k == "S":
        return [2, 3]
    return []


ARGS_AT = {"C": 2, "MC": 4, "AL": 1}      # index of the argument / element list of a node


def args_of(t):
    return t[ARGS_AT[t[0]]] if t[0] in ARGS_AT else []


def with_args(t, args):
    l = list(t)
    l[ARGS_AT[t[0]]] = list(args)
    return tuple(l)


def positions(t, path=()):
    """all sub-tree positions (paths); call arguments are addressed as ('arg', i)"""
    yield path
    for c in children(t):
        yield from positions(t[c], path + (c,))
    for i, a in enumerate(args_of(t)):
        yield from positions(a, path + (("arg", i),))


def get_at(t, path):
    for p in path:
        t = args_of(t)[p[1]] if isinstance(p, tuple) else t[p]
    return t


def replace_at(t, path, fn):
    if not path:
        return fn(t)
    p = path[0]
    if isinstance(p, tuple):
        args = list(args_of(t))
        args[p[1]] = replace_at(args[p[1]], path[1:], fn)
        return with_args(t, args)
    l = list(t)
    l[p] = replace_at(l[p], path[1:], fn)
    return tuple(l)


def strip(t):
    k = t[0]
    if k == "P":
        return strip(t[1])
    l = list(t)
    for c in children(t):
        l[c] = strip(t[c])
    t = tuple(l)
    if k in ARGS_AT:
        t = with_args(t, [strip(a) for a in args_of(t)])
    return t


def size(t):
    return 1 + sum(size(t[c]) for c in children(t)) + sum(size(a) for a in args_of(t))


def idents(t):
    """variable names of a tree, in order of first occurrence"""
    out = []
    for p in positions(t):
        n = get_at(t, p)
        if n[0] == "V" and n[1] not in out:
            out.append(n[1])
    return out


def is_target(t):
    t = strip(t)
    return t[0] in ("V", "I", "M", "A") or (t[0] == "U" and t[1] == "*")


def rand_ident(rng, fancy):
    """an identifier; fancy = probability of a spelling outside a..e (other lower-case shapes, upper-case
    initial, name of a declared type)"""
    if rng.random() >= fancy:
        return rng.choice(VARS)
    r = rng.random()
    return rng.choice(LOWER_FANCY if r < 0.3 else UPPER if r < 0.75 else TYPE_NAMES)


def rand_tree(rng, depth, kinds, leaf_num=0.35, fancy=0.0):
    """random source tree; kinds: set of constructs allowed among
    bin un ptr incdec idx mem call mcall cast sizeof tern asg par"""
    if depth <= 0 or rng.random() < 0.12:
        if rng.random() < leaf_num:
            return ("N", rng.choice([0, 1, 2, 3, 5, 7, 10]))
        return ("V", rand_ident(rng, fancy))
    opts = [("bin", 10), ("un", 3), ("ptr", 1), ("incdec", 2), ("idx", 2), ("mem", 1), ("call", 1.5), ("mcall", 1), ("cast", 1),
            ("sizeof", 0.4), ("arr", 0.5), ("tern", 2), ("asg", 1.5), ("par", 2)]
    opts = [(k, w) for k, w in opts if k in kinds]
    k = rng.choices([o[0] for o in opts], [o[1] for o in opts])[0]
    sub = lambda: rand_tree(rng, depth - 1, kinds, leaf_num, fancy)   # noqa: E731
    if k == "bin":
        return ("B", rng.choice(BINOPS), sub(), sub())
    if k == "un":
        return ("U", rng.choice(UNOPS), sub())
    if k == "ptr":
        return ("U", rng.choice(UNOPS_PTR + UNOPS_KW), sub())
    if k == "incdec":
        return (rng.choice(["PRE", "POST"]), rng.choice(["++", "--"]), sub())
    if k == "idx":
        return ("I", sub(), sub())
    if k == "mem":
        return (rng.choice(["M", "A"]), sub(), rng.choice(["m", "n"]))
    if k == "call":
        return ("C", rng.choice(["f", "g"] + (["F", "Gx"] if rng.random() < fancy else [])), [sub() for _ in range(rng.choice([0, 1, 1, 2, 2, 3]))])
    if k == "mcall":
        return ("MC", rng.choice([".", "->"]), sub(), rng.choice(["m", "n", "get", "Mx"]), [sub() for _ in range(rng.choice([0, 1, 1, 2]))])
    if k == "cast":
        return ("K", rng.choice(["int", "int", "long", "int*", "char", "double", "bool", "void*", "short**", "tiny", "float", "string"]), sub())
    if k == "sizeof":
        return ("C", "sizeof", [sub()])
    if k == "arr":
        return ("AL", [sub() for _ in range(rng.choice([0, 1, 2, 2, 3]))])
    if k == "tern":
        return ("T", sub(), sub(), sub())
    if k == "asg":
        for _ in range(8):
            l = rand_tree(rng, min(depth - 1, 2), kinds & {"idx", "mem", "ptr", "par"}, 0.0, fancy)
            if is_target(l):
                op = rng.choice(ASGOPS)
                if strip(l)[0] == "U" and op != "=":
                    op = "="
                return ("S", op, l, sub())
        return ("S", rng.choice(ASGOPS), ("V", rand_ident(rng, fancy)), sub())
    if k == "par":
        return ("P", sub())
    raise ValueError(k)


def add_random_pars(rng, t, p):
    """wrap each sub-tree with probability p in an explicit pair of parentheses"""
    l = list(t)
    for c in children(t):
        l[c] = add_random_pars(rng, t[c], p)
    t = tuple(l)
    if t[0] in ARGS_AT:
        t = with_args(t, [add_random_pars(rng, a, p) for a in args_of(t)])
    return ("P", t) if rng.random() < p else t


# ------------------------------------------------------------------ model side
def model_lines(sub, lines, table="pinned"):
    rc, o, e = common.sh([common.model_bin(PROP), sub, table], input=("\n".join(lines) + "\n").encode(), timeout=900)
    if rc != 0:
        raise RuntimeError("model %s failed rc=%d: %s" % (sub, rc, e[-800:]))
    out = o.split("\n")
    if out and out[-1] == "":
        out.pop()
    if len(out) != len(lines):
        raise RuntimeError("model %s: %d answers for %d lines" % (sub, len(out), len(lines)))
    return out


def model_tree(trees, table="pinned"):
    """-> list of dicts {text, wf, safe, nogtlp, rt, dump}"""
    res = []
    for l in model_lines("tree", [sx(t) for t in trees], table):
        if l.startswith("BAD"):
            raise RuntimeError("driver rejected a tree: " + l)
        text, flags, dump = l.split(" @@@ ")
        fl = dict(x.split("=") for x in flags.split())
        res.append({"text": text, "wf": fl["wf"] == "1", "safe": fl["safe"] == "1", "synsafe": fl["synsafe"] == "1",
                    "rt": fl["rt"] == "1", "dump": dump})
    return res


def model_parse(texts, ctx=None):
    return model_lines("parse", [t if ctx is None else t + " @@ " + ctx for t in texts])


def as_env(vs):
    """operand values: a dict name -> int, or (legacy) a list for a..e"""
    return vs if isinstance(vs, dict) else dict(zip(VARS, vs))


def model_eval(cases):
    """cases: list of (values: dict name -> int (or list for a..e), tree) -> list of int or None"""
    out = model_lines("eval", ["%s | %s" % (",".join("%s=%d" % kv for kv in as_env(vs).items()), sx(t)) for vs, t in cases])
    return [None if x == "NONE" or x.startswith("BAD") else int(x) for x in out]


def model_full(trees):
    """the model's `full` (every operand in parentheses), as trees"""
    return [unsx(l) for l in model_lines("full", [sx(t) for t in trees])]


# ------------------------------------------------------------------ implementation side
_ENUM = {}


def ast_names():
    """ASTNodeType numbering of the CURRENT tree (src/common/ast.h)"""
    key = common.REPO
    if key not in _ENUM:
        src = open(os.path.join(common.REPO, "src/common/ast.h"), encoding="utf-8", errors="replace").read()
        m = re.search(r"enum class ASTNodeType\s*\{(.*?)\};", src, re.S)
        body = re.sub(r"//[^\n]*", "", m.group(1))
        names = [x.strip().split("=")[0].strip() for x in body.split(",") if x.strip()]
        _ENUM[key] = {i: (n[4:] if n.startswith("AST_") else n) for i, n in enumerate(names)}
    return _ENUM[key]


def canon(dump):
    names = ast_names()
    return re.sub(r"\(n(\d+)", lambda m: "(" + names.get(int(m.group(1)), "n" + m.group(1)), dump)


def split_nodes(s):
    """top-level parenthesised nodes of a blank-separated list"""
    out, depth, start = [], 0, None
    for i, ch in enumerate(s):
        if ch == "(":
            if depth == 0:
                start = i
            depth += 1
        elif ch == ")":
            depth -= 1
            if depth == 0 and start is not None:
                out.append(s[start:i + 1])
                start = None
    return out


def impl_dump_program(impl_dir, exprs, timeout=20):
    """one program `void main(){ println(E1); ... }`; returns list of canonical dumps (None for all if the
    program does not parse) and the raw (rc, stderr)"""
    src = PRELUDE + "void main() {\n" + "".join("  println(%s);\n" % e for e in exprs) + "}\n"
    rc, o, e = common.run_cb(impl_dir, src, timeout=timeout, env={"CB_VERIF_DUMP_AST": "1", "CB_VERIF_PARSE_ONLY": "1"})
    line = None
    for l in e.split("\n"):
        if l.startswith("(n"):
            line = l
    if rc != 0 or line is None:
        return None, rc, e
    m = re.search(r"name=main B\(n\d+ S\[", line)
    if not m:
        return None, rc, e
    stmts = split_nodes(line[m.end():])
    # the statement list ends where the bracket closes: take exactly len(exprs) nodes
    res = []
    for s in stmts[:len(exprs)]:
        mm = re.match(r"\(n\d+ A\[(.*)\]\)$", s)
        if not mm:
            res.append("STMT " + canon(s))
            continue
        args = split_nodes(mm.group(1))
        res.append(canon(args[0]) if len(args) == 1 else "ARGS " + " ".join(canon(a) for a in args))
    if len(res) != len(exprs):
        return None, rc, e
    return res, rc, e


def impl_dumps(impl_dir, texts, batchable, batch=100):
    """canonical AST dump of the real parser for every expression text; 'ERR' when the program is rejected
    (exit 1), 'CRASH <rc>' otherwise. Expressions flagged batchable are parsed many per program."""
    out = [None] * len(texts)
    idx_b = [i for i in range(len(texts)) if batchable[i]]
    idx_s = [i for i in range(len(texts)) if not batchable[i]]
    chunks = [idx_b[i:i + batch] for i in range(0, len(idx_b), batch)]

    def run_chunk(ch):
        r, rc, e = impl_dump_program(impl_dir, [texts[i] for i in ch])
        return ch, r

    singles = list(idx_s)
    for ch, r in common.pmap(run_chunk, chunks):
        if r is None:
            singles += ch
        else:
            for i, d in zip(ch, r):
                out[i] = d

    def run_one(i):
        r, rc, e = impl_dump_program(impl_dir, [texts[i]])
        if r is not None:
            return i, r[0]
        return i, ("ERR" if rc == 1 else "CRASH %s" % rc)

    for i, d in common.pmap(run_one, singles):
        out[i] = d
    return out


def model_verdict(line):
    """model answer -> what the real parser must do with println(<text>);"""
    if line.startswith("OK "):
        return line[3:]
    if line.startswith("PARTIAL "):
        rest = line.split(" @@ ", 1)[1] if " @@ " in line else ""
        return "SKIP" if rest.startswith(",") else "ERR"     # a top-level comma starts a second println argument
    if line == "ERR":
        return "ERR"
    return line     # FUEL / BAD: never equal to an implementation answer


# ------------------------------------------------------------------ generators
def pair_cases():
    """all ordered pairs of binary operators, both groupings, x {minimal, full, one redundant pair}"""
    a, b, c = ("V", "a"), ("V", "b"), ("V", "c")
    out = []
    for o1 in BINOPS:
        for o2 in BINOPS:
            for t in (("B", o2, ("B", o1, a, b), c), ("B", o1, a, ("B", o2, b, c))):
                out.append(("pair-min", t))
                out.append(("pair-full", None, t))     # filled through the model's `full`
                for path in positions(t):     # root, both operands, every identifier (parenthesised identifiers
                    out.append(("pair-redundant", replace_at(t, path, lambda s_: ("P", s_))))   # are fine since 34a2124)
    return out


def nesting_cases():
    """unary / postfix / ternary / assignment nestings with every binary operator"""
    a, b, c, d, e = [("V", x) for x in VARS]
    out = []
    for o in BINOPS:
        for u in UNOPS + UNOPS_PTR + UNOPS_KW:
            out += [("U", u, ("B", o, a, b)), ("B", o, ("U", u, a), b), ("B", o, a, ("U", u, b))]
        for pd in ("++", "--"):
            out += [("B", o, ("POST", pd, a), b), ("B", o, a, ("PRE", pd, b)), ("B", o, ("PRE", pd, a), ("POST", pd, b))]
        out += [("B", o, ("I", a, ("B", o, b, c)), d), ("I", ("B", o, a, b), c), ("B", o, ("M", a, "m"), ("A", b, "n")),
                ("B", o, ("C", "f", [("B", o, a, b), c]), d), ("C", "f", [("B", o, a, b)])]
        out += [("T", ("B", o, a, b), c, d), ("T", a, ("B", o, b, c), d), ("T", a, b, ("B", o, c, d)),
                ("B", o, ("T", a, b, c), d), ("B", o, a, ("T", b, c, d))]
        for s in ASGOPS:
            out += [("S", s, a, ("B", o, b, c)), ("B", o, ("S", s, a, b), c), ("B", o, a, ("S", s, b, c))]
    for u in UNOPS + UNOPS_PTR + UNOPS_KW:
        for v in UNOPS + UNOPS_PTR + UNOPS_KW:
            out.append(("U", u, ("U", v, a)))
        out += [("U", u, ("K", "int", a)), ("K", "int", ("U", u, a)), ("U", u, ("MC", ".", a, "get", [b])), ("U", u, ("AL", [a, b])),
                ("U", u, ("C", "sizeof", [a])), ("B", "*", ("K", "long", ("U", u, a)), b)]
        out += [("U", u, ("I", a, b)), ("I", ("U", u, a), b), ("U", u, ("POST", "++", a)), ("POST", "--", ("U", u, a)),
                ("U", u, ("PRE", "++", a)), ("PRE", "--", ("U", u, a)), ("U", u, ("M", a, "m")), ("M", ("U", u, a), "m"),
                ("U", u, ("C", "f", [a])), ("U", u, ("T", a, b, c)), ("T", ("U", u, a), b, c), ("U", u, ("S", "=", a, b))]
    out += [("T", a, ("T", b, c, d), e), ("T", a, b, ("T", c, d, e)), ("T", ("T", a, b, c), d, e),
            ("T", a, ("S", "=", b, c), d), ("T", a, b, ("S", "=", c, d)), ("T", ("S", "=", a, b), c, d),
            ("S", "=", a, ("T", b, c, d)), ("POST", "++", ("POST", "--", a)), ("PRE", "++", ("PRE", "--", a)),
            ("PRE", "++", ("POST", "++", a)), ("POST", "++", ("PRE", "++", a)), ("I", ("I", a, b), c), ("I", a, ("I", b, c)),
            ("M", ("M", a, "m"), "n"), ("A", ("M", a, "m"), "n"), ("I", ("M", a, "m"), b), ("M", ("I", a, b), "m"),
            ("C", "f", []), ("C", "f", [("C", "g", [a, b]), c]), ("I", ("C", "f", [a]), b), ("M", ("C", "f", [a]), "m")]
    for s1 in ASGOPS:
        for s2 in ASGOPS:
            out.append(("S", s1, a, ("S", s2, b, c)))
        out += [("S", s1, ("I", a, b), c), ("S", s1, ("M", a, "m"), c), ("S", s1, ("A", a, "m"), c),
                ("S", s1, ("I", a, ("B", "+", b, ("N", 1))), c), ("S", s1, ("I", ("I", a, b), c), d)]
    out += [("S", "=", ("U", "*", a), b), ("S", "=", ("P", ("M", a, "m")), b)]
    return out


def lookahead_cases():
    """boundary of the generic-call look-ahead (fix 9bd33cd): x < M > (R) for middles M that do / do not
    contain a token at which the scan gives up; the model mirrors the scan, so the ASTs must agree for all
    of them, and the round trip must hold exactly for the ones the model calls safe"""
    a, b, c, d = [("V", x) for x in VARS[:4]]
    mids = [b, ("N", 1), ("B", "*", b, c), ("B", "+", b, ("N", 1)), ("B", "-", b, c), ("U", "-", b), ("U", "*", b), ("U", "!", b),
            ("I", b, ("N", 1)), ("I", b, c), ("C", "g", [b]), ("P", b), ("B", "<<", b, ("N", 1)), ("B", "%", b, c), ("M", b, "m"),
            ("B", "*", ("U", "*", b), c), ("POST", "++", b)]
    rights = [("P", c), ("B", "&", c, d), ("P", ("B", "+", c, d)), ("B", "&&", c, d), ("T", c, d, a)]
    out = []
    for m in mids:
        for r in rights:
            out.append(("B", ">", ("B", "<", a, m), r))
            out.append(("B", ">=", ("B", "<", a, m), r))
            out.append(("B", ">", ("B", "<", ("M", a, "m"), m), r))
            out.append(("B", "&&", ("B", "<", a, m), ("B", ">", b, r)))
            out.append(("C", "f", [("B", "<", a, m), ("B", ">", b, r)]))
    # the Name<T> heuristic (C02-upper-ident-lt): the same shapes with an upper-case left operand - the skip over
    # `< ... >` accepts identifiers , * [ ] numbers and keyword types only; model and parser must agree on all of them
    big = ("V", "N")
    for m in mids:
        for r in rights[:3]:
            out.append(("B", ">", ("B", "<", big, m), r))
            out.append(("B", "-", ("B", ">", ("B", "<", big, m), ("U", "-", ("N", 1))), c))
            out.append(("C", "f", [("B", "<", big, m), ("B", ">", b, r)]))
    return out


IDENT_SPECS = ["a", "x_1", "_y", "sizeofx", "cnt_t", "_Z", "N", "LIMIT", "B2", "Zz", "T", "Point", "len_t", "Color", "mode"]


def ident_cases():
    """the blind spot seeded change C02-1 revealed: an identifier of EVERY spelling class (plain, other lower-case
    shapes, upper-case initial, name of a declared struct / typedef / enum), bare and alone in one or two pairs of
    redundant parentheses, in EVERY operand position: both sides of all 18 binary operators, under the 5 prefix
    operators and ++/--, as head / index / argument / receiver of every postfix form, in sizeof, under a cast, in
    all three ?: positions, on both sides of = and op=, and before every token that can also start a unary
    expression"""
    x, y = ("V", "b"), ("V", "c")
    out = []
    for s_ in IDENT_SPECS:
        v = ("V", s_)
        for depth, w in enumerate((v, ("P", v), ("P", ("P", v)))):
            for o in BINOPS:
                out += [("B", o, w, x), ("B", o, x, w)]
                if depth == 1:
                    out += [("B", o, w, ("U", "-", x)), ("B", o, ("N", 100), ("B", o, w, ("N", 1)))]
            for u in UNOPS + UNOPS_PTR:
                out += [("U", u, w), ("B", "-", ("U", u, w), ("N", 1))]
            out += [("POST", "++", w), ("PRE", "--", w), ("B", "-", ("POST", "--", w), x), ("I", w, x), ("I", x, w),
                    ("M", w, "m"), ("A", w, "n"), ("MC", ".", w, "get", [x]), ("MC", "->", x, "get", [w]),
                    ("C", "f", [w]), ("C", "f", [w, x]), ("C", "f", [x, w]), ("C", "sizeof", [w]),
                    ("B", "*", ("C", "sizeof", [w]), ("N", 2)),
                    ("T", w, x, y), ("T", x, w, y), ("T", x, y, w),
                    ("S", "=", w, x), ("S", "+=", w, x), ("S", "=", x, w), ("S", "-=", x, w),
                    ("K", "int", w), ("B", "*", ("K", "int", w), x), ("K", "long*", ("U", "&", w)),
                    ("B", "-", ("B", "*", ("N", 3), w), ("B", "*", ("N", 2), ("N", 4)))]
    return out


LIT_SPELL = {0: ["false", "0.0", "00", "0e0"], 1: ["true", "1.0", "1.5", "01"], 2: ["2.0", "2.5f", "02"], 3: ["3e0", "3.9"],
             5: ["5.0f", "05"], 7: ["7.25", "07"], 10: ["10.0", "1e1", "010", "10f"]}


def respell_literals(rng, text):
    """the same expression with some integer literals written as bool / float / zero-padded literals whose AST
    node carries the same int value (the lexer and the NUMBER branch of parsePrimary, not modelled: the model reads
    the plain decimal text)"""
    toks = text.split()
    for i, t in enumerate(toks):
        if t.isdigit() and int(t) in LIT_SPELL and rng.random() < 0.6 and (i == 0 or toks[i - 1] not in (".", "->")):
            toks[i] = rng.choice(LIT_SPELL[int(t)])
    return " ".join(toks)


_HZ_UPPER = re.compile(r"(?:^| )(?<!\. )(?<!-> )[A-Z]\w* <(?: |$)")
_HZ_SIZEOF = re.compile(r"(?:^| )sizeof \( [A-Z]")
_HZ_TYPE = re.compile(r"(?:^|[^\w)\]] )\( (?:%s) [*&)\[]" % "|".join(TYPE_NAMES))


def hazard_kind(text):
    """which of the four known heuristics of parsePrimary an unsafe text trips (for the avoidance counters; the
    decision itself is the model's exact safeb)"""
    if _HZ_UPPER.search(text):
        return "upper-ident-lt"
    if _HZ_SIZEOF.search(text):
        return "sizeof-upper-ident"
    if _HZ_TYPE.search(text):
        return "type-named-variable-cast"
    return "generic-lookahead"


def mutate_tokens(rng, toks):
    """one or two token-level edits (malformed stream)"""
    pool = BINOPS + ["!", "~", "++", "--", "(", ")", "[", "]", ".", "->", "?", ":", ",", "=", "+=", "a", "b", "1", "f",
                     "N", "M", "Point", "len_t", "x_1", "int", "long", "sizeof", "(", ")", "<", ">"]
    toks = list(toks)
    for _ in range(rng.choice([1, 1, 2])):
        r = rng.random()
        if r < 0.25 and toks:
            del toks[rng.randrange(len(toks))]
        elif r < 0.45:
            toks.insert(rng.randrange(len(toks) + 1), rng.choice(pool))
        elif r < 0.6 and toks:
            toks[rng.randrange(len(toks))] = rng.choice(pool)
        elif r < 0.8 and toks:
            ops = [i for i, t in enumerate(toks) if t in BINOPS or t in ASGOPS or t in ("?", ":")]
            if ops:
                toks[rng.choice(ops)] = rng.choice(BINOPS + ASGOPS + ["?", ":"])
        elif len(toks) >= 2:
            i = rng.randrange(len(toks) - 1)
            toks[i], toks[i + 1] = toks[i + 1], toks[i]
    return toks


_OUTSIDE = re.compile(r"\) \(|\( (?:%s) \(" % "|".join(KW_TYPES + TYPE_NAMES))


def outside_fragment(text):
    """token shapes the model does not cover: a chained call / a call through a parenthesised callee `) (`, and a
    function type in a cast `( int (`; the malformed stream skips them (method calls are modelled)"""
    return bool(_OUTSIDE.search(text)) or text.strip() == ""


_OPCH = set("+-*/%<>=!&|^~?:.")


def compact(text):
    """the same token sequence with blanks only where two neighbours could fuse into another token"""
    toks = text.split()
    out = []
    for i, t in enumerate(toks):
        if i:
            p = toks[i - 1]
            glue_ops = p[-1] in _OPCH and t[0] in _OPCH
            glue_words = (p[-1].isalnum() or p[-1] == "_") and (t[0].isalnum() or t[0] == "_")
            num_dot = (p[-1].isdigit() and t[0] == ".") or (p[-1] == "." and t[0].isdigit())
            if glue_ops or glue_words or num_dot:
                out.append(" ")
        out.append(t)
    return "".join(out)


def triple_cases():
    """thorough: all operator triples in the five tree shapes over four operands"""
    a, b, c, d = [("V", x) for x in VARS[:4]]
    for o1 in BINOPS:
        for o2 in BINOPS:
            for o3 in BINOPS:
                yield ("B", o3, ("B", o2, ("B", o1, a, b), c), d)
                yield ("B", o3, ("B", o1, a, ("B", o2, b, c)), d)
                yield ("B", o2, ("B", o1, a, b), ("B", o3, c, d))
                yield ("B", o1, a, ("B", o3, ("B", o2, b, c), d))
                yield ("B", o1, a, ("B", o2, b, ("B", o3, c, d)))


# ------------------------------------------------------------------ evaluation (the property's own observable)
FUNS = PRELUDE + "int f(int x, int y) { return x * 3 + y; }\nint g(int x) { return 7 - x; }\nint F(int x) { return x * 2 + 1; }\nint idx_(int x) { return x & 3; }\n"
EVAL_KINDS = {"bin", "un", "tern", "par"}
VALS = [0, 1, 2, 3, 5, 7, -1, -2, -4, 8]


def rand_eval_tree(rng, depth, calls=True, fancy=0.0):
    if depth <= 0 or rng.random() < 0.1:
        if rng.random() < 0.3:
            return ("N", rng.choice([0, 1, 2, 3, 5, 7, 10]))
        return ("V", rand_ident(rng, fancy))
    r = rng.random()
    sub = lambda: rand_eval_tree(rng, depth - 1, calls, fancy)   # noqa: E731
    if r < 0.60:
        return ("B", rng.choice(BINOPS), sub(), sub())
    if r < 0.75:
        return ("U", rng.choice(UNOPS), sub())
    if r < 0.86:
        return ("T", sub(), sub(), sub())
    if calls and r < 0.92:
        return rng.choice([("C", "g", [sub()]), ("C", "f", [sub(), sub()]), ("C", "F", [sub()])])
    if calls and r < 0.955:
        return ("K", "int", sub())
    if calls and r < 0.97:
        # the operand has type int (sizeof of a comparison / logical result is 1: not what the model's oracle knows)
        leaf = lambda: ("V", rand_ident(rng, fancy)) if rng.random() < 0.7 else ("N", rng.choice([1, 2, 3]))   # noqa: E731
        return ("C", "sizeof", [("B", rng.choice(["+", "-", "*", "&", "|", "^"]), leaf(), leaf()) if rng.random() < 0.6 else ("V", rand_ident(rng, fancy))])
    return ("P", sub())


def ternary_typed_branch(t):
    """an evaluator quirk outside C02 (the three texts of a case have the same AST and print the same): a ?: whose
    selected branch is directly a cast or sizeof node evaluates to 0; for such trees the model value is no oracle"""
    for s_ in subtrees(strip(t)):
        if s_[0] == "T" and any(b[0] == "K" or (b[0] == "C" and b[1] == "sizeof") for b in (s_[2], s_[3])):
            return True
    return False


def ident_eval_cases():
    """value level of ident_cases: (s) o x, x o (s), (s) o - x, 100 o (s) o 1, 3 * (s) - 2 * 4 and the prefix / call /
    cast / ?: positions for every identifier spelling; the given text keeps the redundant parentheses"""
    x, y = ("V", "b"), ("V", "c")
    out = []
    for s_ in IDENT_SPECS:
        w = ("P", ("V", s_))
        for o in BINOPS:
            out += [("B", o, w, x), ("B", o, x, w), ("B", o, w, ("U", "-", x)), ("B", o, ("N", 100), ("B", o, w, ("N", 1))),
                    ("B", o, ("P", w), ("N", 1))]
        for u in UNOPS:
            out += [("U", u, w), ("B", "-", ("U", u, w), ("N", 1))]
        out += [("C", "g", [w]), ("C", "f", [w, x]), ("C", "f", [x, w]), ("B", "-", ("C", "sizeof", [w]), ("N", 1)),
                ("T", w, x, y), ("T", x, w, y), ("T", x, y, w), ("K", "int", w), ("B", "*", ("K", "int", w), x),
                ("B", "-", ("B", "*", ("N", 3), w), ("B", "*", ("N", 2), ("N", 4))), ("B", "+", ("B", "-", w, ("N", 1)), x)]
    return out


def find_values(rng, trees, alts=(), tries=40, vals=None):
    """operand values for the identifiers of the trees (brute force in the model) under which every tree in
    `trees` is defined and, if possible, differs in value from every tree in `alts` (the other groupings)"""
    names = list(VARS)
    for t in list(trees) + list(alts):
        names += [n for n in idents(t) if n not in names]
    cands = [{n: rng.choice(vals or VALS) for n in names} for _ in range(tries)]
    cases = [(vs, t) for vs in cands for t in list(trees) + list(alts)]
    ev = model_eval(cases)
    n = len(trees) + len(alts)
    best = None
    for k, vs in enumerate(cands):
        row = ev[k * n:(k + 1) * n]
        if any(v is None for v in row[:len(trees)]):
            continue
        disc = sum(1 for x in row[len(trees):] if x is not None and x != row[0])
        if best is None or disc > best[0]:
            best = (disc, vs, row[0])
        if alts and disc == len(alts):
            break
    return best     # (number of alternatives told apart, values, expected value) or None


def decls(vs):
    return "".join("int %s = %d; " % kv for kv in as_env(vs).items())


def eval_program(cases, wrap=None):
    """cases: list of (values, [expr text, ...]); prints every text of a case under its values (each case in a
    block of its own that declares the operands: identifiers of any spelling, also names of declared types).
    wrap: how the value is observed: None = println(E); 'init' = int r = E; println(r);
    'if' = if (E) println(1) else println(0); 'arg' = println(g(E)); 'index' = println(vv[idx_(E)]) with idx_(x) = x & 3"""
    lines = [FUNS, "void main() {\n"]
    for vs, texts in cases:
        lines.append("  { " + decls(vs) + "\n")
        if wrap == "index":
            lines.append("    int[4] vv = [11, 22, 33, 44];\n")
        for t in texts:
            if wrap is None:
                lines.append("    println(%s);\n" % t)
            elif wrap == "init":
                lines.append("    { int r_ = %s; println(r_); }\n" % t)
            elif wrap == "if":
                lines.append("    if (%s) { println(1); } else { println(0); }\n" % t)
            elif wrap == "arg":
                lines.append("    println(g(%s));\n" % t)
            elif wrap == "index":
                lines.append("    println(vv[idx_(%s)]);\n" % t)
        lines.append("  }\n")
    lines.append("}\n")
    return "".join(lines)


def run_eval_cases(impl_dir, cases, chunk=25, wrap=None):
    """-> per case: list of output lines (one per text) or ('ERR', rc, stderr)"""
    out = [None] * len(cases)
    chunks = [list(range(i, min(i + chunk, len(cases)))) for i in range(0, len(cases), chunk)]

    def run_chunk(ch):
        rc, o, e = common.run_cb(impl_dir, eval_program([cases[i] for i in ch], wrap))
        return ch, rc, o, e

    retry = []
    for ch, rc, o, e in common.pmap(run_chunk, chunks):
        ls = o.split("\n")[:-1] if o.endswith("\n") else o.split("\n")
        need = sum(len(cases[i][1]) for i in ch)
        if rc == 0 and len(ls) == need:
            k = 0
            for i in ch:
                n = len(cases[i][1])
                out[i] = ls[k:k + n]
                k += n
        else:
            retry += ch

    def run_one(i):
        rc, o, e = common.run_cb(impl_dir, eval_program([cases[i]], wrap))
        ls = o.split("\n")[:-1] if o.endswith("\n") else o.split("\n")
        if rc == 0 and len(ls) == len(cases[i][1]):
            return i, ls
        return i, ("ERR", rc, (o[-200:] + " | " + e[-300:]))

    for i, r in common.pmap(run_one, retry):
        out[i] = r
    return out


def effect_program(cases):
    """cases: list of (values, [statement-or-expression text...]) with side effects (++/--, op=):
    the variables are reset before every text and printed after it"""
    lines = [FUNS, "void main() {\n"]
    for vs, texts in cases:
        for t in texts:
            lines.append("  { " + decls(vs) + "\n")
            lines.append("    %s\n" % t)
            lines.append("    println(%s);\n  }\n" % ", ".join(as_env(vs)))
    lines.append("}\n")
    return "".join(lines)


# ------------------------------------------------------------------ shrinking
def subtrees(t):
    yield t
    for c in children(t):
        yield from subtrees(t[c])
    for a in args_of(t):
        yield from subtrees(a)


def shrink_candidates(t):
    """smaller trees: every proper sub-tree, and the tree with one node replaced by one of its children"""
    seen, out = set(), []

    def add(x):
        k = sx(x)
        if k not in seen and size(x) < size(t):
            seen.add(k)
            out.append(x)
    for s in list(subtrees(t))[1:]:
        add(s)
    for path in list(positions(t)):
        node = get_at(t, path)
        kids = [node[c] for c in children(node)] + list(args_of(node))
        for k in kids:
            try:
                add(replace_at(t, path, lambda _s, k=k: k))
            except Exception:
                pass
    out.sort(key=size)
    return out[:60]


def tree_disagrees(impl_dir, trees):
    """for each source tree: None if the real parser agrees with the model on its printed text, else a dict"""
    mt = model_tree(trees)
    texts = [m["text"] for m in mt]
    mp = model_parse(texts)
    im = impl_dumps(impl_dir, texts, [False] * len(texts))
    res = []
    for t, m, p_, i in zip(trees, mt, mp, im):
        v = model_verdict(p_)
        if v == "SKIP" or v == i:
            res.append(None)
        else:
            res.append({"text": m["text"], "model": p_, "impl": i, "wf": m["wf"], "safe": m["safe"], "rt": m["rt"]})
    return res


def shrink_tree(impl_dir, t, rounds=12):
    cur = t
    for _ in range(rounds):
        cands = shrink_candidates(cur)
        if not cands:
            break
        res = tree_disagrees(impl_dir, cands)
        nxt = next((c for c, r in zip(cands, res) if r is not None), None)
        if nxt is None:
            break
        cur = nxt
    return cur


def evaluable(t):
    k = t[0]
    if k in ("N", "V"):
        return True
    if k == "P":
        return evaluable(t[1])
    if k == "B":
        return evaluable(t[2]) and evaluable(t[3])
    if k == "U":
        return t[1] in UNOPS and evaluable(t[2])
    if k == "T":
        return all(evaluable(t[i]) for i in (1, 2, 3))
    if k == "C":
        return ((t[1] in ("g", "F", "sizeof") and len(t[2]) == 1) or (t[1] == "f" and len(t[2]) == 2)) and all(evaluable(a) for a in t[2])
    if k == "K":
        return t[1] == "int" and evaluable(t[2])
    return False


def wrap_atoms(t):
    """every identifier operand in a pair of redundant parentheses of its own"""
    if t[0] == "V":
        return ("P", t)
    l = list(t)
    for c in children(t):
        l[c] = wrap_atoms(t[c])
    t = tuple(l)
    if t[0] in ARGS_AT:
        t = with_args(t, [wrap_atoms(a) for a in args_of(t)])
    return t


def wrap_delimited(t):
    """every operand that is delimited by the syntax itself - call argument, array-literal element, index expression -
    in a pair of redundant parentheses (the printer never parenthesises these positions)"""
    l = list(t)
    for c in children(t):
        l[c] = wrap_delimited(t[c])
    if t[0] == "I" and l[2][0] not in ("P", "N", "V"):
        l[2] = ("P", l[2])
    t = tuple(l)
    if t[0] in ARGS_AT:
        t = with_args(t, [a if a[0] in ("P", "N", "V") else ("P", a) for a in (wrap_delimited(a) for a in args_of(t))])
    return t


def property_oracle(impl_dir, seed, t):
    """The property's own reading on one source tree: println of the text as given (with its redundant
    parentheses), of the minimal text and of the fully parenthesised text must print the same value
    (operand values by brute force in the model), and the real parser must build the same AST for the three
    texts.  -> (violated?, description, payload)"""
    t0 = strip(t)
    mt = model_tree([t, t0, model_full([t0])[0], wrap_atoms(t0), wrap_delimited(t0)])
    forms = [("given", mt[0]["text"]), ("minimal", mt[1]["text"]), ("full", mt[2]["text"]), ("identifiers parenthesised", mt[3]["text"]),
             ("arguments, elements and indices parenthesised", mt[4]["text"])]
    keep = [0, 1, 2] + [k for k in (3, 4) if mt[k]["safe"] and forms[k][1] not in [f[1] for f in forms[:k]]]
    if forms[0][1] == forms[1][1]:
        keep.remove(0)
    forms, mt = [forms[k] for k in keep], [mt[k] for k in keep]
    texts = [x[1] for x in forms]
    d = impl_dumps(impl_dir, texts, [False] * len(texts))
    payload = {"texts": dict(forms), "impl_ast": dict(zip([x[0] for x in forms], d))}
    if evaluable(t0) and all(m["safe"] for m in mt):
        rng = rng_for(seed, "c02-oracle", sx(t0))
        names = list(VARS) + [n for n in idents(t0) if n not in VARS]
        cands = [{n: rng.choice(VALS) for n in names} for _ in range(60)]
        ev = model_eval([(vs, t0) for vs in cands])
        cases = [(vs, texts) for vs, v in zip(cands, ev) if v is not None][:30]
        exp = [v for v in ev if v is not None][:30]
        outs = run_eval_cases(impl_dir, cases)
        for (vs, _), o, want in zip(cases[:3], outs[:3], exp[:3]):
            if not isinstance(o, list):
                # the program failed as a whole: run each form alone
                rs = [common.run_cb(impl_dir, eval_program([(vs, [tx])])) for tx in texts]
                ss = [(r[0], r[1].strip()) for r in rs]
                if len(set(ss)) > 1:
                    payload.update({"values": as_env(vs), "value_of_the_tree": want,
                                    "alone": {n: {"rc": r[0], "stdout": r[1], "stderr": r[2][:300]} for (n, _), r in zip(forms, rs)},
                                    "program": eval_program([(vs, texts)])})
                    return True, "; ".join("println(%s) gives exit %s output %r" % (tx, x[0], x[1]) for tx, x in zip(texts, ss)) + \
                        " with %s" % as_env(vs), payload
        for (vs, _), o, want in zip(cases, outs, exp):
            if isinstance(o, list) and len(set(o)) > 1:
                payload.update({"values": as_env(vs), "printed": dict(zip([x[0] for x in forms], o)),
                                "value_of_the_tree": want, "program": eval_program([(vs, texts)])})
                return True, "; ".join("println(%s) prints %s" % (tx, x) for tx, x in zip(texts, o)) + \
                    " with %s" % as_env(vs), payload
    if len(set(d)) > 1:
        return True, "the parser builds different ASTs for " + " / ".join("`%s`" % tx for tx in texts), payload
    return False, "println and AST agree for the given, minimal and fully parenthesised text on this input", payload


# ------------------------------------------------------------------ known findings
def replay_finding(impl_dir, f):
    """-> True if the stored input still shows the defect"""
    r = f["replay"]
    env = {"CB_VERIF_PARSE_ONLY": "1"} if r.get("parse_only") else None
    rc, o, e = common.run_cb(impl_dir, r["program"], env=env)
    got = o.split("\n")[:-1] if o.endswith("\n") else o.split("\n")
    ok = (rc == 0 and (r.get("parse_only") or got == r["expected"]))
    return not ok, {"rc": rc, "stdout": got[:6], "stderr": e[:200]}


# ------------------------------------------------------------------ main
def run(rep):
    seed, tier = rep.seed, rep.tier
    quick = tier == "quick"
    import time as _time
    phase, _t = {}, [_time.time()]

    def mark(name):
        phase[name] = round(_time.time() - _t[0], 1)
        _t[0] = _time.time()
    # (0) re-extract the ladder table from the current C++ text
    gen = os.path.join(common.COQ, PROP, "Gen_LadderTable.v")
    with common.Lock("c02-gen"):
        info, tstatus = ladder_tr.regenerate(common.REPO, gen)
    rep.coverage["translator"] = {"status": tstatus, "recognised": info.get("recognised"),
                                  "problems": info.get("problems"),
                                  "levels": [[ladder_tr.OP_TEXT[o] for o in l["ops"]] for l in info.get("levels", [])]}
    if tstatus == "stale":
        rep.notes.append("translator: stale - expression_parser.cpp no longer has the recognised shape (%s); "
                         "Gen_LadderTable.v is the last generated one, relying on the correspondence run" % info.get("problems"))
    # (1) proofs
    cq = common.coq_check_props(PROP)
    common.proof_coverage(rep, cq)
    proof_broken = not cq["ok"]
    if proof_broken and str(cq.get("failed_theorem") or "").startswith("dependency C02/Properties_C02.v line"):
        # the obligation that broke is in the property file itself: name it
        try:
            ln = int(str(cq["failed_theorem"]).split()[-1])
            name = None
            for l in open(os.path.join(common.COQ, PROP, "Properties_C02.v")).read().split("\n")[:ln]:
                mm = re.match(r"\s*(?:Theorem|Corollary)\s+([A-Za-z0-9_']+)", l)
                if mm:
                    name = mm.group(1)
            if name:
                cq["failed_theorem"] = name
        except (ValueError, OSError):
            pass
    mark("coq")
    common.ensure_model(PROP)
    impl = common.build_impl("plain")
    mark("builds")

    violations = []      # (kind, tree-or-text, detail)
    hist = {}
    n_eval = 0
    distinct = set()
    nontrivial = set()
    avoided = {"generic-lookahead": 0, "upper-ident-lt": 0, "sizeof-upper-ident": 0, "type-named-variable-cast": 0,
               "outside-fragment": 0}
    samples = []

    # which operator pairs are ordered differently by the current C++ table and the pinned table
    changed_pairs = []
    if info.get("recognised"):
        cur = {}
        for k, l in enumerate(info["levels"]):
            for o in l["ops"]:
                cur.setdefault(ladder_tr.OP_TEXT[o], k + 1)
    rc_, lv_out, _ = common.sh([common.model_bin(PROP), "levels", "pinned"])
    pin = {l.split()[0]: int(l.split()[1]) for l in lv_out.split("\n") if l.strip()}
    if info.get("recognised"):
        sign = lambda x: (x > 0) - (x < 0)   # noqa: E731
        for o1 in BINOPS:
            for o2 in BINOPS:
                if sign(cur.get(o1, 0) - cur.get(o2, 0)) != sign(pin[o1] - pin[o2]):
                    changed_pairs.append((o1, o2))
        rep.coverage["translator"]["pairs_ordered_differently_from_pinned"] = len(changed_pairs)

    # ---------------- (2) AST correspondence: trees
    trees, origin = [], []
    corpus = os.path.join(common.VERIF, "corpus", "c02.json")
    corpus_texts = []
    if os.path.exists(corpus):
        for c in json.load(open(corpus)):
            if "tree" in c:
                trees.append(unsx(c["tree"])); origin.append("corpus")
            elif "text" in c:
                corpus_texts.append(c["text"])
    a_, b_, c_ = ("V", "a"), ("V", "b"), ("V", "c")
    for (o1, o2) in changed_pairs[:40]:       # targeted: the operators whose relative level changed
        trees += [("B", o2, ("B", o1, a_, b_), c_), ("B", o1, a_, ("B", o2, b_, c_))]
        origin += ["table-diff", "table-diff"]
    pc = pair_cases()
    fulls = iter(model_full([c[2] for c in pc if c[0] == "pair-full"]))
    for c in pc:
        trees.append(next(fulls) if c[0] == "pair-full" else c[1])
        origin.append(c[0])
    n_exh = len(pc)
    for t in nesting_cases():
        trees.append(t); origin.append("nesting-min")
        trees.append(model_full_one(t)); origin.append("nesting-full")
    for t in lookahead_cases():
        trees.append(t); origin.append("lookahead-boundary")
    for k, t in enumerate(nesting_cases()):
        trees.append(add_random_pars(rng_for(seed, "c02-nestred", k), t, 0.35)); origin.append("nesting-redundant")
    for t in ident_cases():          # identifier spellings x parenthesisation x operand position (exhaustive)
        trees.append(t); origin.append("ident-spelling")
    n_ident = len(ident_cases())
    if not quick:
        for t in triple_cases():
            trees.append(t); origin.append("triple-min")
    n_rand = 4000 if quick else 60000
    all_kinds = {"bin", "un", "ptr", "incdec", "idx", "mem", "call", "mcall", "cast", "sizeof", "arr", "tern", "asg", "par"}
    for k in range(n_rand):
        rng = rng_for(seed, "c02-tree", k)
        depth = rng.choice([2, 3, 4, 5] if quick else [3, 4, 5, 6])
        t = rand_tree(rng, depth, all_kinds if rng.random() < 0.7 else {"bin", "un", "tern", "par", "incdec", "cast"},
                      fancy=rng.choice([0.0, 0.0, 0.25, 0.6]))
        r = rng.random()
        if r < 0.35:
            t = strip(t); o = "random-min"
        elif r < 0.6:
            t = model_full_one(strip(t)); o = "random-full"
        else:
            t = add_random_pars(rng, t, rng.choice([0.05, 0.15, 0.4])); o = "random-redundant"
        trees.append(t); origin.append(o)
    # batch the model's `full` requests made above
    trees = resolve_full(trees)

    mt = model_tree(trees)
    texts = [m["text"] for m in mt]
    mp = model_parse(texts)
    # texts the model rejects are parsed one per program (a rejected println ends the parse of the whole program);
    # the look-ahead stops at ) ; since 9bd33cd: the statements of a program are independent
    im = impl_dumps(impl, texts, [model_verdict(p_) not in ("ERR", "SKIP") for p_ in mp])
    rt_fail = []
    for t, o, m, p_, i in zip(trees, origin, mt, mp, im):
        hist[o] = hist.get(o, 0) + 1
        n_eval += 1
        if not m["safe"]:
            avoided[hazard_kind(m["text"])] += 1     # excluded from the round-trip claim, the ASTs are still compared
        if m["wf"] and m["safe"] and not m["rt"]:
            rt_fail.append((t, m["text"], p_))
        v = model_verdict(p_)
        if v == "SKIP":
            continue
        if m["text"] not in distinct:
            distinct.add(m["text"])
            if any(x in m["text"] for x in BINOPS + ["?", "=", "++", "--", "[", "."]):
                nontrivial.add(m["text"])
        if v != i:
            violations.append(("tree", t, {"origin": o, "text": m["text"], "model": p_, "impl": i, "safe": m["safe"]}))
    for k in (n_exh // 2, len(trees) - 7, len(trees) - 3):
        if 0 <= k < len(trees):
            samples.append({"origin": origin[k], "tree": sx(trees[k]),
                            "text": texts[k], "model": mp[k], "impl": im[k]})
    for t, text, p_ in rt_fail[:3]:
        rep.violation("model-roundtrip", {"tree": sx(t), "text": text, "model": p_},
                      "extracted model contradicts roundtrip_general on a safe well-formed tree (model/extraction defect)", True)

    mark("ast-trees")
    # ---------------- (2b) the real lexer: the same token sequence written compactly (a+b*c) must give the
    # same AST as the blank-separated text the model is compared on
    sel = [k for k in range(len(texts)) if im[k] is not None and not str(im[k]).startswith(("ERR", "CRASH"))]
    sel = sel[::2] if quick else sel
    ctexts = [compact(texts[k]) for k in sel]
    cim = impl_dumps(impl, ctexts, [True] * len(ctexts))
    n_compact = 0
    for k, ct, ci in zip(sel, ctexts, cim):
        n_compact += 1
        if ci != im[k]:
            violations.append(("text", ct, {"origin": "compact-spelling", "text": ct, "model": "same AST as `%s`: %s" % (texts[k], im[k]), "impl": ci}))
    hist["compact-spelling"] = n_compact
    n_eval += n_compact
    if ctexts:
        samples.append({"origin": "compact-spelling", "text": ctexts[len(ctexts) // 2], "same_ast_as": texts[sel[len(ctexts) // 2]]})

    # ---------------- (2c) literal spellings: the same expression with integer literals written as bool / float /
    # zero-padded literals of the same int value must give the same AST (NUMBER / TRUE / FALSE branches of parsePrimary)
    lsel = [k for k in sel if mt[k]["safe"] and re.search(r"(?:^| )\d+(?: |$)", texts[k])][:(600 if quick else 6000)]
    ltexts = [respell_literals(rng_for(seed, "c02-lit", k), texts[k]) for k in lsel]
    lim = impl_dumps(impl, ltexts, [True] * len(ltexts))
    n_lit = 0
    for k, lt, li in zip(lsel, ltexts, lim):
        if lt == texts[k]:
            continue
        n_lit += 1
        if li != im[k]:
            violations.append(("text", lt, {"origin": "literal-spelling", "text": lt, "model": "same AST as `%s`: %s" % (texts[k], im[k]), "impl": li}))
    hist["literal-spelling"] = n_lit
    n_eval += n_lit
    if ltexts:
        samples.append({"origin": "literal-spelling", "text": ltexts[len(ltexts) // 2], "same_ast_as": texts[lsel[len(ltexts) // 2]]})

    mark("compact")
    # ---------------- (3) malformed token streams (one program each)
    n_mal = 2500 if quick else 25000
    base = [m["text"] for m, o in zip(mt, origin) if o.startswith("random")]
    mtexts = list(corpus_texts)
    for k in range(n_mal):
        rng = rng_for(seed, "c02-mal", k)
        toks = mutate_tokens(rng, rng.choice(base).split() if base else ["a"])
        s = " ".join(toks)
        if outside_fragment(s):
            avoided["outside-fragment"] += 1
            continue
        mtexts.append(s)
    mmp = model_parse(mtexts)
    msafe = model_lines("safe", mtexts)
    mim = impl_dumps(impl, mtexts, [model_verdict(p_) not in ("ERR", "SKIP") for p_ in mmp], batch=40)
    mal_ok = 0
    for s, p_, i, sf in zip(mtexts, mmp, mim, msafe):
        hist["malformed"] = hist.get("malformed", 0) + 1
        n_eval += 1
        v = model_verdict(p_)
        if v == "SKIP":
            continue
        if v not in ("ERR",):
            mal_ok += 1
        if s not in distinct:
            distinct.add(s); nontrivial.add(s)
        if v != i:
            violations.append(("text", s, {"origin": "malformed", "text": s, "model": p_, "impl": i}))
    rep.coverage["malformed_accepted_by_both"] = mal_ok
    if mtexts:
        samples.append({"origin": "malformed", "text": mtexts[len(mtexts) // 2], "model": mmp[len(mtexts) // 2], "impl": mim[len(mtexts) // 2]})

    mark("malformed")
    # ---------------- (4) metamorphic evaluation: println(e) vs println(full(e)), operands from the model
    ev_cases, ev_meta = [], []
    a_, b_, c_ = ("V", "a"), ("V", "b"), ("V", "c")
    pair_trees = []
    for o1 in BINOPS:
        for o2 in BINOPS:
            pair_trees.append((("B", o2, ("B", o1, a_, b_), c_), ("B", o1, a_, ("B", o2, b_, c_))))
    undisc = 0
    for k, (tl, tr) in enumerate(pair_trees):
        rng = rng_for(seed, "c02-pairval", k)
        for t, alt in ((tl, tr), (tr, tl)):
            best = find_values(rng, [t], [alt])
            if best is None:
                continue
            if best[0] == 0:
                undisc += 1
            ev_meta.append({"tree": t, "values": best[1], "expect": best[2], "origin": "pair-eval"})
    for k, t in enumerate(ident_eval_cases()):      # identifier spellings in redundant parentheses (exhaustive family)
        rng = rng_for(seed, "c02-identval", k)
        best = find_values(rng, [t], (), tries=10, vals=[1, 2, 3, 5, 7, -1, -2, 8])
        if best is None:
            continue
        ev_meta.append({"tree": t, "values": best[1], "expect": best[2], "origin": "ident-eval", "red": t})
    n_re = 1500 if quick else 20000
    for k in range(n_re):
        rng = rng_for(seed, "c02-evtree", k)
        t = rand_eval_tree(rng, rng.choice([2, 3, 4, 5] if quick else [3, 4, 5, 6]), fancy=rng.choice([0.0, 0.0, 0.3, 0.6]))
        best = find_values(rng, [t], (), tries=12)
        if best is None:
            continue
        ev_meta.append({"tree": t, "values": best[1], "expect": best[2], "origin": "random-eval"})
    # texts: minimal, full, one redundant placement (random, or the given one)
    mins = [strip(m["tree"]) for m in ev_meta]
    fulls_sx = model_full(mins)
    reds = []
    for k, m in enumerate(ev_meta):
        rng = rng_for(seed, "c02-evred", k)
        reds.append(m["red"] if "red" in m else add_random_pars(rng, mins[k], 0.3))
    mt_min, mt_full, mt_red = model_tree(mins), model_tree(fulls_sx), model_tree(reds)
    for m, x, y, z in zip(ev_meta, mt_min, mt_full, mt_red):
        # avoidance of the four known heuristics of parsePrimary (the model's safeb, exact)
        ok = x["safe"] and y["safe"] and z["safe"]
        m["texts"] = [x["text"], y["text"], z["text"]]
        m["safe"] = ok
        if not ok:
            avoided[hazard_kind(next(q["text"] for q in (x, y, z) if not q["safe"]))] += 1
    n0 = len(ev_meta)
    ev_meta = [m for m in ev_meta if not ternary_typed_branch(m["tree"])]
    avoided["evaluator: ?: with a cast/sizeof branch is 0 (same AST for all texts: not C02)"] = n0 - len(ev_meta)
    ev_meta = [m for m in ev_meta if m["safe"]]
    outs = run_eval_cases(impl, [(m["values"], m["texts"]) for m in ev_meta])
    ev_distinct_values = set()
    for m, o in zip(ev_meta, outs):
        hist[m["origin"]] = hist.get(m["origin"], 0) + 1
        n_eval += 1
        key = (m["texts"][2], tuple(sorted(as_env(m["values"]).items())))
        if key not in distinct:
            distinct.add(key); nontrivial.add(key)
        if not isinstance(o, list):
            violations.append(("eval", m["tree"], {"origin": m["origin"], "texts": m["texts"], "values": m["values"],
                                                    "impl": list(o), "expect": m["expect"]}))
            continue
        ev_distinct_values.add(o[0])
        if not (o[0] == o[1] == o[2] == str(m["expect"])):
            violations.append(("eval", m["tree"], {"origin": m["origin"], "texts": m["texts"], "values": m["values"],
                                                    "impl": o, "expect": m["expect"]}))
    rep.coverage["evaluation_runs"] = len(ev_meta)
    rep.coverage["pair_groupings_not_distinguishable_by_value"] = undisc
    rep.coverage["distinct_printed_values"] = len(ev_distinct_values)
    if ev_meta:
        k = len(ev_meta) // 3
        samples.append({"origin": ev_meta[k]["origin"], "values": as_env(ev_meta[k]["values"]),
                        "println": ev_meta[k]["texts"], "printed": outs[k], "model_value": ev_meta[k]["expect"]})
        k = next((i for i, m in enumerate(ev_meta) if m["origin"] == "ident-eval" and "( N )" in m["texts"][2]), None)
        if k is not None:
            samples.append({"origin": "ident-eval", "values": as_env(ev_meta[k]["values"]),
                            "println": ev_meta[k]["texts"], "printed": outs[k], "model_value": ev_meta[k]["expect"]})

    # the same value observed in other expression contexts: initialiser, condition, call argument, array index
    ctx_meta = [m for m in ev_meta if m["origin"] in ("random-eval", "ident-eval")][::(4 if quick else 2)]
    for wrap in ("init", "if", "arg", "index"):
        def want(v, wrap=wrap):
            if wrap == "init":
                return v
            if wrap == "if":
                return 1 if v != 0 else 0
            if wrap == "arg":
                return 7 - v if -2147483641 <= v <= 2147483647 else None
            return [11, 22, 33, 44][v & 3]
        sel_c = [m for m in ctx_meta if want(m["expect"]) is not None]
        outs_c = run_eval_cases(impl, [(m["values"], m["texts"]) for m in sel_c], wrap=wrap)
        for m, o in zip(sel_c, outs_c):
            hist["context-" + wrap] = hist.get("context-" + wrap, 0) + 1
            n_eval += 1
            if not isinstance(o, list) or not (o[0] == o[1] == o[2] == str(want(m["expect"]))):
                violations.append(("eval", m["tree"], {"origin": "context-" + wrap, "texts": m["texts"], "values": m["values"],
                                                        "impl": list(o), "expect": want(m["expect"])}))

    # side effects: ++/-- inside expressions and op= statements, minimal vs full, same final state
    eff_cases = []
    n_eff = 300 if quick else 4000
    for k in range(n_eff):
        rng = rng_for(seed, "c02-eff", k)
        pure = rand_eval_tree(rng, rng.choice([1, 2, 3]), calls=False)
        used = set(re.findall(r"\(V (\w)\)", sx(pure)))
        free = [v for v in VARS if v not in used]
        if not free:
            continue
        x = rng.choice(free)
        if rng.random() < 0.3:
            x = rng.choice(UPPER + LOWER_FANCY)      # the modified variable under another spelling
        if rng.random() < 0.5:
            inc = (rng.choice(["PRE", "POST"]), rng.choice(["++", "--"]), ("V", x))
            # the value the operand contributes (for the definedness guard evaluated in the model)
            val = ("V", x) if inc[0] == "POST" else ("B", "+" if inc[1] == "++" else "-", ("V", x), ("N", 1))
            r = rng.random()
            shape = (lambda h: ("B", o_, h, pure)) if r < 0.35 else (lambda h: ("B", o_, pure, h)) if r < 0.7 else \
                    (lambda h: ("U", u_, h)) if r < 0.8 else (lambda h: ("B", o_, ("U", u_, h), pure))
            o_, u_ = rng.choice(BINOPS), rng.choice(UNOPS)
            t, guard = shape(inc), shape(val)
            stmt = False
        else:
            op = rng.choice(ASGOPS)
            t = ("S", op, ("V", x), pure)
            guard = pure if op == "=" else ("B", op[:-1], ("V", x), pure)
            stmt = True
        best = find_values(rng, [guard], (), tries=12)      # negative operands too since fix 7c216d9
        if best is None:
            continue
        eff_cases.append((t, best[1], stmt))
    e_min = model_tree([c[0] for c in eff_cases])
    e_full = model_tree(model_full([c[0] for c in eff_cases]))
    eff_run = []
    for (t, vs, stmt), x, y in zip(eff_cases, e_min, e_full):
        if x["safe"] and y["safe"]:
            fmt = "%s;" if stmt else "println(%s);"
            eff_run.append((vs, [fmt % x["text"], fmt % y["text"]], t))
    chunks = [eff_run[i:i + 20] for i in range(0, len(eff_run), 20)]

    def run_eff(ch):
        rc, o, e = common.run_cb(impl, effect_program([(vs, tx) for vs, tx, _ in ch]))
        return ch, rc, o, e
    for ch, rc, o, e in common.pmap(run_eff, chunks):
        ls = o.split("\n")[:-1] if o.endswith("\n") else o.split("\n")
        per = []
        k = 0
        okc = rc == 0
        for vs, tx, t in ch:
            n = 4 if tx[0].startswith("println") else 2
            per.append(ls[k:k + n]); k += n
        if not okc or k != len(ls):
            # a runtime error inside the chunk: rerun one by one
            for vs, tx, t in ch:
                rc1, o1, e1 = common.run_cb(impl, effect_program([(vs, tx)]))
                l1 = o1.split("\n")[:-1]
                n = 4 if tx[0].startswith("println") else 2
                half = n // 2
                n_eval += 1
                hist["side-effects"] = hist.get("side-effects", 0) + 1
                if rc1 != 0 or len(l1) != n or l1[:half] != l1[half:]:
                    violations.append(("effect", t, {"origin": "side-effects", "texts": tx, "values": vs, "impl": l1, "rc": rc1, "stderr": e1[:200]}))
            continue
        for (vs, tx, t), l1 in zip(ch, per):
            half = len(l1) // 2
            n_eval += 1
            hist["side-effects"] = hist.get("side-effects", 0) + 1
            if l1[:half] != l1[half:]:
                violations.append(("effect", t, {"origin": "side-effects", "texts": tx, "values": vs, "impl": l1}))
    if eff_run:
        samples.append({"origin": "side-effects", "values": as_env(eff_run[0][0]), "statements": eff_run[0][1]})

    mark("evaluation")
    # ---------------- (5) disagreements: shrink, property oracle, report
    rep.coverage["disagreements"] = len(violations)
    # trees first; among the evaluations a silently different value before a rejected program; small before large
    violations.sort(key=lambda v: (v[0] != "tree", v[0] in ("eval", "effect") and (v[2].get("impl") or ["ERR"])[0] == "ERR", len(str(v[1]))))
    reported, tried, seen_shrunk = 0, 0, set()
    per_kind, cap = {}, {"tree": 3, "eval": 2, "effect": 1, "text": 2}      # a few of every kind of evidence
    for kind, obj, det in violations:
        if reported >= 8 or tried >= 30:
            break
        if per_kind.get(kind, 0) >= cap.get(kind, 2):
            continue
        tried += 1
        if kind in ("tree", "eval", "effect") and not isinstance(obj, str):
            t = obj
            if kind == "tree":
                t = shrink_tree(impl, obj)
                dd = tree_disagrees(impl, [t])[0] or det
            else:
                dd = det
            if (kind, sx(t)) in seen_shrunk:      # many disagreements shrink to the same tree: report each once
                continue
            seen_shrunk.add((kind, sx(t)))
            reported += 1
            per_kind[kind] = per_kind.get(kind, 0) + 1
            bad, text, payload = property_oracle(impl, seed, t)
            payload.update({"tree": sx(t), "kind": kind, "first_seen": det,
                            "broken": "correspondence Model.parse = real parser (carrier of every C02 theorem)", "shrunk": dd})
            if kind in ("eval", "effect") and not bad:
                bad, text = True, "println of the minimal / full / redundant texts %s printed %s (model value %s) with values %s" % (
                    det.get("texts"), det.get("impl"), det.get("expect"), det.get("values"))
            rep.violation("corr", payload, ("real parser and proved model disagree on `%s`: %s" % (
                dd.get("text", det.get("text", "")), text)) if kind == "tree" else text, no_failing_input=not bad)
        else:
            reported += 1
            per_kind[kind] = per_kind.get(kind, 0) + 1
            rep.violation("corr-text", {"text": det["text"], "model": det["model"], "impl": det["impl"], "kind": kind,
                                        "broken": "correspondence Model.parse = real parser on a mutated token stream"},
                          "real parser and proved model disagree on the token stream `%s` (model %s, parser %s)" % (
                              det["text"], det["model"][:80], str(det["impl"])[:80]),
                          no_failing_input=True)
    if proof_broken:
        # name the obligation; a concrete input was searched above (table-diff trees come first)
        found = [p for p, _, noinp in rep.violations if not noinp]
        rep.violation("proof", {"theorem": cq["failed_theorem"], "log": cq["log"][-3000:],
                                "table_now": rep.coverage["translator"]["levels"],
                                "pairs_ordered_differently_from_pinned": changed_pairs[:20],
                                "concrete_input": found[0] if found else None},
                      "proof obligation %s no longer checks (generated ladder table/shape changed?)" % cq["failed_theorem"],
                      no_failing_input=not found)

    # ---------------- (5b) thorough: independent re-check of the compiled proofs
    if not quick and cq["ok"]:
        okc, summ = common.coqchk(PROP)
        rep.coverage["coqchk"] = {"ok": okc, "summary": summ[:600]}
        if not okc:
            rep.violation("coqchk", {"log": summ[-2000:]}, "coqchk rejects the compiled C02 development", True)

    # ---------------- (6) known findings
    # former witnesses of repaired defects (corpus): they must keep printing what the property demands
    n_prog = 0
    if os.path.exists(corpus):
        for c in json.load(open(corpus)):
            if "program" in c:
                n_prog += 1
                rc, o, e = common.run_cb(impl, c["program"])
                got = o.split("\n")[:-1] if o.endswith("\n") else o.split("\n")
                if rc != 0 or got != c["expected"]:
                    rep.violation("regression", {"program": c["program"], "expected": c["expected"], "rc": rc, "stdout": got[:8],
                                                 "stderr": e[:300], "from": c.get("from")},
                                  "former witness of a repaired defect fails again (%s): exit %s, printed %s, demanded %s" % (
                                      c.get("from"), rc, got[:6], c["expected"]))
    rep.coverage["corpus_programs"] = n_prog
    for f in common.known_findings(PROP):
        still, obs = replay_finding(impl, f)
        if still:
            rep.known(f["id"], f["what_fails"])
        else:
            rep.notes.append("known finding %s no longer reproduces (fixed?): %s" % (f["id"], obs))

    mark("report+known")
    rep.coverage["phase_seconds"] = phase
    rep.coverage.update({
        "evaluations": n_eval, "distinct_nontrivial": len(nontrivial),
        "rule": "every case = one expression text given to the real parser (CB_VERIF_DUMP_AST) and to the extracted model, or one "
                "program printing println(e) for the minimal / fully parenthesised / randomly parenthesised text under operand values "
                "found by brute force in the model; distinct = distinct text (x operand values); non-trivial = contains an operator",
        "exhaustive": True,
        "exhaustive_space": "all 18x18 ordered pairs of binary operators x both groupings x {minimal, full, redundant pair at each of the 5 positions} "
                            "(%d trees) + %d unary/postfix/ternary/assignment nestings + %d identifier-spelling trees (%d spellings: plain, "
                            "other lower-case shapes, upper-case initial, names of declared struct/typedef/enum x {bare, (s), ((s))} x every "
                            "operand position)%s; value level: all 648 pair groupings + %d identifier-spelling evaluations" % (
                                n_exh, len(nesting_cases()) * 3, n_ident, len(IDENT_SPECS),
                                "" if quick else " + all 18^3 operator triples x 5 shapes", len(ident_eval_cases())),
        "input_distribution": hist, "avoided_known_findings": avoided, "samples": samples,
    })
    rep.assumptions += [
        "the lexer is not modelled: expression texts are printed with one blank between tokens; the real lexer is tied in by "
        "re-parsing the compact spelling (a+b*c) of the same token sequences and comparing ASTs",
        "identifiers of every spelling class (lower/upper-case initial, underscores, digits, keyword prefixes, names of the "
        "structs/typedefs/enums/interface every program declares) are generated in every position; modelled besides the operators: "
        "casts to keyword types and to declared types, sizeof, method calls, the Name<T> heuristic; outside the modelled fragment "
        "(skipped by the malformed stream): await/try/checked/new/delete, chained calls f(x)(y), calls through a parenthesised "
        "callee, function types in casts, enum access T::m, struct literals, lambdas, string operands",
        "integer literals are small decimals in the model; bool / float / zero-padded spellings of the same value are tied in by "
        "an AST comparison (literal-spelling); the evaluation contexts initialiser / if / call argument / array index are "
        "compared with the model value of the expression",
        "evaluation semantics are observed on the binary only; the model evaluator (int range, C division/shift) is used to pick "
        "operand values and as a third opinion on printed values",
        "fuel: the extracted parse uses enough_fuel; an out-of-fuel answer would be reported as a disagreement (never observed)",
    ]


def model_full_one(t):
    """placeholder resolved in one batch by resolve_full"""
    return ("FULLREQ", t)


def resolve_full(trees):
    idx = [i for i, t in enumerate(trees) if isinstance(t, tuple) and t and t[0] == "FULLREQ"]
    if idx:
        out = model_full([trees[i][1] for i in idx])
        for i, s in zip(idx, out):
            trees[i] = s
    return trees


def replay(path):
    data = json.load(open(path))
    c = data["case"]
    common.ensure_model(PROP)
    impl = common.build_impl("plain")
    rc_total, did = 0, False
    texts = list((c.get("texts") or {}).values()) if isinstance(c.get("texts"), dict) else list(c.get("texts") or [])
    texts = texts or [c.get("text") or (c.get("shrunk") or {}).get("text")]
    texts = [t for t in texts if t]
    if texts:
        did = True
        ms = model_parse(texts)
        ims = impl_dumps(impl, texts, [False] * len(texts))
        ok = True
        for t, m, i in zip(texts, ms, ims):
            print("text :", t); print("model:", m); print("impl :", i)
            ok = ok and model_verdict(m) == i
        if not (ok and (len(set(ims)) == 1 or c.get("kind") == "text")):
            rc_total = 1
    prog = c.get("program")
    if not prog and texts and c.get("values"):
        prog = eval_program([(c["values"], texts)])
    if prog:
        did = True
        rc, o, e = common.run_cb(impl, prog)
        print("program:\n" + prog); print("rc", rc); print(o); print(e[:500])
        ls = o.split("\n")[:-1] if o.endswith("\n") else o.split("\n")
        if "expected" in c:
            good = rc == 0 and ls == c["expected"]
        else:
            good = rc == 0 and len(ls) >= 2 and len(set(ls)) == 1
            if good and c.get("value_of_the_tree") is not None:
                good = ls[0] == str(c["value_of_the_tree"])
        if not good:
            rc_total = 1
    if not did:
        print(json.dumps(c, indent=1))
        return 1
    return rc_total
